#!/usr/bin/env python3
"""Equivalence sweep (not a check): behaviour-PRESERVING rewrites applied to every function of the anchored
modules; each variant is materialised in a scratch copy and all property checks are run on it. Any check whose
verdict changes (a new finding, or no verdict) has a rule that depends on the spelling of the code rather than
on its behaviour: a false alarm in waiting. Operators (all semantics-preserving):
  rename-local   a local variable that is not a parameter, not captured by a nested function, is renamed
  invert-if      `if c: A else: B`  ->  `if not (c): B else: A`      (no elif chain)
  flip-eq        `a == b` / `a != b` / `a is b` / `a is not b`  ->  operands swapped
  nest-and       `if a and b: body` (no else)  ->  `if a:` `if b: body`
  extract-arg    `f(g(x), ...)` as the value of a simple statement  ->  `extracted_arg_ = g(x)` just before, `f(extracted_arg_, ...)`
  inline-local   `x = <expression without call>` read once, by the next statement  ->  the expression in place of x
  dedent-else    `if c: ...return / else: B`  ->  `if c: ...return` then B (the body always exits)
  ifexp-to-if    `x = a if c else b`  ->  an if / else statement assigning x
  comp-to-loop   `x = [e for v in it if c]`  ->  `x = []` and an explicit loop appending
usage: tools/eqsweep.py [--files a.py,b.py] [--limit N] [--jobs 14] [--out FILE]
"""
import argparse
import ast
import json
import os
import random
import shutil
import sys
import tempfile
from concurrent.futures import ProcessPoolExecutor

VERIF = os.path.dirname(os.path.dirname(os.path.abspath(__file__)))
sys.path.insert(0, VERIF)

from sa.util import replace_node_text  # noqa: E402
from tools.sweep import DEFAULT_FILES, PROPS, run_one  # noqa: E402

EXTRA_FILES = ["apischema/utils.py", "apischema/typing.py", "apischema/visitor.py", "apischema/conversions/conversions.py", "apischema/objects/getters.py",
               "apischema/validation/mock.py", "apischema/validation/dependencies.py", "apischema/json_schema/patterns.py", "apischema/tagged_unions.py",
               "apischema/methods.py", "apischema/std_types.py", "apischema/metadata/implem.py", "apischema/graphql/interfaces.py", "apischema/graphql/schema.py"]


def indent_of(src, node):
    line = src.splitlines()[node.lineno - 1]
    return line[: len(line) - len(line.lstrip())]


def variants_of(src: str, rel: str):
    tree = ast.parse(src)
    out = []
    lines = src.splitlines(keepends=True)
    for fn in ast.walk(tree):
        if not isinstance(fn, (ast.FunctionDef, ast.AsyncFunctionDef)):
            continue
        nested = [n for n in ast.walk(fn) if isinstance(n, (ast.FunctionDef, ast.AsyncFunctionDef, ast.Lambda, ast.ClassDef)) and n is not fn]
        nested_names = {x.id for n in nested for x in ast.walk(n) if isinstance(x, ast.Name)}
        params = {a.arg for a in fn.args.args + fn.args.kwonlyargs + fn.args.posonlyargs}
        if fn.args.vararg:
            params.add(fn.args.vararg.arg)
        if fn.args.kwarg:
            params.add(fn.args.kwarg.arg)
        own = [n for n in ast.walk(fn) if not any(n is not m and any(n is x for x in ast.walk(m)) for m in nested)]
        has_scope_stmt = any(isinstance(n, (ast.Global, ast.Nonlocal)) for n in own)
        # ---- rename-local
        stored = {x.id for x in own if isinstance(x, ast.Name) and isinstance(x.ctx, ast.Store)}
        all_names = {x.id for x in ast.walk(tree) if isinstance(x, ast.Name)} | {a.arg for f in ast.walk(tree) if isinstance(f, (ast.FunctionDef, ast.Lambda)) for a in f.args.args + f.args.kwonlyargs}
        for name in sorted(stored - params - nested_names):
            if has_scope_stmt or name.startswith("_") or (name + "_") in all_names:
                continue
            occ = [x for x in own if isinstance(x, ast.Name) and x.id == name]
            kw_clash = any(isinstance(k, ast.keyword) and k.arg == name for k in ast.walk(fn))  # keyword args are not Names: fine, they stay
            edits = sorted(((x.lineno, x.col_offset) for x in occ), reverse=True)
            new_lines = list(lines)
            ok = True
            for ln, col in edits:
                L = new_lines[ln - 1]
                # col_offset is in utf8 bytes; the repository is ascii on these lines in practice
                if L[col: col + len(name)] != name:
                    ok = False
                    break
                new_lines[ln - 1] = L[:col] + name + "_" + L[col + len(name):]
            if ok and edits:
                out.append((fn.lineno, f"rename-local `{name}` in {fn.name}", "".join(new_lines)))
        for n in own:
            # ---- invert-if
            if isinstance(n, ast.If) and n.orelse and not (len(n.orelse) == 1 and isinstance(n.orelse[0], ast.If)):
                seg_test = ast.get_source_segment(src, n.test)
                body_src = "".join(lines[n.body[0].lineno - 1: n.body[-1].end_lineno])
                else_src = "".join(lines[n.orelse[0].lineno - 1: n.orelse[-1].end_lineno])
                ind = indent_of(src, n)
                first = lines[n.lineno - 1]
                if not first.lstrip().startswith("if "):
                    continue  # elif
                # comments between the branches are lost: acceptable for a scratch variant
                new_block = f"{ind}if not ({seg_test}):\n{else_src}{ind}else:\n{body_src}"
                new = "".join(lines[: n.lineno - 1]) + new_block + "".join(lines[n.end_lineno:])
                out.append((n.lineno, f"invert-if `{seg_test[:40]}`", new))
            # ---- nest-and
            if isinstance(n, ast.If) and not n.orelse and isinstance(n.test, ast.BoolOp) and isinstance(n.test.op, ast.And) and len(n.test.values) == 2:
                first = lines[n.lineno - 1]
                if not first.lstrip().startswith("if "):
                    continue
                a, b = (ast.get_source_segment(src, v) for v in n.test.values)
                ind = indent_of(src, n)
                body_lines = lines[n.body[0].lineno - 1: n.body[-1].end_lineno]
                body_src = "".join("    " + bl if bl.strip() else bl for bl in body_lines)
                new_block = f"{ind}if {a}:\n{ind}    if {b}:\n{body_src}"
                new = "".join(lines[: n.lineno - 1]) + new_block + "".join(lines[n.end_lineno:])
                out.append((n.lineno, f"nest-and `{a[:30]} and {b[:30]}`", new))
            # ---- flip-eq
            if isinstance(n, ast.Compare) and len(n.ops) == 1 and isinstance(n.ops[0], (ast.Eq, ast.NotEq, ast.Is, ast.IsNot)):
                a = ast.get_source_segment(src, n.left)
                b = ast.get_source_segment(src, n.comparators[0])
                op = {ast.Eq: "==", ast.NotEq: "!=", ast.Is: "is", ast.IsNot: "is not"}[type(n.ops[0])]
                if a and b and not isinstance(n.comparators[0], ast.Constant) and not isinstance(n.left, ast.Constant):
                    out.append((n.lineno, f"flip-eq `{a[:30]} {op} {b[:30]}`", replace_node_text(src, n, f"{b} {op} {a}")))
    # ---- extract-arg: `stmt(... f(g(x)) ...)` -> `tmp_ = g(x)` placed just before the (simple) statement, when g(x) is the first
    #      thing the statement evaluates after plain name / attribute lookups
    for fn in ast.walk(tree):
        if not isinstance(fn, (ast.FunctionDef, ast.AsyncFunctionDef)):
            continue
        for blk in ast.walk(fn):
            for field in ("body", "orelse", "finalbody"):
                stmts = getattr(blk, field, None)
                if not isinstance(stmts, list):
                    continue
                for i, st in enumerate(stmts):
                    if not isinstance(st, (ast.Return, ast.Assign, ast.Expr)) or getattr(st, "value", None) is None or st.lineno != st.end_lineno and False:
                        continue
                    v = st.value
                    if isinstance(v, ast.Call) and isinstance(v.func, (ast.Name, ast.Attribute)) and not any(isinstance(x, ast.Call) for x in ast.walk(v.func)) and v.args \
                            and isinstance(v.args[0], ast.Call) and not isinstance(v.args[0], ast.Starred) and not any(isinstance(x, (ast.Lambda, ast.GeneratorExp, ast.ListComp, ast.Await, ast.Yield, ast.NamedExpr)) for x in ast.walk(v.args[0])):
                        if isinstance(st, ast.Assign) and any(isinstance(x, (ast.Subscript, ast.Attribute)) for t in st.targets for x in ast.walk(t)):
                            continue  # target evaluation order
                        inner = ast.get_source_segment(src, v.args[0])
                        if inner is None or "\n" in inner:
                            continue
                        ind = indent_of(src, st)
                        tmp = "extracted_arg_"
                        new_stmt_src = replace_node_text(src, v.args[0], tmp)
                        nl = new_stmt_src.splitlines(keepends=True)
                        nl.insert(st.lineno - 1, f"{ind}{tmp} = {inner}\n")
                        out.append((st.lineno, f"extract-arg `{inner[:40]}`", "".join(nl)))
                    # ---- inline-local: `x = <pure expr>` immediately followed by a statement reading x once, x read nowhere else
                    if isinstance(st, ast.Assign) and len(st.targets) == 1 and isinstance(st.targets[0], ast.Name) and i + 1 < len(stmts) \
                            and not any(isinstance(x, (ast.Call, ast.Lambda, ast.ListComp, ast.GeneratorExp, ast.DictComp, ast.SetComp, ast.Await, ast.NamedExpr, ast.Starred)) for x in ast.walk(st.value)):
                        nm = st.targets[0].id
                        reads = [x for x in ast.walk(fn) if isinstance(x, ast.Name) and x.id == nm and isinstance(x.ctx, ast.Load)]
                        writes = [x for x in ast.walk(fn) if isinstance(x, ast.Name) and x.id == nm and isinstance(x.ctx, ast.Store)]
                        nxt = stmts[i + 1]
                        if len(reads) == 1 and len(writes) == 1 and any(x is reads[0] for x in ast.walk(nxt)) and isinstance(nxt, (ast.Return, ast.Assign, ast.Expr, ast.If)) \
                                and not any(isinstance(x, (ast.Lambda, ast.FunctionDef, ast.ListComp, ast.GeneratorExp, ast.DictComp, ast.SetComp)) and any(y is reads[0] for y in ast.walk(x)) for x in ast.walk(nxt)):
                            if isinstance(nxt, ast.If) and not any(x is reads[0] for x in ast.walk(nxt.test)):
                                continue
                            rhs = ast.get_source_segment(src, st.value)
                            if rhs is None:
                                continue
                            s2 = replace_node_text(src, reads[0], f"({rhs})")
                            l2 = s2.splitlines(keepends=True)
                            del l2[st.lineno - 1: st.end_lineno]
                            out.append((st.lineno, f"inline-local `{nm} = {rhs[:40]}`", "".join(l2)))
    # ---- dedent-else / ifexp-to-if / comp-to-loop
    def always_exits(stmts):
        return bool(stmts) and isinstance(stmts[-1], (ast.Return, ast.Raise, ast.Continue, ast.Break))
    for fn in ast.walk(tree):
        if not isinstance(fn, (ast.FunctionDef, ast.AsyncFunctionDef)):
            continue
        for blk in ast.walk(fn):
            for field in ("body", "orelse", "finalbody"):
                stmts = getattr(blk, field, None)
                if not isinstance(stmts, list):
                    continue
                for i, st in enumerate(stmts):
                    first = lines[st.lineno - 1] if hasattr(st, "lineno") else ""
                    # dedent-else: `if c: ...exit / else: B`  ->  `if c: ...exit` followed by B at the if's level
                    if isinstance(st, ast.If) and first.lstrip().startswith("if ") and st.orelse and always_exits(st.body) and not (len(st.orelse) == 1 and isinstance(st.orelse[0], ast.If)):
                        ind = indent_of(src, st)
                        else_line = st.orelse[0].lineno - 2
                        # find the `else:` line
                        while else_line >= 0 and lines[else_line].strip() != "else:":
                            else_line -= 1
                        if else_line < st.body[-1].end_lineno - 1:
                            continue
                        else_src = lines[st.orelse[0].lineno - 1: st.orelse[-1].end_lineno]
                        ded = [l[4:] if l.startswith(ind + "    ") else l for l in else_src]
                        new_src = "".join(lines[:else_line]) + "".join(ded) + "".join(lines[st.orelse[-1].end_lineno:])
                        out.append((st.lineno, f"dedent-else `{ast.get_source_segment(src, st.test)[:40]}`", new_src))
                    # ifexp-to-if: `x = a if c else b`  ->  if statement
                    if isinstance(st, ast.Assign) and len(st.targets) == 1 and isinstance(st.targets[0], ast.Name) and isinstance(st.value, ast.IfExp) and st.lineno == st.end_lineno:
                        ind = indent_of(src, st)
                        t = st.targets[0].id
                        a, c, b = (ast.get_source_segment(src, x) for x in (st.value.body, st.value.test, st.value.orelse))
                        new_block = f"{ind}if {c}:\n{ind}    {t} = {a}\n{ind}else:\n{ind}    {t} = {b}\n"
                        out.append((st.lineno, f"ifexp-to-if `{t} = ... if {c[:30]}`", "".join(lines[: st.lineno - 1]) + new_block + "".join(lines[st.end_lineno:])))
                    # comp-to-loop: `x = [e for v in it if c]`  ->  explicit loop
                    if isinstance(st, ast.Assign) and len(st.targets) == 1 and isinstance(st.targets[0], ast.Name) and isinstance(st.value, ast.ListComp) and len(st.value.generators) == 1 \
                            and not st.value.generators[0].is_async and len(st.value.generators[0].ifs) <= 1:
                        g = st.value.generators[0]
                        t = st.targets[0].id
                        if any(isinstance(x, ast.Name) and x.id == t for x in ast.walk(st.value)):
                            continue
                        ind = indent_of(src, st)
                        e, v, it = (ast.get_source_segment(src, x) for x in (st.value.elt, g.target, g.iter))
                        if None in (e, v, it) or any("\n" in x for x in (e, v, it)):
                            continue
                        body = f"{ind}    {t}.append({e})\n"
                        if g.ifs:
                            c = ast.get_source_segment(src, g.ifs[0])
                            if c is None or "\n" in c:
                                continue
                            body = f"{ind}    if {c}:\n{ind}        {t}.append({e})\n"
                        new_block = f"{ind}{t} = []\n{ind}for {v} in {it}:\n{body}"
                        out.append((st.lineno, f"comp-to-loop `{t} = [...]`", "".join(lines[: st.lineno - 1]) + new_block + "".join(lines[st.end_lineno:])))
    ok = []
    for line, desc, new in out:
        if new == src:
            continue
        try:
            ast.parse(new)
        except SyntaxError:
            continue
        ok.append((rel, line, desc, new))
    return ok


def main():
    ap = argparse.ArgumentParser()
    ap.add_argument("--root", default="/repo")
    ap.add_argument("--files", default="")
    ap.add_argument("--limit", type=int, default=0)
    ap.add_argument("--jobs", type=int, default=14)
    ap.add_argument("--out", default="")
    ap.add_argument("--seed", type=int, default=1)
    ap.add_argument("--ops", default="", help="comma-separated operator names to keep")
    a = ap.parse_args()
    files = [f for f in a.files.split(",") if f] or sorted(set(DEFAULT_FILES + EXTRA_FILES))
    from sa.run import run_rules
    baseline = {}
    for p in PROPS:
        ctx = run_rules(p, "quick", a.root, quiet=True)
        baseline[p] = {f.key for f in ctx.findings}
    vs = []
    for rel in files:
        path = os.path.join(a.root, rel)
        if os.path.exists(path):
            vs += variants_of(open(path).read(), rel)
    if a.ops:
        keep = tuple(a.ops.split(","))
        vs = [v for v in vs if v[2].startswith(keep)]
    if a.limit and len(vs) > a.limit:
        random.Random(a.seed).shuffle(vs)
        vs = vs[: a.limit]
    base = tempfile.mkdtemp(prefix="apischema-eqsweep-", dir="/var/tmp")
    try:
        jobs = [(a.root, base, i, rel, line, desc, new, baseline) for i, (rel, line, desc, new) in enumerate(vs)]
        with ProcessPoolExecutor(max_workers=a.jobs) as ex:
            results = list(ex.map(run_one, jobs, chunksize=4))
    finally:
        shutil.rmtree(base, ignore_errors=True)
    alarms = []
    for idx, hits in results:
        if hits:
            rel, line, desc, _ = vs[idx]
            alarms.append((rel, line, desc, hits))
    print(f"eqsweep: {len(vs)} behaviour-preserving variants, {len(alarms)} changed a verdict")
    from collections import Counter
    c = Counter(h for _, _, _, hits in alarms for h in hits)
    for k, v in c.most_common():
        print(f"  {v:4d}  {k}")
    if a.out:
        json.dump({"total": len(vs), "alarms": alarms}, open(a.out, "w"), indent=1)
    for al in alarms[:60]:
        print("  ALARM", al[0], al[1], al[2], al[3])


if __name__ == "__main__":
    main()
