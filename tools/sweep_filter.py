#!/usr/bin/env python3
"""Second stage of the sensitivity sweep: keep only the survivors that ALSO pass the pinned test suite
(a realistic breaking change compiles and passes the tests). usage: tools/sweep_filter.py IN.json OUT.json"""
import json, os, shutil, subprocess, sys, tempfile
from concurrent.futures import ProcessPoolExecutor
sys.path.insert(0, os.path.dirname(os.path.dirname(os.path.abspath(__file__))))
from tools.sweep import mutants_of  # noqa

ROOT = "/repo"


def run(args):
    base, idx, rel, line, desc, new_src = args
    tmp = os.path.join(base, f"t{idx}")
    try:
        os.makedirs(tmp)
        for e in os.listdir(ROOT):
            if e in (".git", "apischema", ".pytest_cache", "__pycache__"):
                continue
            os.symlink(os.path.join(ROOT, e), os.path.join(tmp, e))
        shutil.copytree(os.path.join(ROOT, "apischema"), os.path.join(tmp, "apischema"), ignore=shutil.ignore_patterns("__pycache__"))
        open(os.path.join(tmp, rel), "w").write(new_src)
        r = subprocess.run(["/venv/bin/python", "-B", "-m", "pytest", "-q", "-x", "-p", "no:cacheprovider", "--timeout=120", "tests"], cwd=tmp, capture_output=True, text=True, timeout=600,
                           env={**os.environ, "PYTHONDONTWRITEBYTECODE": "1"})
        return idx, r.returncode == 0
    except Exception:
        return idx, False
    finally:
        shutil.rmtree(tmp, ignore_errors=True)


def main():
    d = json.load(open(sys.argv[1]))
    surv = {(s[0], s[1], s[2]) for s in d["survivors"]}
    muts = []
    for rel in sorted({s[0] for s in surv}):
        for m in mutants_of(open(os.path.join(ROOT, rel)).read(), rel):
            if (m[0], m[1], m[2]) in surv:
                muts.append(m)
    base = tempfile.mkdtemp(prefix="apischema-sweepf-", dir="/var/tmp")
    try:
        with ProcessPoolExecutor(max_workers=16) as ex:
            res = list(ex.map(run, [(base, i, *m) for i, m in enumerate(muts)], chunksize=2))
    finally:
        shutil.rmtree(base, ignore_errors=True)
    keep = [muts[i][:3] for i, ok in res if ok]
    json.dump({"survivors_total": len(muts), "survivors_passing_suite": keep}, open(sys.argv[2], "w"), indent=1)
    print(f"{len(muts)} survivors, {len(keep)} of them also pass the pinned suite")


if __name__ == "__main__":
    main()
