#!/bin/sh
# tools/confirm_seed.sh <worktree> <seed-id> <property>
# Confirms a seeded change in its scratch worktree: demo passes without the patch,
# fails with it, the pinned suite passes with it. Then stores it under /verif/seeded/<seed-id>/.
set -u
WT=$1; ID=$2; PROP=$3
cd "$WT" || exit 2
git checkout -q -- apischema 2>/dev/null
[ -s patch.diff ] && [ -f demo.py ] || { echo "missing patch.diff/demo.py"; exit 2; }
git checkout -q -- apischema
/venv/bin/python demo.py >/dev/null 2>&1; BEFORE=$?
git apply patch.diff || { echo "patch does not apply"; exit 2; }
/venv/bin/python demo.py >/tmp/demo_after.$$ 2>&1; AFTER=$?
SUITE=$(/venv/bin/python -m pytest -q -p no:cacheprovider --timeout=900 2>&1 | tail -1)
echo "demo before=$BEFORE after=$AFTER suite: $SUITE"
if [ "$BEFORE" = 0 ] && [ "$AFTER" != 0 ] && echo "$SUITE" | grep -q "283 passed" && ! echo "$SUITE" | grep -Eq "[0-9]+ (failed|error)"; then
  D=/verif/seeded/$ID; mkdir -p "$D"
  cp patch.diff demo.py "$D"/
  tail -3 /tmp/demo_after.$$ > "$D"/demo_failure.txt
  echo CONFIRMED
else
  echo NOT-CONFIRMED
fi
rm -f /tmp/demo_after.$$
