#!/usr/bin/env python3
"""Regenerates sa/local_names.json (reference names of local variables, keyed by their defining site) from /repo.
Run it after a fix: commit changed /repo (the rules are written against the names of the pinned tree)."""
import json, os, sys
sys.path.insert(0, os.path.dirname(os.path.dirname(os.path.abspath(__file__))))
from sa.canon import reference_table, shape_table
t = reference_table(sys.argv[1] if len(sys.argv) > 1 else "/repo")
json.dump(t, open(os.path.join(os.path.dirname(os.path.dirname(os.path.abspath(__file__))), "sa", "local_names.json"), "w"), indent=0, sort_keys=True)
print(sum(len(m) for m in t.values()), "functions with locals,", sum(len(s) for m in t.values() for s in m.values()), "binding sites")
sh = shape_table(sys.argv[1] if len(sys.argv) > 1 else "/repo")
json.dump(sh, open(os.path.join(os.path.dirname(os.path.dirname(os.path.abspath(__file__))), "sa", "ref_shapes.json"), "w"), indent=0, sort_keys=True)
print(sum(len(m["functions"]) for k, m in sh.items() if k != "<global>"), "function shapes,", sum(len(f) for k, m in sh.items() if k != "<global>" for f in m["functions"].values()), "statement fingerprints;", len(sh["<global>"]["pure_ctors"]), "pure constructors")
