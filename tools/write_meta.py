#!/usr/bin/env python3
"""tools/write_meta.py <seed-id> <first-run line of run_seeds.sh> <change> <needs> [<current line>]: writes seeded/<id>/meta.json."""
import json, re, sys
sid, first, change, needs = sys.argv[1:5]
cur = sys.argv[5] if len(sys.argv) > 5 else first
prop = sid.split("-")[0]
def parse(line):
    det = re.findall(r"(C\d\d)\((\d+)\)", line)
    err = re.findall(r"(C\d\d)\(ANALYSIS-ERROR\)", line)
    return [c for c, _ in det], err
d1, e1 = parse(first)
d2, e2 = parse(cur)
rnd = sid.split("-")[1]
origin = {"e": "independent sub-agent (round e: free choice of mechanism, asked to avoid the obvious place; launched after rounds a-d and DESIGN 8.10), given only the property text and a scratch worktree of /repo",
          "f": "independent sub-agent (round f: the change had to be located in one of the ~20 foundation files no earlier seed had touched - utils.py, typing.py, visitor.py, objects/visitor.py, conversions/conversions.py, validation/mock.py, ...; launched after rounds a-e and DESIGN 8.11), given only the property text, that list of files and a scratch worktree of /repo; first run = the checks as committed at 47bbf76, before any of them was strengthened"}[rnd]
meta = {"seed": sid, "property": prop, "origin": origin, "change": change, "needs_to_manifest": needs,
        "confirmed": {"how": "tools/confirm_seed.sh in the scratch worktree: demo.py exit 0 without the patch, non-zero with it; pinned suite with the patch", "suite": "283 passed, 1 xfailed", "demo_before": 0, "demo_after": 1},
        "detected_on_first_run": d1, "analysis_error_on_first_run": e1, "detected_by": sorted(set(d2) | set(e2)),
        "detected_by_own_property_check": prop in d2 or prop in e2, "ran": "tools/run_seeds.sh"}
json.dump(meta, open(f"/verif/seeded/{sid}/meta.json", "w"), indent=1)
print(sid, "first:", d1, e1, "now:", meta["detected_by"])
