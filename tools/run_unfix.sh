#!/bin/sh
# tools/run_unfix.sh: for every "fix:" commit of /repo, revert it in a scratch copy of the current sources and run the
# checks of the properties it is recorded under in known_findings.json (fixed:). Each must report a VIOLATION again.
cd /verif || exit 2
for h in $(git -C /repo log --format='%h %s' | grep ' fix:' | cut -d' ' -f1); do
  PROPS=$(/venv/bin/python -c "import json;print(' '.join(sorted({f['property'] for f in json.load(open('known_findings.json'))['fixed'] if f['commit']=='$h'})))")
  T=$(mktemp -d /var/tmp/unfix.XXXXXX)
  cp -r /repo/apischema "$T"/ && cp -r /repo/docs "$T"/
  if ! git -C /repo show $h -- apischema | (cd "$T" && patch -R -p1 -s >/dev/null 2>&1); then echo "$h: reverse patch failed (later commit touches the same lines)"; rm -rf "$T"; continue; fi
  R=""
  for c in $PROPS; do
    ./check $c --root "$T" --no-write >/dev/null 2>&1; RC=$?
    R="$R $c=$RC"
  done
  echo "$h [$(git -C /repo log -1 --format=%s $h | cut -c6-70)]:$R"
  rm -rf "$T"
done
