#!/usr/bin/env python3
"""tools/canon_residual.py <root>: for every function of the tree that differs from the reference spelling, the distance
(statement fingerprints) before and after the canonicalisation. Development aid for sa/canon_rw.py."""
import ast, os, sys, copy
sys.path.insert(0, os.path.dirname(os.path.dirname(os.path.abspath(__file__))))
from sa import canon, canon_rw as rw
root = sys.argv[1]
verbose = "-v" in sys.argv
tot_b = tot_a = 0
for rel, sh in sorted(rw.shapes().items()):
    if rel == '<global>':
        continue
    p = os.path.join(root, rel)
    if not os.path.exists(p):
        continue
    t0 = ast.parse(open(p).read())
    canon._Shape().visit(t0)
    before = {q: rw.distance(fn, sh["functions"][q]) for q, fn in canon._functions(t0) if q in sh["functions"]}
    unknown = [q for q, fn in canon._functions(t0) if q not in sh["functions"]]
    t1 = ast.parse(open(p).read())
    canon.canonicalise(t1, rel)
    after = {q: rw.distance(fn, sh["functions"][q]) for q, fn in canon._functions(t1) if q in sh["functions"]}
    for q in sorted(set(before) | set(after)):
        b, a = before.get(q, "-"), after.get(q, "-")
        if b or a:
            print(f"{rel}:{q}: {b} -> {a}")
            tot_b += b if isinstance(b, int) else 0
            tot_a += a if isinstance(a, int) else 0
            if verbose and a:
                fn = dict(canon._functions(t1))[q]
                from collections import Counter
                x, y = Counter(rw.fingerprints(fn)), Counter(sh["functions"][q])
                for k in (x - y): print("      + ", k[:200])
                for k in (y - x): print("      - ", k[:200])
    for q in unknown:
        print(f"{rel}:{q}: unknown function")
print("total", tot_b, "->", tot_a)
