#!/bin/sh
# tools/run_seeds.sh [seed-id ...]: apply each seeded patch to a scratch copy of /repo's sources and run every registered check on it.
cd /verif || exit 2
SEEDS=${*:-$(ls seeded)}
CHECKS=$(ls sa/rules | sed -n 's/^c\([0-9]*\)\.py$/C\1/p')
for s in $SEEDS; do
  if grep -q '"retired": true' seeded/$s/meta.json 2>/dev/null; then echo "$s: retired (see meta.json)"; continue; fi
  T=$(mktemp -d /var/tmp/seedrun.XXXXXX)
  cp -r /repo/apischema "$T"/ && cp -r /repo/docs "$T"/
  if ! (cd "$T" && patch -p1 -s < /verif/seeded/$s/patch.diff); then echo "$s: PATCH FAILED"; rm -rf "$T"; continue; fi
  HITS=""
  for c in $CHECKS; do
    OUT=$(./check $c --root "$T" --no-write 2>/dev/null); RC=$?
    if [ $RC = 1 ]; then HITS="$HITS $c($(echo "$OUT" | grep -c '^VIOLATION'))"; fi
    if [ $RC = 2 ]; then HITS="$HITS $c(ANALYSIS-ERROR)"; fi
  done
  echo "$s: ${HITS:- not detected}"
  rm -rf "$T"
done
