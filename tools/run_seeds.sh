#!/bin/sh
# tools/run_seeds.sh [seed-id ...]: apply each seeded patch to a scratch copy of /repo's sources and run every registered check on it.
# Seeds are processed 8 at a time (JOBS=n to change).
cd /verif || exit 2
SEEDS=${*:-$(ls seeded)}
export CHECKS="$(ls sa/rules | sed -n 's/^c\([0-9]*\)\.py$/C\1/p' | tr '\n' ' ')"
one() {
  s=$1
  if grep -q '"retired": true' seeded/$s/meta.json 2>/dev/null; then echo "$s: retired (see meta.json)"; return; fi
  T=$(mktemp -d /var/tmp/seedrun.XXXXXX)
  cp -r /repo/apischema "$T"/ && cp -r /repo/docs "$T"/
  if ! (cd "$T" && patch -p1 -s < /verif/seeded/$s/patch.diff >/dev/null 2>&1); then echo "$s: PATCH FAILED"; rm -rf "$T"; return; fi
  HITS=""
  for c in $CHECKS; do
    OUT=$(./check $c --root "$T" --no-write 2>/dev/null); RC=$?
    if [ $RC = 1 ]; then HITS="$HITS $c($(echo "$OUT" | grep -c '^VIOLATION'))"; fi
    if [ $RC = 2 ]; then HITS="$HITS $c(ANALYSIS-ERROR)"; fi
  done
  echo "$s: ${HITS:- not detected}"
  rm -rf "$T"
}
if [ "$1" = "--one" ]; then one "$2"; exit 0; fi
echo $SEEDS | tr ' ' '\n' | grep -v '^$' | xargs -P ${JOBS:-8} -I{} sh "$0" --one {} | sort
