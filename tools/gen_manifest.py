#!/usr/bin/env python3
"""Regenerates /verif/MANIFEST.json from the per-property texts below and the
rule modules that exist under sa/rules/."""
import json
import os

VERIF = os.path.dirname(os.path.dirname(os.path.abspath(__file__)))

BASELINE = "cd /repo && /venv/bin/python -m pytest -ra -q -p no:cacheprovider --timeout=900 --continue-on-collection-errors"

COMMON_NOTE = (
    "Trusted base: CPython's ast grammar; the hand-built repo model (sa/model.py: imports, C3 MRO, class-hierarchy "
    "callee resolution with rapid-type refinement for visitors) - unresolved callees are treated conservatively per rule; "
    "closed world (no subclass of the node / visitor interfaces outside /repo/apischema). Nothing of apischema is imported "
    "or executed by the check; no solver; the thorough tier additionally runs the checker self-test (ast-located mutants of "
    "the current sources must be detected, behaviour-preserving variants must stay silent; a failing self-test exits 2)."
)

P = {
    "C01": dict(
        technique="ast static analysis: visitor hook totality (MRO), guard-refinement dataflow computing each leaf node's accept-set, constraint table/operator agreement, counter-discipline rule for the unexpected-key shortcut, child-invocation totality, truth tables of the reach conditions of the object-node event sites (path conditions evaluated over atoms read off the source)",
        text="Decides structural necessary conditions of C01, not acceptance<=>conformance for every type and datum: the compiler is total over the supported grammar, each leaf node accepts exactly the Python classes the data model documents (bool excluded from numbers, int allowed for float), the three constraint tables agree and each constraint applies the JSON-Schema operator of its keyword, and the `len(data) != fields_count` shortcut that skips the unexpected-property scan counts exactly the declared keys present in the datum; every child method a node holds is applied to the matching part of the datum; object nodes apply the child, record MISSING / UNEXPECTED, copy TypedDict extras and attribute keys to flattened / pattern / additional fields under exactly the documented conditions.",
    ),
    "C02": dict(
        technique="ast static analysis: accumulator typestate on the per-function CFG (result bound, pending => no normal exit), handler escape of child errors, key discipline, set-order determinism, truth tables of the error-retention conditions, contract of the accumulation helpers, loop discipline of validate_constraints, natural order of the flattened errors",
        text="Decides that no node method can lose a child error or return / construct with one pending, that error keys are the loop's own key / index or the field alias, and that message order does not depend on set iteration; not that the reported set equals the set of violated rules for every datum.",
    ),
    "C03": dict(
        technique="ast static analysis: exception-escape analysis with an input-taint / isinstance-refinement lattice and a hazard table, handler precision, input-mutation (ownership) rule, guarded lookups of dependent_required names in per-operation field tables",
        text="Decides that no exception other than ValidationError can escape a node method, coerce, bad_type, the constraint checks or ValidationError.errors because of what the input is (input modelled as an arbitrary object graph), and that the input is never mutated through an alias. Not decided: recursion depth, user callables.",
    ),
    "C04": dict(
        technique="ast static analysis: hook totality; propositional table (<=2^11 valuations of atoms read off the source) relating omission causes, ComplexField flags and the strategy selection; key discipline of update_result; child-invocation totality; truth table of the container pass-through predicates; exit discipline of visitor methods",
        text="Decides compiler totality on the serialization side and soundness/completeness of the field-strategy selection: every value-based omission cause the documentation prescribes has its ComplexField flag set, and a field that can be omitted is compiled to the omitting strategy; serialize(v) == serialize(type(v), v) wiring. Not the equality of outputs with the documented image.",
    ),
    "C05": dict(
        technique="ast static analysis: table extraction of std conversion registrations (inverse pairing), mirror comparison of the direction-specific visitor hooks",
        text="Decides only that the two directions are built as mirrors (inverse pairing of the standard conversions, READ_ONLY/WRITE_ONLY and deserialization/serialization mirror maps, same field list and external-key expression). Round-trip equality of values is not decided.",
    ),
    "C06": dict(
        technique="ast static analysis: sibling-visitor parity (hook sets, rejections), keyword-level table agreement between method nodes and schema builder, guards of the union-folding shortcuts, value-independence of the json_schema() keyword filter",
        text="Decides keyword-level agreement between DeserializationMethodVisitor and DeserializationSchemaBuilder per type construct (primitive rows, constraint keywords from one table, tuple arity, object required / additionalProperties / dependentRequired sources). Not whole-schema agreement (allOf, $ref, anyOf).",
    ),
    "C07": dict(
        technique="ast static analysis: propositional table - (effective omission flag) => not required, over atoms shared by serializer and schema builder; shared-predicate call shape",
        text="Decides that `required` in the serialization schema is never stronger than what the serializer always emits, per field strategy (ComplexField, SerializedField, TypedDict presence), and that both sides call the shared predicate with the same arguments. Not validity of emitted values.",
    ),
    "C08": dict(
        technique="ast static analysis: return-transparency of check-only nodes (def-use), guard dominance of discarding variants, sibling read-set coverage with functional-determination check over predicate valuations, forwarding-wrapper keyword agreement",
        text="Decides that each optimised variant is selected only under a predicate that covers everything the variant skips, that check-only nodes return their input, that deserialize/serialize forward every keyword to the precomputed-method functions, and that no node mutates its input. Not result equality for every datum.",
    ),
    "C09": dict(
        technique="ast static analysis: effect analysis over the resolved call graph (every writer of cached-read configuration must reach cache.reset() on all CFG paths); lru_cache ownership classification",
        text="Decides, for all histories at once (the argument is per writer): every mutation point of configuration state that code under a registered cache can read - CacheAwareDict primitives, in-place mutations around the wrapper, unwrapped module-level registries, settings namespaces - reaches cache.reset(); every lru_cache is registered, owned by a registered cache or a named exception; reset() clears exactly what cache() registers. Strongest claim of this framework.",
    ),
    "C10": dict(
        technique="ast static analysis: recursion-variant rule on self-recursive functions, construct-after-check typestate, merge protocol and discard-accumulation monotonicity in validate()",
        text="Decides termination of validate's own recursion (structurally smaller argument), construction only after the error check, merge-never-replace of errors, that every runnable validator executes, and that the set of discarded fields only grows. Not the run/skip iff (runtime dependency sets) nor the AST dependency finder.",
    ),
    "C11": dict(
        technique="ast static analysis: alias-flow taint lattice (NAME / ALIAS / ALIASED) into every external-key sink; aliaser threading through calls",
        text="Decides that every site that produces or consumes an external key derives it from the field's alias, dynamically aliased exactly once, in all five views (deserialize, serialize, both schemas, error loc, GraphQL), and that an aliaser in scope is forwarded to every callee accepting one. Not the class-aliaser override semantics.",
    ),
    "C12": dict(
        technique="ast static analysis: direction hygiene of conversion hooks, sub-conversion threading, truth-table equivalence of the locality guard, registration order, who-may-declare-a-dispatch-key rule for conversion factories",
        text="Decides direction hygiene and sibling agreement of the conversion hooks across all visitors, that the dynamic-conversion locality rule is decided in one place by a guard equivalent to `not dynamic and collection and not str`, append-only registration order. The commuting-square law over runtime values is not decided.",
    ),
    "C13": dict(
        technique="ast static analysis: dispatch key vs computed accept-set agreement, shortcut applicability guard, first-success shape of the sequential union, who-may-declare-a-dispatch-key rule, wrapping of discriminated members",
        text="Decides that the by-type dispatch table is keyed consistently with what each alternative's node accepts (or the shortcut is excluded for the mismatching alternative), and that the shortcut is selected only when applicable (one key per alternative, no coercion). Not discriminator semantics.",
    ),
    "C14": dict(
        technique="ast static analysis: dominance of the identity branch in coerce, documented-table agreement (docs vs source), coercer results re-checked (def-use)",
        text="Decides the shape of coerce and of the nodes calling a coercer: conforming data pass through unchanged, the boolean word table equals the documented one, only primitive targets convert, coercer results are re-checked (OptionalMethod: `is None`; CoercerMethod: inner method; LiteralMethod: value_map). Monotonicity over all types/data is not decided.",
    ),
    "C15": dict(
        technique="ast static analysis: structural necessary conditions of field-set tracking (serializer consults the tracked set exactly under exclude_unset; wrapper / API update shapes with locals inlined; constructor bypass unreachable for tracked classes)",
        text="Partial. Decides four structural clauses: exclude_unset reaches the field strategies only as `option and support_fields_set(cls)`, forces the omitting strategy, and a field is emitted iff its name is in the tracked set; with_fields_set wraps __new__/__init__/__setattr__ once and each wrapper updates the set as documented; set_fields/unset_fields/fields_set/replace operate on the live set; the deserializer passes only present keys to the (wrapped) constructor and cannot take the __dict__-filling bypass for a tracked class. The contents of the set after an arbitrary history of calls on user classes is a runtime quantity and is NOT decided.",
    ),
    "C16": dict(
        technique="ast static analysis: one-sorter-three-sites rule, name/ordering getter agreement, override precedence idiom table, conservation analysis of sort_by_order (one bucket per element on every path, guarded by-name buckets, no re-bucketing, drain order)",
        text="Decides only that the three views pass identically-named elements built in the same sequence through the one ordering function, that class-level overrides are looked up with subclass precedence, and that sort_by_order neither loses nor duplicates an element and has the documented shape (ascending order values, declaration order within a value, before / element / after). Equality of the permutation for every specification (and cyclic after/before specifications) is not decided.",
    ),
    "C17": dict(
        technique="ast static analysis: ref-decision parity between extractor and builder, single-writer / clash-refusal rule, shared entry path, Optional[bool] defaulting rule, declared-dialect table",
        text="Decides that the reference-counting pass and the emitting pass take their $ref decisions at the same points from the same expressions, that only _incr_ref writes the ref table and refuses clashes, that both entry points share the extraction/emission path, that tri-state options are defaulted with `is None`, and that each version declares its own $schema. Not meta-schema validity of arbitrary outputs.",
    ),
    "C18": dict(
        technique="ast static analysis: key-set abstract interpretation of the dialect converters (vocabulary closure, translate-don't-drop, null-removal => nullable), prefix / definitions agreement, $ref isolation",
        text="Decides vocabulary closure per target dialect (no instance-changing keyword outside the dialect remains, every removed keyword is translated unless declared unsupported), application at every nesting level, and agreement of reference prefix with the definitions key. Instance-set equality itself is not decided.",
    ),
    "C19": dict(
        technique="ast static analysis: alias-flow rules on graphql/, validate-then-invoke dominance and non-swallowing, nullability sibling comparison, builder totality with named rejections, by-name type cache rules (no dependence on scoped traversal state, no invented names), contradiction rule on Enum defaults, nested-visit context rule; 4 known findings",
        text="Decides three structural clauses - names (alias flow), arguments validated before the resolver runs with errors not catchable by the error handler, nullability wrapping decided identically for input fields and resolver arguments - plus builder totality. graphql-core validation and execution equality are not decided.",
    ),
    "C20": dict(
        technique="ast static analysis: shared-state write classification (lockset / idempotent-memo / check-then-act) over functions reachable from the public entry points",
        text="Decides that no write to state shared between threads on a first-use path is both unsynchronised and state-dependent: every write to a module-level container, to an object returned by a cached function or to an attribute of a shared node is under a module-level lock or is an idempotent memo. Absence of all schedule-dependent behaviour is not decided.",
    ),
}

NOT_APPLICABLE = {}

ENGINES = [
    ("E1 repo model + call graph", "sa/model.py", "ast-derived modules / classes (C3 MRO) / functions / resolved callees (CHA + RTA for visitors)"),
    ("E2 CFG + dataflow", "sa/cfg.py", "statement-level CFG with exception edges, dominators, path queries, forward dataflow driver"),
]


def main():
    ids = [json.loads(line)["id"] for line in open(os.path.join(VERIF, "properties.jsonl"))]
    checks, na = [], []
    for pid in ids:
        if pid in NOT_APPLICABLE:
            na.append({"property_id": pid, "reason": NOT_APPLICABLE[pid]})
            continue
        if not os.path.exists(os.path.join(VERIF, "sa", "rules", pid.lower() + ".py")):
            na.append({"property_id": pid, "reason": "check not built yet (build in progress); planned rules are in DESIGN.md section 3"})
            continue
        p = P[pid]
        checks.append(
            {
                "property_id": pid,
                "quick_cmd": f"./check {pid} --tier quick",
                "thorough_cmd": f"./check {pid} --tier thorough",
                "evidence_file": f"/verif/evidence/{pid}.json",
                "replay_cmd_template": "./check " + pid + " --replay {path}",
                "engine": "sa (static analysis over ast)",
                "level_claimed": {"category": "other", "text": "Static analysis (necessary structural conditions). " + p["text"], "design_ref": f"DESIGN.md section 3 / {pid}"},
                "level_note": COMMON_NOTE,
                "technique": p["technique"],
            }
        )
    manifest = {
        "version": 1,
        "setup_cmd": "true",
        "hooks": {
            "guard": "APISCHEMA_VERIF",
            "enable": "none: static analysis parses /repo's sources; no instrumentation exists and the guard is unused",
            "baseline_off_cmd": BASELINE,
            "source_commits": [],
            "add_only": True,
        },
        "engines": [
            {"name": n, "path": p, "serves_properties": [c["property_id"] for c in checks], "kind_free_text": k} for n, p, k in ENGINES
        ],
        "checks": checks,
        "notes": "All checks are pure-stdlib Python run with /venv/bin/python (fallback python3); they re-parse /repo/apischema on every run. "
        "Exit 0 = all obligations discharged (or only known findings), 1 = VIOLATION line(s), 2 = ANALYSIS-ERROR (anchor vanished / vacuous rule / checker crashed / self-test failed). "
        "known_findings.json lists recorded defects and the fix: commits made in /repo.",
        "not_applicable": na,
    }
    with open(os.path.join(VERIF, "MANIFEST.json"), "w") as f:
        json.dump(manifest, f, indent=1)
    print(f"{len(checks)} checks, {len(na)} not applicable")


if __name__ == "__main__":
    main()
