#!/usr/bin/env python3
"""Regenerates the `fixed` list of known_findings.json from /repo's "fix:" commits."""
import json, subprocess
PROP = {
"a validator reaching its fields through a private":"C10",
"schema(examples=[]) made OpenAPI 3.0":"C18",
"fields_set of an instance created through a parametrised":"C15",
"generic NamedTuple and TypedDict classes ignored":"C01",
"object_fields(deserialization=True / serialization=True) dropped":"C10",
"a str value of Union[Sequence":"C13",
"unions dispatched by JSON type refused subclasses":"C13",
"skip(...) metadata given through Annotated":"C04",
"id_encoding was not applied to ID literals":"C19",
"OpenAPI 3.0 schemas kept numeric exclusiveMinimum":"C18",
"PassThroughOptions(dataclasses=True) passed reordered":"C16",
"an additional-properties field of a discriminated member":"C13",
"type names containing":"C17",
"schema generation failed for recursion through a properties field":"C17",
"dialect converters modified the user":"C18",
"types reached through serialized methods were invisible":"C17",
"apischema.validation.validate ignored the global aliaser":"C11",
"JSON schema generation depended on the global pass-through":"C11",
"generic conversions were not specialised":"C12",
"merged multipleOf constraints were computed as a float":"C01",
"generic inheritance with reordered type variables":"C01",
"a serializer registered lazily as a bare function":"C12",
"recursion analysis results were shared between":"C09",
"serialize(float, 1, check_type=True) raised":"C08",
"serializing a discriminated union with no_copy=True":"C08",
"a sub-subclass of a discriminated parent":"C13",
"serialization schema promised dependentRequired":"C07",
"coerce=True converted booleans to float":"C14",
"validators passed per call or in metadata":"C10",
"a validator yielding index 0 as error path":"C10",
"resolver(serialized=True, order=...) ignored":"C16",
"Optional under coercion reported only":"C02",
"the group notation of dependent_required":"C03",
"invalid base64 and pathological regex":"C03",
"is_recursive raised KeyError":"C20",
"an invalid or missing aliased InitVar":"C10,C11",
"cyclic or self-referencing order":"C16",
"GraphQL object flattening an interface":"C19",
"serialization schema requires TypedDict keys":"C07",
"as_names with an aliaser cannot deserialize":"C05",
"errors of an inherited field validator ignore":"C11",
"cache.set_size disables cache invalidation":"C09",
"union of alternatives of the same JSON type":"C17",
"fields-set tracking marks fields that were not assigned":"C15",
"the error reported for a mapping item":"C08",
"GraphQL arguments declared after":"C19",
"discriminated unions are rejected under coercion":"C13",
"dependencies of validators calling mutually recursive":"C10",
"validators depending on an invalid aliased":"C10","a key named like a flattened":"C01","coercion of a Literal with values of several types":"C14",
"definitions_schema ignores the requested dialect":"C18","object_serialization drops the Annotated":"C12",
"JSON schema of a discriminated parent":"C17",
"Literal / Enum deserialization conflates":"C01","uniqueItems treats true and 1":"C01",
"sort_by_order drops an element":"C16",
"GraphQL schema generation hashes":"C19","GraphQL flattened field context leaks":"C19",
"serialization of a discriminated union of TypedDict":"C04","dependent_required ignores fields skipped":"C03","FieldsConstructor counts all":"C08","coerce() turns unhashable":"C03,C14","Optional[Literal/Enum] schema":"C06",
"FrozenSetMethod leaks":"C03","default values of GraphQL":"C11,C19","concurrent recursion":"C20","field with Undefined default":"C04,C07",
"check_type + fall_back_on_any":"C08","serialized methods omitted":"C07","prefixItems is kept":"C18","DRAFT_2019_09 declares":"C17,C18",
"Union[float":"C13","serialized discriminator key":"C11","dependentRequired of JSON":"C11","resolver argument errors":"C11,C19","GraphQL output object":"C11,C19",
"infinite recursion in validate":"C10","with_fields_set applied":"C09","serialized / resolver registration":"C09","dependent_required registration":"C09",
"validator registration":"C09","schema() registration":"C09","settings.errors and":"C09","CacheAwareDict does not":"C09","uniqueItems check":"C03",
"SetMethod leaks":"C03","pattern properties matching":"C03","ValidationError.errors crashes":"C03","bad_type crashes":"C03","coerce leaks":"C03,C14",
"order of LiteralMethod":"C02","LiteralMethod catches":"C03","FloatMethod leaks":"C03","FloatMethod accepts booleans":"C01,C06","TupleMethod drops":"C02",
"skip(serialization_default=True)":"C04","union fall_back_on_any":"C08","multipleOf check leaks":"C03","ValidationError.errors is not JSON":"C03",
}
log = subprocess.run(["git","-C","/repo","log","--format=%h\t%s"],capture_output=True,text=True).stdout.splitlines()
fixed = []
for l in reversed(log):
    h, s = l.split("\t", 1)
    if not s.startswith("fix:"): continue
    p = [v for k, v in PROP.items() if s[5:].startswith(k)]
    assert len(p) == 1, (s, p)
    for pid in p[0].split(","):
        fixed.append({"property": pid, "commit": h, "what": s[5:]})
k = json.load(open("/verif/known_findings.json"))
k["fixed"] = fixed
json.dump(k, open("/verif/known_findings.json", "w"), indent=1)
print(len(fixed), "fixed entries")
