#!/usr/bin/env python3
"""Sensitivity sweep (not a check): generic AST mutation operators applied to every
function of the anchored modules; each mutant is materialised in a scratch copy and
all property checks are run on it. Prints the mutation score per file and the list
of survivors (mutants no check reacts to), which is the work-list for strengthening
rules. Equivalent mutants cannot be told apart automatically, so nothing here is a
verdict on /repo.

usage: tools/sweep.py [--files a.py,b.py] [--limit N] [--jobs 16] [--out FILE]
"""
import argparse
import ast
import json
import os
import random
import shutil
import sys
import tempfile
from concurrent.futures import ProcessPoolExecutor

VERIF = os.path.dirname(os.path.dirname(os.path.abspath(__file__)))
sys.path.insert(0, VERIF)

from sa.model import AnalysisError, Model  # noqa: E402
from sa.selftest import _materialise  # noqa: E402
from sa.util import norm, replace_node_text  # noqa: E402

DEFAULT_FILES = [
    "apischema/deserialization/methods.py", "apischema/deserialization/__init__.py", "apischema/deserialization/coercion.py",
    "apischema/deserialization/flattened.py", "apischema/serialization/__init__.py", "apischema/serialization/methods.py",
    "apischema/serialization/serialized_methods.py", "apischema/json_schema/schema.py", "apischema/json_schema/versions.py",
    "apischema/json_schema/refs.py", "apischema/json_schema/types.py", "apischema/cache.py", "apischema/settings.py",
    "apischema/validation/validators.py", "apischema/validation/errors.py", "apischema/recursion.py", "apischema/conversions/visitor.py",
    "apischema/conversions/converters.py", "apischema/ordering.py", "apischema/fields.py", "apischema/objects/visitor.py",
    "apischema/objects/fields.py", "apischema/constraints.py", "apischema/graphql/resolvers.py", "apischema/dependencies.py",
    "apischema/aliases.py", "apischema/type_names.py", "apischema/schemas.py", "apischema/discriminators.py",
]
PROPS = [f"C{i:02d}" for i in range(1, 21)]
CMP = {ast.Eq: "!=", ast.NotEq: "==", ast.Lt: "<=", ast.LtE: "<", ast.Gt: ">=", ast.GtE: ">", ast.Is: "is not", ast.IsNot: "is", ast.In: "not in", ast.NotIn: "in"}


def mutants_of(src: str, rel: str):
    tree = ast.parse(src)
    out = []
    for fn in ast.walk(tree):
        if not isinstance(fn, (ast.FunctionDef, ast.AsyncFunctionDef)):
            continue
        for n in ast.walk(fn):
            seg = ast.get_source_segment(src, n) if hasattr(n, "lineno") else None
            if seg is None:
                continue
            if isinstance(n, ast.If):
                t = ast.get_source_segment(src, n.test)
                out.append((n.lineno, f"negate if `{norm(n.test)[:50]}`", replace_node_text(src, n.test, f"not ({t})")))
            if isinstance(n, ast.BoolOp) and len(n.values) == 2:
                a, b = (ast.get_source_segment(src, v) for v in n.values)
                op = "or" if isinstance(n.op, ast.And) else "and"
                out.append((n.lineno, f"and<->or `{norm(n)[:50]}`", replace_node_text(src, n, f"({a}) {op} ({b})")))
            if isinstance(n, ast.Compare) and len(n.ops) == 1 and type(n.ops[0]) in CMP:
                a = ast.get_source_segment(src, n.left)
                b = ast.get_source_segment(src, n.comparators[0])
                out.append((n.lineno, f"flip `{norm(n)[:50]}`", replace_node_text(src, n, f"({a}) {CMP[type(n.ops[0])]} ({b})")))
            if isinstance(n, (ast.Expr, ast.Assign, ast.AugAssign)) and not (isinstance(n, ast.Expr) and isinstance(n.value, ast.Constant)):
                if isinstance(n, ast.Assign) and isinstance(n.value, ast.Constant):
                    continue
                out.append((n.lineno, f"delete `{norm(n)[:50]}`", replace_node_text(src, n, "pass")))
            if isinstance(n, ast.Attribute) and n.attr in ("alias", "name") and isinstance(n.ctx, ast.Load):
                other = "name" if n.attr == "alias" else "alias"
                v = ast.get_source_segment(src, n.value)
                out.append((n.lineno, f".{n.attr}->.{other} `{norm(n)[:40]}`", replace_node_text(src, n, f"{v}.{other}")))
            if isinstance(n, ast.Constant) and isinstance(n.value, bool):
                out.append((n.lineno, f"{n.value}->{not n.value}", replace_node_text(src, n, str(not n.value))))
            if isinstance(n, ast.Call) and n.keywords:
                for k in n.keywords:
                    if k.arg:
                        kws = [x for x in n.keywords if x is not k]
                        new = ast.Call(func=n.func, args=n.args, keywords=kws)
                        try:
                            out.append((n.lineno, f"drop kw {k.arg} of `{norm(n.func)[:30]}`", replace_node_text(src, n, ast.unparse(new))))
                        except Exception:
                            pass
    ok = []
    seen = set()
    for line, desc, new in out:
        if new in seen or new == src:
            continue
        seen.add(new)
        try:
            ast.parse(new)
        except SyntaxError:
            continue
        ok.append((rel, line, desc, new))
    return ok


def run_one(args):
    root, base, idx, rel, line, desc, new_src, baseline = args
    tmp = os.path.join(base, f"s{idx}")
    try:
        _materialise(root, tmp, rel, new_src)
        from sa.run import run_rules

        hits = []
        try:
            shared = Model(tmp)
        except AnalysisError:
            return idx, ["model:analysis-error"]
        for p in PROPS:
            try:
                ctx = run_rules(p, "quick", tmp, quiet=True, model=shared)
                new = [f for f in ctx.findings if f.key not in baseline.get(p, ())]
                if new:
                    hits.append(f"{p}:{new[0].rule}")
                elif ctx.floor_failures():
                    hits.append(f"{p}:floor")
            except AnalysisError:
                hits.append(f"{p}:analysis-error")
            except Exception as err:  # checker crash = something noticed, but flag it
                hits.append(f"{p}:CRASH:{type(err).__name__}")
        return idx, hits
    finally:
        shutil.rmtree(tmp, ignore_errors=True)


def main():
    ap = argparse.ArgumentParser()
    ap.add_argument("--root", default="/repo")
    ap.add_argument("--files", default="")
    ap.add_argument("--limit", type=int, default=0)
    ap.add_argument("--jobs", type=int, default=16)
    ap.add_argument("--out", default="")
    ap.add_argument("--only", default="", help="JSON written by sweep_filter.py: restrict to these mutants")
    ap.add_argument("--seed", type=int, default=int(os.environ.get("VERIF_SEED", "0") or 0))
    a = ap.parse_args()
    files = [f for f in a.files.split(",") if f] or DEFAULT_FILES
    from sa.run import run_rules

    baseline = {}
    for p in PROPS:
        ctx = run_rules(p, "quick", a.root, quiet=True)
        baseline[p] = {f.key for f in ctx.findings}
    muts = []
    for rel in files:
        path = os.path.join(a.root, rel)
        if not os.path.exists(path):
            continue
        muts += mutants_of(open(path).read(), rel)
    if a.only:
        keep = {tuple(x) for x in json.load(open(a.only))["survivors_passing_suite"]}
        muts = [m for m in muts if (m[0], m[1], m[2]) in keep]
    if a.limit and len(muts) > a.limit:
        random.Random(a.seed).shuffle(muts)
        muts = muts[: a.limit]
    base = tempfile.mkdtemp(prefix="apischema-sweep-", dir=os.environ.get("TMPDIR") or "/var/tmp")
    try:
        jobs = [(a.root, base, i, rel, line, desc, new, baseline) for i, (rel, line, desc, new) in enumerate(muts)]
        with ProcessPoolExecutor(max_workers=a.jobs) as ex:
            results = list(ex.map(run_one, jobs, chunksize=4))
    finally:
        shutil.rmtree(base, ignore_errors=True)
    per_file = {}
    survivors = []
    crashes = []
    for idx, hits in results:
        rel, line, desc, _ = muts[idx]
        s = per_file.setdefault(rel, [0, 0])
        s[0] += 1
        real = [h for h in hits if ":CRASH:" not in h]
        if real:
            s[1] += 1
        else:
            survivors.append((rel, line, desc))
        crashes += [(rel, line, desc, h) for h in hits if ":CRASH:" in h]
    total = sum(v[0] for v in per_file.values())
    killed = sum(v[1] for v in per_file.values())
    print(f"sweep: {total} mutants, {killed} noticed by at least one check ({100 * killed / max(total, 1):.0f}%), {len(survivors)} survivors, {len(crashes)} checker crashes")
    for rel, (n, k) in sorted(per_file.items()):
        print(f"  {rel}: {k}/{n}")
    if a.out:
        json.dump({"total": total, "noticed": killed, "per_file": per_file, "survivors": survivors, "crashes": crashes}, open(a.out, "w"), indent=1)
    else:
        for s in survivors[:200]:
            print("  survivor", *s)
    for c in crashes[:20]:
        print("  CRASH", *c)


if __name__ == "__main__":
    main()
