#!/bin/sh
# tools/run_refactorings.sh [id ...]: apply each stored behaviour-preserving refactoring (refactorings/<id>/patch.diff, written by an
# independent sub-agent, transcript-equivalent on its own demo and passing the pinned suite) to a scratch copy of /repo's sources and run
# every check on it. Expected: no check reacts. A reaction is a false alarm of the named rule (or an honest "undecided" = exit 2).
cd /verif || exit 2
IDS=${*:-$(ls refactorings)}
export CHECKS="$(ls sa/rules | sed -n 's/^c\([0-9]*\)\.py$/C\1/p' | tr '\n' ' ')"
one() {
  s=$1
  T=$(mktemp -d /var/tmp/refrun.XXXXXX)
  cp -r /repo/apischema "$T"/ && cp -r /repo/docs "$T"/
  if ! (cd "$T" && patch -p1 -s < /verif/refactorings/$s/patch.diff >/dev/null 2>&1); then echo "$s: PATCH FAILED (the repository moved on: rebase or retire)"; rm -rf "$T"; return; fi
  HITS=""
  for c in $CHECKS; do
    OUT=$(./check $c --root "$T" --no-write 2>/dev/null); RC=$?
    if [ $RC = 1 ]; then HITS="$HITS $c[$(echo "$OUT" | grep -A1 '^VIOLATION' | grep -o '\[C[0-9]*\.R[0-9a-z]*\]' | sort -u | tr -d '[]' | tr '\n' ',')]"; fi
    if [ $RC = 2 ]; then HITS="$HITS $c(undecided)"; fi
  done
  echo "$s: ${HITS:- silent}"
  rm -rf "$T"
}
if [ "$1" = "--one" ]; then one "$2"; exit 0; fi
echo $IDS | tr ' ' '\n' | grep -v '^$' | xargs -P ${JOBS:-8} -I{} sh "$0" --one {} | sort
