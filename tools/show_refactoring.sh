#!/bin/sh
# tools/show_refactoring.sh <id> <check> : full output of one check on one stored refactoring (scratch copy kept in /var/tmp/refshow.<id>)
cd /verif || exit 2
s=$1; c=$2
T=/var/tmp/refshow.$s
rm -rf "$T"; mkdir -p "$T"
cp -r /repo/apischema "$T"/ && cp -r /repo/docs "$T"/
(cd "$T" && patch -p1 -s < /verif/refactorings/$s/patch.diff) || exit 2
./check $c --root "$T" --no-write 2>&1 | grep -v conda
