#!/bin/sh
# tools/confirm_refactoring.sh <worktree> <id>: the refactoring passes the pinned suite and its demo prints the same transcript before / after;
# then it is stored under /verif/refactorings/<id>/.
set -u
WT=$1; ID=$2
cd "$WT" || exit 2
[ -s patch.diff ] && [ -f equiv_demo.py ] || { echo "missing patch.diff / equiv_demo.py"; exit 2; }
git checkout -q -- apischema
PYTHONHASHSEED=0 /venv/bin/python equiv_demo.py > /tmp/ref_before.$$ 2>&1
git apply patch.diff || { echo "patch does not apply"; exit 2; }
PYTHONHASHSEED=0 /venv/bin/python equiv_demo.py > /tmp/ref_after.$$ 2>&1
SUITE=$(/venv/bin/python -m pytest -q -p no:cacheprovider --timeout=900 2>&1 | tail -1)
SAME=no; cmp -s /tmp/ref_before.$$ /tmp/ref_after.$$ && SAME=yes
LINES=$(grep -c '^[-+][^-+]' patch.diff)
echo "suite: $SUITE ; transcripts identical: $SAME ($(wc -l < /tmp/ref_before.$$) lines) ; changed lines: $LINES"
if [ "$SAME" = yes ] && echo "$SUITE" | grep -q "283 passed" && ! echo "$SUITE" | grep -Eq "[0-9]+ (failed|error)"; then
  D=/verif/refactorings/$ID; mkdir -p "$D"; cp patch.diff equiv_demo.py "$D"/; echo CONFIRMED
else echo NOT-CONFIRMED; fi
rm -f /tmp/ref_before.$$ /tmp/ref_after.$$
