"""E8 - visitor parity matrix: for a concrete visitor class, the MRO-resolved
implementation of every hook that its own resolved methods can dispatch to, and
its classification."""
import ast
from typing import Dict, List, Optional, Set, Tuple

from .model import AnalysisError, FuncInfo, Model
from .util import dotted, only_raises, raised_name, walk_no_nested

VISITOR = "apischema.visitor.Visitor"
ABSTRACT_HOLDERS = (
    "apischema.visitor.Visitor",
    "apischema.objects.visitor.ObjectVisitor",
    "apischema.conversions.visitor.ConversionsVisitor",
    "apischema.recursion.RecursiveConversionsVisitor",
    "apischema.json_schema.schema.SchemaBuilder",
)


def classify_impl(fi: FuncInfo) -> str:
    """'abstract' (only raises NotImplementedError), 'rejects:<Exc>' (only raises
    another exception), 'implemented'."""
    body = list(fi.node.body)
    if body and isinstance(body[0], ast.Expr) and isinstance(body[0].value, ast.Constant) and isinstance(body[0].value.value, str):
        body = body[1:]
    if len(body) == 1 and isinstance(body[0], ast.Raise) and body[0].exc is not None:
        name = raised_name(body[0]) or "?"
        if name == "NotImplementedError":
            return "abstract"
        return f"rejects:{name.split('.')[-1]}"
    return "implemented"


def abstract_hooks(model: Model) -> Dict[str, str]:
    """hook name -> class holding its abstract definition."""
    out = {}
    for cq in ABSTRACT_HOLDERS:
        if cq not in model.classes:
            continue
        for name, m in model.classes[cq].methods.items():
            if classify_impl(m) == "abstract":
                out.setdefault(name, cq)
    return out


def reachable_methods(model: Model, cls_q: str, entries=("visit", "visit_with_conv")) -> Dict[str, FuncInfo]:
    """Methods of `cls_q` (MRO-resolved, including what super() calls resolve to)
    that can run when one of `entries` is called on an instance of `cls_q`."""
    seen: Dict[Tuple[str, Optional[str]], FuncInfo] = {}
    work: List[Tuple[str, Optional[str]]] = []
    for e in entries:
        m = model.find_method(cls_q, e)
        if m is not None:
            work.append((e, None))
    out: Dict[str, FuncInfo] = {}
    while work:
        name, after = work.pop()
        if (name, after) in seen:
            continue
        m = model.find_method(cls_q, name, after=after)
        if m is None:
            continue
        seen[(name, after)] = m
        out[m.qualname] = m
        owner = m.cls.qualname if m.cls is not None else None
        for n in walk_no_nested(m.node, include_lambda=True):
            if isinstance(n, ast.Call) and isinstance(n.func, ast.Attribute):
                recv = n.func.value
                if isinstance(recv, ast.Name) and recv.id in ("self", "cls"):
                    work.append((n.func.attr, None))
                elif isinstance(recv, ast.Call) and isinstance(recv.func, ast.Name) and recv.func.id == "super" and owner:
                    work.append((n.func.attr, owner))
            elif isinstance(n, ast.Attribute) and isinstance(n.ctx, ast.Load) and isinstance(n.value, ast.Name) and n.value.id == "self":
                # method referenced as value: map(self.visit, ...)
                if model.find_method(cls_q, n.attr) is not None:
                    work.append((n.attr, None))
        # nested functions of a method run later but on the same self
        for nested in m.nested.values():
            for n in ast.walk(nested.node):
                if isinstance(n, ast.Call) and isinstance(n.func, ast.Attribute) and isinstance(n.func.value, ast.Name) and n.func.value.id == "self":
                    work.append((n.func.attr, None))
    return out


def called_hooks(model: Model, cls_q: str, entries=("visit", "visit_with_conv")) -> Dict[str, List[str]]:
    """hook name -> resolved methods of cls_q that call `self.<hook>()`."""
    hooks = abstract_hooks(model)
    reach = reachable_methods(model, cls_q, entries)
    out: Dict[str, List[str]] = {}
    for m in reach.values():
        nodes = list(walk_no_nested(m.node, include_lambda=True))
        for nested in m.nested.values():
            nodes += list(ast.walk(nested.node))
        for n in nodes:
            if isinstance(n, ast.Call) and isinstance(n.func, ast.Attribute) and n.func.attr in hooks:
                recv = n.func.value
                if isinstance(recv, ast.Name) and recv.id == "self":
                    out.setdefault(n.func.attr, []).append(m.qualname)
            elif isinstance(n, ast.Attribute) and isinstance(n.ctx, ast.Load) and n.attr in hooks and isinstance(n.value, ast.Name) and n.value.id == "self":
                out.setdefault(n.attr, []).append(m.qualname)
    return out


def totality(ctx, rule: str, cls_q: str, allowed_rejections: Dict[str, str] = None, entries=("visit", "visit_with_conv")):
    """Every hook the class can dispatch to is implemented (or a named rejection)."""
    model = ctx.model
    model.cls(cls_q)
    allowed_rejections = allowed_rejections or {}
    called = called_hooks(model, cls_q, entries)
    if len(called) < 8:
        raise AnalysisError(f"only {len(called)} hooks found reachable in {cls_q}: dispatch shape changed")
    matrix = {}
    for hook, callers in sorted(called.items()):
        impl = model.find_method(cls_q, hook)
        kind = classify_impl(impl) if impl is not None else "missing"
        matrix[hook] = (impl.qualname if impl else None, kind)
        short_cls = cls_q.split(".")[-1]
        construct = f"{short_cls}.{hook}"
        if kind == "implemented":
            ctx.ok(rule, construct, f"implemented by {impl.qualname}", where=impl.loc)
        elif kind.startswith("rejects:") and hook in allowed_rejections:
            ctx.ok(rule, construct, f"declared rejection ({kind[8:]}): {allowed_rejections[hook]}", where=impl.loc)
        else:
            ctx.fail(rule, construct, f"def {hook}(...): raise {kind}",
                     f"{short_cls} can dispatch to hook `{hook}` (called from {sorted(set(callers))[:2]}) but its MRO-resolved implementation "
                     f"{impl.qualname if impl else '-'} is {kind}: types reaching this hook crash with NotImplementedError / are unsupported",
                     impl.module.relpath if impl else "", impl.node.lineno if impl else 0)
    return matrix
