"""E8 - visitor parity matrix: for a concrete visitor class, the MRO-resolved
implementation of every hook that its own resolved methods can dispatch to, and
its classification."""
import ast
from typing import Dict, List, Optional, Set, Tuple

from .model import AnalysisError, FuncInfo, Model
from .util import norm,  dotted, only_raises, raised_name, walk_no_nested

VISITOR = "apischema.visitor.Visitor"
ABSTRACT_HOLDERS = (
    "apischema.visitor.Visitor",
    "apischema.objects.visitor.ObjectVisitor",
    "apischema.conversions.visitor.ConversionsVisitor",
    "apischema.recursion.RecursiveConversionsVisitor",
    "apischema.json_schema.schema.SchemaBuilder",
)


def classify_impl(fi: FuncInfo) -> str:
    """'abstract' (only raises NotImplementedError), 'rejects:<Exc>' (only raises
    another exception), 'implemented'."""
    body = list(fi.node.body)
    if body and isinstance(body[0], ast.Expr) and isinstance(body[0].value, ast.Constant) and isinstance(body[0].value.value, str):
        body = body[1:]
    if len(body) == 1 and isinstance(body[0], ast.Raise) and body[0].exc is not None:
        name = raised_name(body[0]) or "?"
        if name == "NotImplementedError":
            return "abstract"
        return f"rejects:{name.split('.')[-1]}"
    return "implemented"


def abstract_hooks(model: Model) -> Dict[str, str]:
    """hook name -> class holding its abstract definition."""
    out = {}
    for cq in ABSTRACT_HOLDERS:
        if cq not in model.classes:
            continue
        for name, m in model.classes[cq].methods.items():
            if classify_impl(m) == "abstract":
                out.setdefault(name, cq)
    return out


def reachable_methods(model: Model, cls_q: str, entries=("visit", "visit_with_conv")) -> Dict[str, FuncInfo]:
    """Methods of `cls_q` (MRO-resolved, including what super() calls resolve to)
    that can run when one of `entries` is called on an instance of `cls_q`."""
    seen: Dict[Tuple[str, Optional[str]], FuncInfo] = {}
    work: List[Tuple[str, Optional[str]]] = []
    for e in entries:
        m = model.find_method(cls_q, e)
        if m is not None:
            work.append((e, None))
    out: Dict[str, FuncInfo] = {}
    while work:
        name, after = work.pop()
        if (name, after) in seen:
            continue
        m = model.find_method(cls_q, name, after=after)
        if m is None:
            continue
        seen[(name, after)] = m
        out[m.qualname] = m
        owner = m.cls.qualname if m.cls is not None else None
        for n in walk_no_nested(m.node, include_lambda=True):
            if isinstance(n, ast.Call) and isinstance(n.func, ast.Attribute):
                recv = n.func.value
                if isinstance(recv, ast.Name) and recv.id in ("self", "cls"):
                    work.append((n.func.attr, None))
                elif isinstance(recv, ast.Call) and isinstance(recv.func, ast.Name) and recv.func.id == "super" and owner:
                    work.append((n.func.attr, owner))
            elif isinstance(n, ast.Attribute) and isinstance(n.ctx, ast.Load) and isinstance(n.value, ast.Name) and n.value.id == "self":
                # method referenced as value: map(self.visit, ...)
                if model.find_method(cls_q, n.attr) is not None:
                    work.append((n.attr, None))
        # nested functions of a method run later but on the same self
        for nested in m.nested.values():
            for n in ast.walk(nested.node):
                if isinstance(n, ast.Call) and isinstance(n.func, ast.Attribute) and isinstance(n.func.value, ast.Name) and n.func.value.id == "self":
                    work.append((n.func.attr, None))
    return out


def called_hooks(model: Model, cls_q: str, entries=("visit", "visit_with_conv")) -> Dict[str, List[str]]:
    """hook name -> resolved methods of cls_q that call `self.<hook>()`."""
    hooks = abstract_hooks(model)
    reach = reachable_methods(model, cls_q, entries)
    out: Dict[str, List[str]] = {}
    for m in reach.values():
        nodes = list(walk_no_nested(m.node, include_lambda=True))
        for nested in m.nested.values():
            nodes += list(ast.walk(nested.node))
        for n in nodes:
            if isinstance(n, ast.Call) and isinstance(n.func, ast.Attribute) and n.func.attr in hooks:
                recv = n.func.value
                if isinstance(recv, ast.Name) and recv.id == "self":
                    out.setdefault(n.func.attr, []).append(m.qualname)
            elif isinstance(n, ast.Attribute) and isinstance(n.ctx, ast.Load) and n.attr in hooks and isinstance(n.value, ast.Name) and n.value.id == "self":
                out.setdefault(n.attr, []).append(m.qualname)
    return out


def _always_exits(stmts) -> bool:
    if not stmts:
        return False
    last = stmts[-1]
    if isinstance(last, (ast.Return, ast.Raise)):
        return True
    if isinstance(last, ast.If):
        return bool(last.orelse) and _always_exits(last.body) and _always_exits(last.orelse)
    if isinstance(last, (ast.With, ast.AsyncWith)):
        # `with suppress(...)` may swallow the exception raised before the return
        swallowing = any("suppress" in norm(i.context_expr) for i in last.items)
        return not swallowing and _always_exits(last.body)
    if isinstance(last, ast.Try):
        if last.finalbody and _always_exits(last.finalbody):
            return True
        main = _always_exits(last.orelse) if last.orelse else _always_exits(last.body)
        return main and all(_always_exits(h.body) for h in last.handlers)
    if isinstance(last, (ast.For, ast.AsyncFor, ast.While)) and last.orelse:
        # loop ... else: the else block runs unless the loop is left by `break`
        has_break = any(isinstance(b, ast.Break) for st in last.body for b in ast.walk(st) if not isinstance(st, (ast.FunctionDef, ast.ClassDef)))
        if not has_break:
            return _always_exits(last.orelse)
    if isinstance(last, ast.While) and isinstance(last.test, ast.Constant) and last.test.value is True:
        return not any(isinstance(b, ast.Break) for b in ast.walk(last))
    if hasattr(ast, "Match") and isinstance(last, ast.Match):
        return all(_always_exits(c.body) for c in last.cases) and any(isinstance(c.pattern, ast.MatchAs) and c.pattern.pattern is None for c in last.cases)
    return False


def falls_off(fn):
    """last statement of a path that leaves a value-returning function without return / raise, or None"""
    from .util import walk_no_nested
    valued = any(isinstance(r, ast.Return) and r.value is not None and not (isinstance(r.value, ast.Constant) and r.value.value is None) for r in walk_no_nested(fn))
    is_gen = any(isinstance(y, (ast.Yield, ast.YieldFrom)) for y in walk_no_nested(fn))
    # a bare `return` marks a procedure (its `return f(...)` are tail calls of procedures)
    bare = any(isinstance(r, ast.Return) and (r.value is None or (isinstance(r.value, ast.Constant) and r.value.value is None)) for r in walk_no_nested(fn))
    if not valued or is_gen or bare:
        return None
    body = list(fn.body)
    if _always_exits(body):
        return None
    return body[-1]


def totality(ctx, rule: str, cls_q: str, allowed_rejections: Dict[str, str] = None, entries=("visit", "visit_with_conv")):
    """Every hook the class can dispatch to is implemented (or a named rejection)."""
    model = ctx.model
    model.cls(cls_q)
    allowed_rejections = allowed_rejections or {}
    called = called_hooks(model, cls_q, entries)
    if len(called) < 8:
        raise AnalysisError(f"only {len(called)} hooks found reachable in {cls_q}: dispatch shape changed")
    matrix = {}
    for hook, callers in sorted(called.items()):
        impl = model.find_method(cls_q, hook)
        kind = classify_impl(impl) if impl is not None else "missing"
        matrix[hook] = (impl.qualname if impl else None, kind)
        short_cls = cls_q.split(".")[-1]
        construct = f"{short_cls}.{hook}"
        if kind == "implemented":
            hole = falls_off(impl.node)
            if hole is not None:
                ctx.fail(rule, construct + ":returns", hole,
                         f"{impl.qualname} returns a value on some paths but can also fall off its end after `{norm(hole)[:60]}` (implicit None): the type is compiled to None and fails later with AttributeError",
                         impl.module.relpath, getattr(hole, "lineno", impl.node.lineno))
            else:
                ctx.ok(rule, construct, f"implemented by {impl.qualname}", where=impl.loc)
        elif kind.startswith("rejects:") and hook in allowed_rejections:
            ctx.ok(rule, construct, f"declared rejection ({kind[8:]}): {allowed_rejections[hook]}", where=impl.loc)
        else:
            ctx.fail(rule, construct, f"def {hook}(...): raise {kind}",
                     f"{short_cls} can dispatch to hook `{hook}` (called from {sorted(set(callers))[:2]}) but its MRO-resolved implementation "
                     f"{impl.qualname if impl else '-'} is {kind}: types reaching this hook crash with NotImplementedError / are unsupported",
                     impl.module.relpath if impl else "", impl.node.lineno if impl else 0)
    # helper methods of the visitor (discriminate, _visited_union, ...) are held to the same exit discipline
    seen = {q for q, _ in matrix.values() if q}
    for c in model.mro(cls_q):
        for name, fi in model.classes[c].methods.items():
            if fi.qualname in seen or model.find_method(cls_q, name) is not fi:
                continue
            seen.add(fi.qualname)
            hole = falls_off(fi.node)
            if hole is not None:
                ctx.fail(rule, f"{cls_q.split('.')[-1]}.{name}:returns", hole,
                         f"{fi.qualname} returns a value on some paths but can also fall off its end after `{norm(hole)[:60]}` (implicit None)",
                         fi.module.relpath, getattr(hole, "lineno", fi.node.lineno))
    return matrix
