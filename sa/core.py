"""Run context: obligations, findings, known-findings matching, evidence, exit codes."""
import json
import os
import time
from typing import Any, Dict, List, Optional

from .model import AnalysisError, Model
from .util import norm, short

VERIF = os.path.dirname(os.path.dirname(os.path.abspath(__file__)))
KNOWN_FILE = os.path.join(VERIF, "known_findings.json")
EVIDENCE_DIR = os.path.join(VERIF, "evidence")

TRUSTED_BASE = [
    "CPython ast grammar and ast.parse / ast.unparse (3.12)",
    "closed world: no subclass of the node / visitor interfaces outside /repo/apischema",
    "hand-built class-hierarchy callee resolution (sa/model.py); unresolved callees are treated conservatively per rule",
]


class Finding:
    def __init__(self, prop, rule, construct, stmt, message, file, line, path=None):
        self.prop = prop
        self.rule = rule
        self.construct = construct
        self.stmt = norm(stmt) if stmt is not None else ""
        self.message = message
        self.file = file
        self.line = line
        self.path = path or []

    @property
    def key(self) -> str:
        return f"{self.rule}|{self.construct}|{self.stmt}"

    def to_json(self) -> dict:
        return {
            "property": self.prop,
            "rule": self.rule,
            "construct": self.construct,
            "statement": self.stmt,
            "message": self.message,
            "location": f"{self.file}:{self.line}",
            "path": self.path,
            "key": self.key,
        }


def load_known() -> dict:
    if not os.path.exists(KNOWN_FILE):
        return {"findings": [], "fixed": []}
    with open(KNOWN_FILE) as f:
        return json.load(f)


class Ctx:
    def __init__(self, prop: str, tier: str, root: str, model: Optional[Model] = None, quiet: bool = False):
        self.prop = prop
        self.tier = tier
        self.root = root
        self.quiet = quiet
        self.t0 = time.time()
        self.model = model if model is not None else Model(root)
        self.findings: List[Finding] = []
        self.obligations = 0
        self.discharged = 0
        self.nontrivial: set = set()
        self.samples: List[Any] = []
        self.rules: Dict[str, Dict[str, Any]] = {}
        self.notes: List[str] = []
        self.explanations: List[str] = []
        self.extra: Dict[str, Any] = {}
        self.selftest: Optional[dict] = None

    # ----------------------------------------------------------------- rules
    def rule(self, rule: str, text: str, floor: int = 1):
        r = self.rules.setdefault(rule, {"text": text, "instances": 0, "failed": 0, "floor": floor})
        r["text"] = text
        r["floor"] = floor
        return r

    def _r(self, rule):
        return self.rules.setdefault(rule, {"text": "", "instances": 0, "failed": 0, "floor": 1})

    def ok(self, rule: str, construct: str, detail: str = "", nontrivial: bool = True, where: str = ""):
        self.obligations += 1
        self.discharged += 1
        self._r(rule)["instances"] += 1
        if nontrivial:
            self.nontrivial.add((rule, construct))
        if len([s for s in self.samples if s.get("rule") == rule]) < 3:
            self.samples.append({"rule": rule, "construct": construct, "where": where, "verdict": "holds", "detail": detail[:300]})

    def fail(self, rule: str, construct: str, stmt, message: str, file: str = "", line: int = 0, path=None, nontrivial: bool = True):
        self.obligations += 1
        r = self._r(rule)
        r["instances"] += 1
        r["failed"] += 1
        if nontrivial:
            self.nontrivial.add((rule, construct))
        f = Finding(self.prop, rule, construct, stmt, message, file, line, path)
        # the same key reported twice (e.g. via two callers) is one finding
        if all(g.key != f.key for g in self.findings):
            self.findings.append(f)
        self.samples.append({"rule": rule, "construct": construct, "where": f"{file}:{line}", "verdict": "FAILS", "detail": message[:300]})

    def check(self, cond: bool, rule, construct, stmt, message, fi=None, node=None, detail="", nontrivial=True, path=None):
        file, line = "", 0
        if fi is not None:
            file = fi.module.relpath
            line = getattr(node, "lineno", None) or getattr(getattr(fi, "node", None), "lineno", 0)
        if cond:
            self.ok(rule, construct, detail or message, nontrivial, f"{file}:{line}")
        else:
            self.fail(rule, construct, stmt, message, file, line, path, nontrivial)
        return cond

    def note(self, text: str):
        self.notes.append(text)

    def require(self, cond, what: str):
        if not cond:
            raise AnalysisError(what)

    # ---------------------------------------------------------------- finish
    def undecided(self, rule: str, what: str):
        """a rule instance the analysis cannot decide: the run ends as ANALYSIS-ERROR (exit 2)
        unless another rule reports a violation, which is then the verdict."""
        self.__dict__.setdefault("_undecided", []).append(f"{rule}: undecided - {what}")

    def floor_failures(self) -> List[str]:
        return list(self.__dict__.get("_undecided", [])) + [
            f"rule {name} matched {r['instances']} instance(s), fewer than the floor {r['floor']} "
            f"confirmed by hand: the rule has gone vacuous (anchor renamed / idiom changed?)"
            for name, r in self.rules.items()
            if r["instances"] < r["floor"]
        ]

    def floors(self):
        ff = self.floor_failures()
        if ff:
            raise AnalysisError("; ".join(ff))

    def evidence(self, violations: int, known: List[dict]) -> dict:
        m = self.model
        cov = {
            "explanation": " ".join(self.explanations)
            or "static rules over the parsed source of /repo/apischema; see rules",
            "obligations": self.obligations,
            "discharged": self.discharged,
            "evaluations": max(self.obligations, 1),
            "distinct_nontrivial": len(self.nontrivial),
            "rule": "one evaluation = one rule instance (construct x rule) examined on the parsed tree; "
            "distinct_nontrivial = distinct (rule, construct) pairs whose verdict needed a path / dataflow / table argument",
            "samples": self.samples[:40] or [{"note": "no instance"}],
            "checker_cmd": f"./check {self.prop} --tier {self.tier}",
            "trusted_base": TRUSTED_BASE + self.extra.get("trusted_base", []),
            "rules": {k: {kk: vv for kk, vv in v.items()} for k, v in self.rules.items()},
            "analysed": {
                "root": self.root,
                "modules": len(m.modules),
                "classes": len(m.classes),
                "functions": len(m.functions),
                "tree_digest": m.files_digest(),
            },
            "known_findings_matched": known,
            "notes": self.notes,
            "exhaustive": True,
        }
        for k, v in self.extra.items():
            if k != "trusted_base":
                cov[k] = v
        if self.selftest is not None:
            cov["selftest"] = self.selftest
        return {
            "property_id": self.prop,
            "tier": self.tier,
            "seed": int(os.environ.get("VERIF_SEED", "0") or 0),
            "level": "other",
            "coverage": cov,
            "assumptions": TRUSTED_BASE + self.extra.get("trusted_base", []),
            "wall_s": round(time.time() - self.t0, 3),
            "violations": violations,
        }

    def finish(self, write: bool = True) -> int:
        known = load_known()
        known_keys = {k["key"]: k for k in known.get("findings", []) if k.get("property") == self.prop}
        new, matched = [], []
        for f in self.findings:
            if f.key in known_keys:
                matched.append(f)
            else:
                new.append(f)
        out = []
        for f in matched:
            out.append(f"KNOWN-FINDING: property={self.prop} {f.rule} {f.construct} - {known_keys[f.key].get('what', f.message)}")
        replay_dir = os.path.join(EVIDENCE_DIR, "replay")
        for i, f in enumerate(new):
            path = os.path.join(replay_dir, f"{self.prop}-{i}.json")
            if write:
                os.makedirs(replay_dir, exist_ok=True)
                with open(path, "w") as fh:
                    json.dump({**f.to_json(), "root_digest": self.model.files_digest()}, fh, indent=1)
            out.append(f"VIOLATION property={self.prop} replay={path}")
            out.append(f"  {f.file}:{f.line}: [{f.rule}] {f.construct}: {f.message}")
            if f.stmt:
                out.append(f"      statement: {short(f.stmt, 200)}")
            for p in f.path[:12]:
                out.append(f"      path: {p}")
        if not new:
            # a vacuous rule makes the run unusable - unless a violation was found
            # anyway, which is then the more useful thing to report
            self.floors()
        else:
            for ff in self.floor_failures():
                out.append(f"  (also) {ff}")
        if not self.quiet:
            for name, r in sorted(self.rules.items()):
                print(f"[{self.prop}] {name}: {r['instances']} instance(s), {r['failed']} failing (floor {r['floor']}) - {r['text']}")
            for n in self.notes:
                print(f"[{self.prop}] note: {n}")
            for line in out:
                print(line)
            print(
                f"[{self.prop}] {self.obligations} obligations, {self.discharged} discharged, "
                f"{len(matched)} known finding(s), {len(new)} violation(s); "
                f"{len(self.model.modules)} modules / {len(self.model.functions)} functions analysed in {time.time()-self.t0:.2f}s"
            )
        if write:
            os.makedirs(EVIDENCE_DIR, exist_ok=True)
            ev = self.evidence(len(new), [f.to_json() for f in matched])
            with open(os.path.join(EVIDENCE_DIR, f"{self.prop}.json"), "w") as fh:
                json.dump(ev, fh, indent=1, default=str)
        return 1 if new else 0
