"""E7 - alias-flow: a small taint lattice over string-valued expressions that end
up as external keys.

kinds
  NAME     Python-side name        (`f.name`, `func.__name__`, `get_field_name(...)`)
  ALIAS    static alias            (`f.alias`, `serialized.alias`, `discriminator.alias`,
                                    `getattr(get_alias(owner), ...)`, `x.alias or y.__name__`)
  ALIASED  dynamic aliaser applied exactly once (`self.aliaser(ALIAS)`, `aliaser(ALIAS)`)
           or pending through `AliasedStr(ALIAS)` (applied by serialize(JsonSchema) /
           apply_aliaser - both application points are re-checked by C11)
  NONE     the constant None (aggregate fields have no key)
  OTHER    anything else / unknown
  BAD:<why> a mis-application (aliaser(NAME), aliaser(ALIASED), AliasedStr(NAME) ...)

Collections (sets / lists / tuples / dict values) carry the kind of their elements.
"""
import ast
from typing import Dict, List, Optional, Set, Tuple

from .model import FuncInfo, Model
from .util import dotted, norm, walk_no_nested

NAME, ALIAS, ALIASED, NONE, OTHER = "NAME", "ALIAS", "ALIASED", "NONE", "OTHER"

# functions of the package whose result kind is known by contract; one line of reason each
KNOWN_FUNCS = {
    "get_field_name": NAME,  # objects/fields.py: returns the Python field name of a field / name / method
    "get_dependent_required": NAME,  # dependencies.py: Mapping[field name, set of field names]
    "get_deserialization_flattened_aliases": ALIAS,  # yields `field.alias` of nested fields (checked by C11.R1b)
    "get_order_overriding": NAME,
}
WRAPPERS_KEEP = {"str", "sorted", "tuple", "list", "set", "frozenset", "iter", "reversed", "dict"}


def is_bad(k: str) -> bool:
    return k.startswith("BAD")


def join(kinds: List[str]) -> str:
    ks = [k for k in kinds if k != NONE]
    if not ks:
        return NONE if kinds else OTHER
    for k in ks:
        if is_bad(k):
            return k
    s = set(ks)
    if len(s) == 1:
        return ks[0]
    if s == {ALIAS, NAME}:
        return OTHER
    return OTHER


DESCRIPTOR_CLASSES = {"Field", "FlattenedField", "PatternField", "AdditionalField", "Property", "NormalField", "SimpleField", "ComplexField", "IdentityField", "SerializedField"}


class AliasScope:
    """Classification inside one function (its nested functions share the
    enclosing function's bindings, as closures do)."""

    def __init__(self, model: Model, fi: FuncInfo, aliaser_names: Optional[Set[str]] = None, depth: int = 0):
        self.model = model
        self.fi = fi
        self.depth = depth
        self.assign: Dict[str, List[ast.AST]] = {}
        self.elem_of: Dict[str, List[ast.AST]] = {}  # loop / comprehension variables -> iterables
        self.elem_pos: Dict[str, Tuple[int, int]] = {}
        self.local_iter: Dict[int, Tuple[ast.AST, int, int]] = {}  # id(Name use inside a comprehension) -> its generator
        self._outside_cache: Dict[int, Set[str]] = {}
        self.inserts: Dict[str, List[ast.AST]] = {}  # container var -> inserted value expressions
        self.key_inserts: Dict[str, List[ast.AST]] = {}
        self.params: Set[str] = set()
        chain = []
        g = fi
        while g is not None:
            chain.append(g)
            g = g.parent
        for g in chain:
            self.params |= set(g.params)
            self._collect(g.node)
        self.aliaser_names = aliaser_names or {"aliaser"}

    def _collect(self, fn):
        for n in walk_no_nested(fn, include_lambda=True):
            if isinstance(n, ast.Assign):
                for t in n.targets:
                    self._bind(t, n.value)
            elif isinstance(n, ast.AnnAssign) and n.value is not None:
                self._bind(n.target, n.value)
            elif isinstance(n, ast.NamedExpr):
                self._bind(n.target, n.value)
            elif isinstance(n, (ast.For, ast.AsyncFor)):
                self._bind_loop(n.target, n.iter)
            elif isinstance(n, (ast.ListComp, ast.SetComp, ast.GeneratorExp, ast.DictComp)):
                # comprehension variables are local to the comprehension: uses inside it resolve to its own generator
                for g in n.generators:
                    tg = g.target
                    names = [(tg, 0, 1)] if isinstance(tg, ast.Name) else [(t, i, len(tg.elts)) for i, t in enumerate(tg.elts) if isinstance(t, ast.Name)] if isinstance(tg, (ast.Tuple, ast.List)) else []
                    for t, i, k in names:
                        for x in ast.walk(n):
                            if isinstance(x, ast.Name) and x.id == t.id and isinstance(x.ctx, ast.Load):
                                self.local_iter.setdefault(id(x), (g.iter, i, k))
                        # names never bound elsewhere keep the function-wide view too (used by key / element queries)
                        self._bind_loop(t, g.iter) if t.id not in self._loop_vars_outside(fn) else None
            elif isinstance(n, ast.Call) and isinstance(n.func, ast.Attribute) and n.func.attr in ("add", "append", "update", "extend", "setdefault"):
                base = n.func.value
                while isinstance(base, ast.Subscript):
                    base = base.value
                if isinstance(base, ast.Name) and n.args:
                    self.inserts.setdefault(base.id, []).append(n.args[-1])

    def _loop_vars_outside(self, fn) -> Set[str]:
        """names bound by `for` statements (not comprehensions) or assignments of this function"""
        k = id(fn)
        if k not in self._outside_cache:
            out: Set[str] = set()
            for n in walk_no_nested(fn, include_lambda=True):
                if isinstance(n, (ast.For, ast.AsyncFor)):
                    out |= {x.id for x in ast.walk(n.target) if isinstance(x, ast.Name)}
            self._outside_cache[k] = out
        return self._outside_cache[k]

    def _bind(self, target, value):
        if isinstance(target, ast.Name):
            self.assign.setdefault(target.id, []).append(value)
        elif isinstance(target, ast.Subscript):
            base = target.value
            while isinstance(base, ast.Subscript):
                base = base.value
            if isinstance(base, ast.Name):
                self.inserts.setdefault(base.id, []).append(value)
                self.key_inserts.setdefault(base.id, []).append(target.slice)
        elif isinstance(target, (ast.Tuple, ast.List)) and isinstance(value, (ast.Tuple, ast.List)) and len(target.elts) == len(value.elts):
            for t, v in zip(target.elts, value.elts):
                self._bind(t, v)

    def _bind_loop(self, target, it):
        if isinstance(target, ast.Name):
            self.elem_of.setdefault(target.id, []).append(it)
            self.elem_pos[target.id] = (0, 1)
        elif isinstance(target, (ast.Tuple, ast.List)):
            for i, t in enumerate(target.elts):
                if isinstance(t, ast.Name):
                    self.elem_of.setdefault(t.id, []).append(it)
                    self.elem_pos[t.id] = (i, len(target.elts))

    # ------------------------------------------------------------------
    def is_aliaser_call(self, e) -> bool:
        if not isinstance(e, ast.Call):
            return False
        f = e.func
        if isinstance(f, ast.Attribute) and f.attr == "aliaser" and isinstance(f.value, ast.Name) and f.value.id == "self":
            return True
        return isinstance(f, ast.Name) and f.id in self.aliaser_names and (f.id in self.params or f.id in self.assign)

    def is_aliaser_ref(self, e) -> bool:
        if isinstance(e, ast.Attribute) and e.attr == "aliaser" and isinstance(e.value, ast.Name) and e.value.id == "self":
            return True
        return isinstance(e, ast.Name) and e.id in self.aliaser_names and (e.id in self.params or e.id in self.assign)

    def apply_aliaser(self, inner: str) -> str:
        if inner == ALIAS:
            return ALIASED
        if inner == NAME:
            return "BAD:dynamic aliaser applied to the Python name instead of the alias"
        if inner == ALIASED:
            return "BAD:dynamic aliaser applied twice"
        if is_bad(inner):
            return inner
        return OTHER

    def classify(self, e, seen: Optional[Set[str]] = None) -> str:
        seen = seen or set()
        if e is None:
            return OTHER
        if isinstance(e, ast.Constant):
            return NONE if e.value is None else OTHER
        if isinstance(e, ast.Starred):
            return self.classify(e.value, seen)
        if isinstance(e, ast.Name):
            if id(e) in self.local_iter:
                it, pos, n_ = self.local_iter[id(e)]
                return self.element_kind(it, e.id, seen | {e.id}, (pos, n_))
            if e.id in seen:
                return OTHER
            seen = seen | {e.id}
            kinds = []
            for v in self.assign.get(e.id, []):
                kinds.append(self.classify(v, seen))
            for it in self.elem_of.get(e.id, []):
                kinds.append(self.element_kind(it, e.id, seen))
            for v in self.inserts.get(e.id, []):
                kinds.append(self.classify(v, seen))
            # an empty-container initialisation does not contribute
            kinds = [k for k in kinds if k != "EMPTY"]
            return join(kinds) if kinds else OTHER
        if isinstance(e, ast.Attribute):
            if e.attr == "alias":
                recv = e.value
                if isinstance(recv, ast.Name) and recv.id == "self":
                    return ALIASED  # stored key of a runtime node / strategy object
                if self._is_property_obj(recv):
                    return ALIASED
                return ALIAS
            if e.attr in ("name", "__name__"):
                return NAME
            return OTHER
        if isinstance(e, ast.BoolOp) and isinstance(e.op, ast.Or):
            ks = [self.classify(v, seen) for v in e.values]
            if ks and ks[0] == ALIAS and all(k in (ALIAS, NAME) for k in ks):
                return ALIAS  # `x.alias or func.__name__`: the alias defaults to the name
            return join(ks)
        if isinstance(e, ast.IfExp):
            return join([self.classify(e.body, seen), self.classify(e.orelse, seen)])
        if isinstance(e, (ast.Set, ast.List, ast.Tuple)):
            if not e.elts:
                return "EMPTY"
            return join([self.classify(x, seen) for x in e.elts])
        if isinstance(e, ast.Dict):
            if not e.values:
                return "EMPTY"
            return join([self.classify(x, seen) for x in e.values])
        if isinstance(e, (ast.ListComp, ast.SetComp, ast.GeneratorExp)):
            return self.classify(e.elt, seen)
        if isinstance(e, ast.DictComp):
            return self.classify(e.value, seen)
        if isinstance(e, ast.Subscript):
            return self.classify(e.value, seen)  # element of a collection
        if isinstance(e, ast.JoinedStr) or isinstance(e, ast.BinOp):
            return OTHER
        if isinstance(e, ast.Call):
            f = e.func
            fname = dotted(f) or ""
            last = fname.split(".")[-1]
            if self.is_aliaser_call(e):
                return self.apply_aliaser(self.classify(e.args[0], seen)) if e.args else OTHER
            if last == "AliasedStr" and e.args:
                inner = self.classify(e.args[0], seen)
                if inner == ALIAS:
                    return ALIASED
                if inner == NAME:
                    return "BAD:AliasedStr built from the Python name instead of the alias"
                if inner == ALIASED:
                    return "BAD:AliasedStr built from an already aliased key (aliased twice)"
                return inner if is_bad(inner) else OTHER
            if last == "getattr" and e.args and isinstance(e.args[0], ast.Call) and (dotted(e.args[0].func) or "").endswith("get_alias"):
                return ALIAS
            if last in ("defaultdict",):
                return "EMPTY"
            if last in WRAPPERS_KEEP:
                if not e.args:
                    return "EMPTY"
                return self.classify(e.args[0], seen)
            if last == "map" and len(e.args) >= 2:
                fn = e.args[0]
                inner = self.classify(e.args[1], seen)
                if self.is_aliaser_ref(fn):
                    return self.apply_aliaser(inner)
                if isinstance(fn, ast.Name):
                    if fn.id in KNOWN_FUNCS:
                        return KNOWN_FUNCS[fn.id]
                    # `{...}.__getitem__` bound to a local
                    for v in self.assign.get(fn.id, []):
                        if isinstance(v, ast.Attribute) and v.attr == "__getitem__":
                            return self.classify(v.value, seen)
                return OTHER
            if isinstance(f, ast.Attribute) and f.attr in ("values", "copy", "get", "pop", "setdefault", "union", "keys") and f.attr != "keys":
                return self.classify(f.value, seen)
            if isinstance(f, ast.Attribute) and f.attr == "__getitem__":
                return self.classify(f.value, seen)
            if isinstance(f, ast.Name):
                # call of a local bound to `{...}.__getitem__`
                for v in self.assign.get(f.id, []):
                    if isinstance(v, ast.Attribute) and v.attr == "__getitem__":
                        return self.classify(v.value, seen)
                if f.id in KNOWN_FUNCS:
                    return KNOWN_FUNCS[f.id]
                return self._callee_kind(f.id, seen)
            if last in KNOWN_FUNCS:
                return KNOWN_FUNCS[last]
            return OTHER
        return OTHER

    def _is_property_obj(self, recv) -> bool:
        """`p.alias` where p iterates over the schema `properties` list (Property
        objects hold an AliasedStr)."""
        if isinstance(recv, ast.Name):
            its = [self.local_iter[id(recv)][0]] if id(recv) in self.local_iter else self.elem_of.get(recv.id, [])
            for it in its:
                t = norm(it)
                if "properties" in t and "pattern" not in t:
                    return True
                # elements of a local list that only ever receives descriptor objects (Field(...), ...): their
                # `alias` slot is the already aliased key (its construction is itself a checked sink)
                if isinstance(it, ast.Name):
                    ins = self.inserts.get(it.id, [])
                    if ins and all(isinstance(v, ast.Call) and (dotted(v.func) or "").split(".")[-1] in DESCRIPTOR_CLASSES for v in ins) and not [v for v in self.assign.get(it.id, []) if not (isinstance(v, (ast.List, ast.Tuple)) and not v.elts)]:
                        return True
        return False

    def element_kind(self, it, var: str, seen, pos_n=None) -> str:
        pos, n = pos_n or self.elem_pos.get(var, (0, 1))
        # for k, v in X.items(): k -> key kind, v -> value kind
        if isinstance(it, ast.Call) and isinstance(it.func, ast.Attribute) and it.func.attr == "items" and n == 2:
            base = it.func.value
            if pos == 0:
                return self.key_kind(base, seen)
            return self.classify(base, seen)
        if isinstance(it, ast.Call) and dotted(it.func) == "enumerate" and n == 2:
            return OTHER if pos == 0 else self.classify(it.args[0], seen)
        if isinstance(it, ast.Call) and dotted(it.func) == "zip":
            if pos < len(it.args):
                return self.classify(it.args[pos], seen)
            return OTHER
        if n != 1:
            return OTHER
        return self.classify(it, seen)

    def key_kind(self, base, seen) -> str:
        if isinstance(base, ast.Call):
            last = (dotted(base.func) or "").split(".")[-1]
            if last in KNOWN_FUNCS:
                return KNOWN_FUNCS[last]
        if isinstance(base, ast.Name):
            ks = [self.classify(k, seen) for k in self.key_inserts.get(base.id, [])]
            for v in self.assign.get(base.id, []):
                if isinstance(v, ast.DictComp):
                    ks.append(self.classify(v.key, seen))
                elif isinstance(v, ast.Call):
                    last = (dotted(v.func) or "").split(".")[-1]
                    if last in KNOWN_FUNCS:
                        ks.append(KNOWN_FUNCS[last])
            return join(ks) if ks else OTHER
        return OTHER

    def _callee_kind(self, name: str, seen) -> str:
        """kind of what a package function returns (depth-limited)."""
        if self.depth >= 2:
            return OTHER
        g = self.fi
        target = None
        while g is not None and target is None:
            target = g.nested.get(name)
            g = g.parent
        if target is None:
            q = self.model.resolve_name(self.fi.module, name)
            target = self.model.functions.get(q) if q else None
        if target is None:
            return OTHER
        sub = AliasScope(self.model, target, self.aliaser_names, self.depth + 1)
        kinds = []
        for n in walk_no_nested(target.node):
            if isinstance(n, ast.Return) and n.value is not None:
                kinds.append(sub.classify(n.value))
            elif isinstance(n, (ast.Yield,)) and n.value is not None:
                kinds.append(sub.classify(n.value))
        return join(kinds) if kinds else OTHER
