"""Reference-directed rewriting (second stage of the canonicalisation, see sa/canon.py).

The rules are written against the spelling of the pinned tree. A behaviour-preserving refactoring (guard clause instead
of if / else, comprehension instead of a loop, an extracted local or private helper, De Morgan, ...) must not change a
verdict. Every function whose statements differ from the reference (sa/ref_shapes.json, generated from the pinned tree
by tools/gen_local_names.py) is therefore searched for *semantics-preserving* rewrites that bring it closer to the
reference; a rewrite is applied only when it strictly reduces the distance (multiset difference of the statement
fingerprints, local names blanked). A function that is already spelled like the reference is not touched; a function
whose *behaviour* changed keeps that change, because no rewrite of the catalogue alters behaviour - the search only
chooses between equivalent spellings. The catalogue (both directions of each):

  else-after-exit      `if c: ...exit` + rest              <->  `if c: ...exit else: rest`        (also try / except ... exit)
  guard                `if c: continue|return` + rest      <->  `if not c: rest`                  (end of loop body / function)
  swap-branches        `if c: A else: B`                   <->  `if not c: B else: A`             (negation pushed one level or not)
  de-morgan            `not (a and b)`                     <->  `not a or not b`;  `not a == b` <-> `a != b`;  `not a in b` <-> `a not in b`
  ifexp                `x = a if c else b` / `return ...`   <->  if / else statement
  walrus               `if (x := e):`                      <->  `x = e` + `if x:`
  tuple-assign         `a, b = e1, e2`                     <->  `a = e1` + `b = e2`
  for-else             `for ...: (no break) else: S`       <->  `for ...` + S
  suppress             `with suppress(E): S`               <->  `try: S except E: pass`
  map-comp             `list(map(f, xs))` `all(map(f, xs))` <->  `[f(x) for x in xs]` `all(f(x) for x in xs)`
  any-all              `any(not p for ..)`                 <->  `not all(p for ..)`
  bool-swap            `a and b` (both pure)               <->  `b and a`
  loop-comp            `x = []` + `for v in it: x.append(e)` <-> `x = [e for v in it]`            (list / set / dict, filters, nested loops)
  pop-del              `x.pop(k)` (statement)              <->  `del x[k]`
  ior-flag             `flag |= <bool>`                    <->  `if <bool>: flag = True`
  hoist / sink         first / last statement common to every branch <-> once before / after the `if`
  unpack-store         `d = {**a}` + `d[k] = v`            <->  `d = {**a, k: v}`
  inline-local         `t = E` (t unknown to the reference) -> E at its reads  (one read in the next statement, or E stable and pure)
  inline-helper        a private function the reference does not know -> its body at its call sites
  inline-constant      a module constant the reference does not know -> its value at its reads
  nested-def names     a nested function renamed -> the reference name
"""
import ast
import copy
import json
import os
from collections import Counter
from typing import Callable, Dict, List, Optional, Tuple

FUNC = (ast.FunctionDef, ast.AsyncFunctionDef)
SCOPE = (ast.FunctionDef, ast.AsyncFunctionDef, ast.ClassDef)
EXIT = (ast.Return, ast.Raise, ast.Continue, ast.Break)
NORETURN = {"stop_signature_abuse", "_bad_field"}          # the functions annotated `-> NoReturn` in the package
PURE_CALLS = {"len", "type", "isinstance", "issubclass", "callable", "id", "get_origin", "get_args", "get_args2", "get_origin_or_type", "get_origin_or_type2",
              "is_union", "is_typed_dict", "is_type_var", "is_dataclass", "is_hashable", "has_type_vars"}

_SHAPES: Optional[dict] = None
MODULE_ONE_LINERS: Dict[str, ast.AST] = {}      # set by canon.directed_rewrites for the module being canonicalised


def shapes() -> dict:
    global _SHAPES
    if _SHAPES is None:
        p = os.path.join(os.path.dirname(os.path.abspath(__file__)), "ref_shapes.json")
        _SHAPES = json.load(open(p)) if os.path.exists(p) else {}
    return _SHAPES


# ------------------------------------------------------------------------------------------------ scopes / fingerprints
def own_walk(fn):
    """nodes of fn's own scope: nested function / class *bodies* are not entered (their def node is yielded)."""
    stack = list(ast.iter_child_nodes(fn))
    while stack:
        n = stack.pop()
        yield n
        if isinstance(n, SCOPE):
            continue
        stack.extend(ast.iter_child_nodes(n))


def params_of(fn) -> set:
    a = fn.args
    return {x.arg for x in a.args + a.kwonlyargs + a.posonlyargs + ([a.vararg] if a.vararg else []) + ([a.kwarg] if a.kwarg else [])}


def local_names(fn) -> set:
    out = set()
    for n in own_walk(fn):
        if isinstance(n, ast.Name) and isinstance(n.ctx, (ast.Store, ast.Del)):
            out.add(n.id)
        elif isinstance(n, ast.ExceptHandler) and n.name:
            out.add(n.name)
        elif isinstance(n, FUNC):
            out.add(n.name)
    return out - params_of(fn)


def blocks(fn):
    """every statement list of fn's own scope: (owner, field, list)."""
    out = []

    def rec(owner):
        for field in ("body", "orelse", "finalbody"):
            stmts = getattr(owner, field, None)
            if isinstance(stmts, list) and (not stmts or isinstance(stmts[0], ast.stmt)):
                if isinstance(owner, (ast.IfExp, ast.Lambda)):
                    continue
                out.append((owner, field, stmts))
                for s in stmts:
                    if not isinstance(s, SCOPE):
                        rec(s)
        if isinstance(owner, ast.Try):
            for h in owner.handlers:
                rec(h)
        if isinstance(owner, ast.With) or isinstance(owner, ast.AsyncWith):
            pass
    rec(fn)
    return out


class _BlankLocals(ast.NodeTransformer):
    def __init__(self, names):
        self.names = names

    def visit_Name(self, n):
        return ast.copy_location(ast.Name(id="_", ctx=n.ctx), n) if n.id in self.names else n


def _u(node, names) -> str:
    """text of the node with the local names (and lambda parameters) blanked; the node is restored before returning."""
    touched = []
    try:
        lam = {a.arg for x in ast.walk(node) if isinstance(x, ast.Lambda) for a in x.args.args}
        blank = names | lam if lam else names
        for x in ast.walk(node):
            if isinstance(x, ast.Name) and x.id in blank:
                touched.append((x, x.id))
                x.id = "_"
        return ast.unparse(node)
    except Exception:
        return ast.dump(node)
    finally:
        for x, old in touched:
            x.id = old


def fingerprints(fn) -> List[str]:
    names = local_names(fn)
    out = []

    def rec(stmts, depth):
        for s in stmts:
            if isinstance(s, ast.If):
                has_else = bool(s.orelse)
                out.append(f"{depth}:if {_u(s.test, names)}{' +else' if has_else else ''}")
                rec(s.body, depth + 1)
                rec(s.orelse, depth + 1)
            elif isinstance(s, (ast.For, ast.AsyncFor)):
                out.append(f"{depth}:for {_u(s.target, names)} in {_u(s.iter, names)}{' +else' if s.orelse else ''}")
                rec(s.body, depth + 1)
                rec(s.orelse, depth + 1)
            elif isinstance(s, ast.While):
                out.append(f"{depth}:while {_u(s.test, names)}")
                rec(s.body, depth + 1)
                rec(s.orelse, depth + 1)
            elif isinstance(s, (ast.With, ast.AsyncWith)):
                out.append(f"{depth}:with " + ", ".join(_u(i.context_expr, names) for i in s.items))
                rec(s.body, depth + 1)
            elif isinstance(s, ast.Try):
                out.append(f"{depth}:try{' +else' if s.orelse else ''}{' +finally' if s.finalbody else ''}")
                rec(s.body, depth + 1)
                for h in s.handlers:
                    out.append(f"{depth}:except {_u(h.type, names) if h.type is not None else ''}")
                    rec(h.body, depth + 1)
                rec(s.orelse, depth + 1)
                rec(s.finalbody, depth + 1)
            elif isinstance(s, FUNC):
                out.append(f"{depth}:def ({len(s.args.args)})")
            elif isinstance(s, ast.ClassDef):
                out.append(f"{depth}:class")
            elif isinstance(s, ast.Expr) and isinstance(s.value, ast.Constant) and isinstance(s.value.value, str):
                continue   # docstring
            else:
                out.append(f"{depth}:{_u(s, names)}")
    rec(fn.body, 0)
    return out


def distance(fn, ref_fps: List[str]) -> int:
    a, b = Counter(fingerprints(fn)), Counter(ref_fps)
    return sum(((a - b) + (b - a)).values())


# ------------------------------------------------------------------------------------------------ helpers
def exits(stmts) -> bool:
    if not stmts:
        return False
    s = stmts[-1]
    if isinstance(s, EXIT):
        return True
    if isinstance(s, ast.If) and s.orelse:
        return exits(s.body) and exits(s.orelse)
    if isinstance(s, ast.Expr) and isinstance(s.value, ast.Call) and isinstance(s.value.func, ast.Name) and s.value.func.id in NORETURN:
        return True
    if isinstance(s, ast.Try) and not s.finalbody and s.handlers:
        return (exits(s.body) or exits(s.orelse)) and all(exits(h.body) for h in s.handlers)
    return False


OPP = {ast.Is: ast.IsNot, ast.IsNot: ast.Is, ast.In: ast.NotIn, ast.NotIn: ast.In, ast.Eq: ast.NotEq, ast.NotEq: ast.Eq}


def L(new, old):
    return ast.copy_location(new, old)


def neg_plain(e):
    if isinstance(e, ast.UnaryOp) and isinstance(e.op, ast.Not):
        return copy.deepcopy(e.operand)
    if isinstance(e, ast.Compare) and len(e.ops) == 1 and type(e.ops[0]) in OPP:
        return L(ast.Compare(left=copy.deepcopy(e.left), ops=[OPP[type(e.ops[0])]()], comparators=copy.deepcopy(e.comparators)), e)
    return L(ast.UnaryOp(op=ast.Not(), operand=copy.deepcopy(e)), e)


def neg_not(e):
    """negation that keeps comparisons: `not (a == b)`; a `not x` loses its not."""
    if isinstance(e, ast.UnaryOp) and isinstance(e.op, ast.Not):
        return copy.deepcopy(e.operand)
    return L(ast.UnaryOp(op=ast.Not(), operand=copy.deepcopy(e)), e)


def neg_pushed(e):
    if isinstance(e, ast.BoolOp):
        dual = ast.Or() if isinstance(e.op, ast.And) else ast.And()
        return L(ast.BoolOp(op=dual, values=[neg_plain(v) for v in e.values]), e)
    return neg_plain(e)


def neg_deep(e):
    if isinstance(e, ast.IfExp):
        return L(ast.IfExp(test=copy.deepcopy(e.test), body=neg_deep(e.body), orelse=neg_deep(e.orelse)), e)
    if isinstance(e, ast.BoolOp):
        dual = ast.Or() if isinstance(e.op, ast.And) else ast.And()
        return L(ast.BoolOp(op=dual, values=[neg_deep(v) for v in e.values]), e)
    return neg_plain(e)


def negations(e):
    seen, out = set(), []
    for f in (neg_plain, neg_pushed, neg_deep, neg_not):
        n = f(e)
        k = ast.dump(n)
        if k not in seen:
            seen.add(k)
            out.append(n)
    return out


def pure(e) -> bool:
    """evaluating e has no effect and cannot raise in a way that matters for reordering (names, attribute reads, identity
    tests, isinstance, constants)."""
    if isinstance(e, (ast.Name, ast.Constant)):
        return True
    if isinstance(e, ast.Attribute):
        return pure(e.value)
    if isinstance(e, ast.UnaryOp) and isinstance(e.op, ast.Not):
        return pure(e.operand)
    if isinstance(e, ast.Compare):
        return all(isinstance(o, (ast.Is, ast.IsNot)) for o in e.ops) and pure(e.left) and all(pure(c) for c in e.comparators)
    if isinstance(e, ast.BoolOp):
        return all(pure(v) for v in e.values)
    if isinstance(e, ast.Tuple):
        return all(pure(v) for v in e.elts)
    if isinstance(e, ast.Call) and isinstance(e.func, ast.Name) and (e.func.id in ("isinstance", "issubclass", "type", "callable") or e.func.id in PURE_CALLS) and not e.keywords:
        return all(pure(a) for a in e.args)
    return False


def stable(e, fn, stored_attrs, compared_only=None) -> bool:
    """e evaluates to the same value wherever it is evaluated in fn after its operands are bound: built from names that are
    bound once (or parameters never rebound), constants, attribute reads of attributes the function never stores, and the
    pure functions of PURE_CALLS."""
    rebinds = Counter()
    for n in own_walk(fn):
        if isinstance(n, ast.Name) and isinstance(n.ctx, (ast.Store, ast.Del)):
            rebinds[n.id] += 1
    prm = params_of(fn)

    def ok(x):
        if isinstance(x, ast.Constant):
            return True
        if isinstance(x, ast.Name):
            return rebinds[x.id] == 0 or (rebinds[x.id] == 1 and x.id not in prm)
        if isinstance(x, ast.Attribute):
            return x.attr not in stored_attrs and ok(x.value)
        if isinstance(x, ast.Tuple):
            return all(ok(v) for v in x.elts)
        if isinstance(x, ast.UnaryOp) and isinstance(x.op, ast.Not):
            return ok(x.operand)
        if isinstance(x, ast.BoolOp):
            return all(ok(v) for v in x.values)
        if isinstance(x, ast.IfExp):
            return ok(x.test) and ok(x.body) and ok(x.orelse)
        if isinstance(x, ast.Compare):
            return all(isinstance(o, (ast.Is, ast.IsNot, ast.Eq, ast.NotEq, ast.In, ast.NotIn)) for o in x.ops) and ok(x.left) and all(ok(c) for c in x.comparators)
        if isinstance(x, ast.Call) and isinstance(x.func, ast.Name) and x.func.id in PURE_CALLS and not x.keywords:
            return all(ok(a) for a in x.args)
        if isinstance(x, ast.Subscript):
            return isinstance(x.ctx, ast.Load) and ok(x.value) and ok(x.slice) and isinstance(x.value, ast.Name) and not _mutated(fn, x.value.id)
        return False
    if isinstance(e, (ast.Dict, ast.Set, ast.List, ast.Tuple)) and all(isinstance(c, ast.Constant) for c in ast.iter_child_nodes(e) if isinstance(c, ast.expr)) and compared_only is not None:
        return compared_only      # a literal container that is only compared: a fresh equal object at each read is the same
    return ok(e)


def _mutated(fn, name) -> bool:
    for n in own_walk(fn):
        if isinstance(n, (ast.Subscript, ast.Attribute)) and isinstance(n.ctx, (ast.Store, ast.Del)) and isinstance(n.value, ast.Name) and n.value.id == name:
            return True
        if isinstance(n, ast.Call) and isinstance(n.func, ast.Attribute) and isinstance(n.func.value, ast.Name) and n.func.value.id == name \
                and n.func.attr in ("append", "add", "update", "pop", "remove", "clear", "extend", "insert", "setdefault", "discard", "sort", "popitem"):
            return True
        if isinstance(n, ast.AugAssign) and isinstance(n.target, ast.Name) and n.target.id == name:
            return True
    return False


def reads(fn, name):
    return [x for x in own_walk(fn) if isinstance(x, ast.Name) and x.id == name and isinstance(x.ctx, ast.Load)] + \
           [x for s in own_walk(fn) if isinstance(s, SCOPE) for x in ast.walk(s) if isinstance(x, ast.Name) and x.id == name and isinstance(x.ctx, ast.Load)]


def mentions(node, name) -> bool:
    return any(isinstance(x, ast.Name) and x.id == name for x in ast.walk(node))


def stmt_names(nodes) -> set:
    return {x.id for n in nodes for x in ast.walk(n) if isinstance(x, ast.Name)}


def in_loop_body(fn, stmts) -> bool:
    return any(isinstance(o, (ast.For, ast.AsyncFor, ast.While)) and f == "body" and s is stmts for o, f, s in blocks(fn))


# ------------------------------------------------------------------------------------------------ candidate rewrites
Cand = Tuple[str, Callable[[], None]]


def _replace_expr(root, old, new):
    class R(ast.NodeTransformer):
        def visit(self, n):
            if n is old:
                return new
            return self.generic_visit(n)
    return R().visit(root)


def expr_sites(fn):
    """(parent, field, index or None, expr) for the expressions of fn's own scope."""
    out = []
    for n in [fn, *own_walk(fn)]:
        if isinstance(n, SCOPE) and n is not fn:
            continue
        for field, val in ast.iter_fields(n):
            if isinstance(val, ast.expr):
                out.append((n, field, None, val))
            elif isinstance(val, list):
                for i, v in enumerate(val):
                    if isinstance(v, ast.expr):
                        out.append((n, field, i, v))
    return out


def _set(parent, field, idx, new):
    if idx is None:
        setattr(parent, field, new)
    else:
        getattr(parent, field)[idx] = new


def candidates(fn, stored_attrs=frozenset()) -> List[Cand]:
    out: List[Cand] = []
    top = fn.body

    # ---- statement-level
    loop_tails = _loop_tail_blocks(fn)
    for owner, field, stmts in blocks(fn):
        in_loop = id(stmts) in loop_tails
        at_fn_end = _in_tail(fn, stmts) and not in_loop
        for i, st in enumerate(stmts):
            rest = stmts[i + 1:]
            # else-after-exit (in): `if c: ..exit` + rest -> else: rest
            if isinstance(st, ast.If) and rest:
                last = st
                chain_exits = exits(last.body)
                while chain_exits and len(last.orelse) == 1 and isinstance(last.orelse[0], ast.If):
                    last = last.orelse[0]
                    chain_exits = exits(last.body)
                if chain_exits and not last.orelse:
                    def f(stmts=stmts, i=i, last=last):
                        last.orelse = stmts[i + 1:]
                        del stmts[i + 1:]
                    out.append(("else-in", f))
            # else-after-exit (out)
            if isinstance(st, ast.If) and st.orelse and exits(st.body):
                def f(stmts=stmts, i=i, st=st):
                    moved = st.orelse
                    st.orelse = []
                    stmts[i + 1:i + 1] = moved
                out.append(("else-out", f))
                # innermost of an elif chain
                last = st
                while len(last.orelse) == 1 and isinstance(last.orelse[0], ast.If) and exits(last.body):
                    last = last.orelse[0]
                if last is not st and last.orelse and exits(last.body) and all_exit_chain(st, last):
                    def f(stmts=stmts, i=i, last=last):
                        moved = last.orelse
                        last.orelse = []
                        stmts[i + 1:i + 1] = moved
                    out.append(("else-out-last", f))
            # a single exit statement after an `if` is what every fall-through path of that `if` ends with: pushed into those paths
            # (`if a: (if b: return x) elif c: return y` + `raise E`  ->  every branch, nested ones included, gets its own `else: raise E`)
            if isinstance(st, ast.If) and len(rest) == 1 and isinstance(rest[0], (ast.Raise, ast.Return)) and not isinstance(rest[0], ast.Return) or \
                    (isinstance(st, ast.If) and len(rest) == 1 and isinstance(rest[0], ast.Return) and (rest[0].value is None or isinstance(rest[0].value, (ast.Name, ast.Constant)))):
                def f(stmts=stmts, i=i, st=st, tail=rest[0]):
                    def push(node):
                        for fld in ("body", "orelse"):
                            blk = getattr(node, fld)
                            if fld == "orelse" and not blk:
                                node.orelse = [copy.deepcopy(tail)]
                                continue
                            if exits(blk):
                                continue
                            if isinstance(blk[-1], ast.If):
                                push(blk[-1])
                            else:
                                blk.append(copy.deepcopy(tail))
                    push(st)
                    del stmts[i + 1:]
                out.append(("push-exit-deep", f))
            # `if c: A else: B(exits)`  ->  `if not c: B` + A   (swap + else-out in one step: the shape step would undo the swap alone)
            if isinstance(st, ast.If) and st.orelse and exits(st.orelse) and not (len(st.orelse) == 1 and isinstance(st.orelse[0], ast.If)):
                for k, ng in enumerate(negations(st.test)):
                    def f(stmts=stmts, i=i, st=st, ng=ng):
                        moved = st.body
                        st.test = ng
                        st.body, st.orelse = st.orelse, []
                        stmts[i + 1:i + 1] = moved
                    out.append((f"else-exit-out{k}", f))
            # `if c: exit` + rest  ->  `if not c: rest else: exit`   (else-in + swap in one step)
            if isinstance(st, ast.If) and not st.orelse and rest and exits(st.body) and isinstance(st.test, ast.BoolOp):
                for k, ng in enumerate(negations(st.test)):
                    if isinstance(ng, ast.UnaryOp):
                        continue      # the shape step would turn `if not c: A else: B` back
                    def f(stmts=stmts, i=i, st=st, ng=ng):
                        st.orelse = st.body
                        st.body = stmts[i + 1:]
                        st.test = ng
                        del stmts[i + 1:]
                    out.append((f"guard-else-swap{k}", f))
            # try / except-exit / else
            if isinstance(st, ast.Try) and st.handlers and not st.finalbody and all(exits(h.body) for h in st.handlers):
                if rest and not st.orelse:
                    def f(stmts=stmts, i=i, st=st):
                        st.orelse = stmts[i + 1:]
                        del stmts[i + 1:]
                    out.append(("try-else-in", f))
                if st.orelse:
                    def f(stmts=stmts, i=i, st=st):
                        moved = st.orelse
                        st.orelse = []
                        stmts[i + 1:i + 1] = moved
                    out.append(("try-else-out", f))
            # guard -> nested
            if isinstance(st, ast.If) and not st.orelse and len(st.body) == 1 and rest and (
                    (in_loop and isinstance(st.body[0], ast.Continue)) or
                    (at_fn_end and isinstance(st.body[0], ast.Return) and (st.body[0].value is None or (isinstance(st.body[0].value, ast.Constant) and st.body[0].value.value is None)))):
                for k, ng in enumerate(negations(st.test)):
                    def f(stmts=stmts, i=i, st=st, ng=ng):
                        new = L(ast.If(test=ng, body=stmts[i + 1:], orelse=[]), st)
                        del stmts[i:]
                        stmts.append(new)
                    out.append((f"guard-in{k}", f))
            # nested -> guard (the `if` is the last statement of a loop body / of the function)
            if isinstance(st, ast.If) and not st.orelse and not rest and (in_loop or at_fn_end) and not (len(st.body) == 1 and isinstance(st.body[0], EXIT)):
                for k, ng in enumerate(negations(st.test)):
                    def f(stmts=stmts, i=i, st=st, ng=ng, in_loop=in_loop):
                        g = L(ast.If(test=ng, body=[L(ast.Continue() if in_loop else ast.Return(value=None), st)], orelse=[]), st)
                        stmts[i:] = [g, *st.body]
                    out.append((f"guard-out{k}", f))
            # swap branches
            if isinstance(st, ast.If) and st.orelse:
                for k, ng in enumerate(negations(st.test)):
                    def f(st=st, ng=ng):
                        st.test = ng
                        st.body, st.orelse = st.orelse, st.body
                    out.append((f"swap{k}", f))
            # ifexp <-> statement
            if isinstance(st, (ast.Return, ast.Assign, ast.AnnAssign)) and isinstance(st.value, ast.IfExp):
                def f(stmts=stmts, i=i, st=st):
                    a, b = copy.deepcopy(st), copy.deepcopy(st)
                    a.value, b.value = st.value.body, st.value.orelse
                    stmts[i] = L(ast.If(test=st.value.test, body=[a], orelse=[b]), st)
                out.append(("ifexp-out", f))
            if isinstance(st, ast.If) and len(st.body) == 1 and len(st.orelse) == 1:
                a, b = st.body[0], st.orelse[0]
                same = (isinstance(a, ast.Return) and isinstance(b, ast.Return) and a.value is not None and b.value is not None) or \
                       (isinstance(a, ast.Assign) and isinstance(b, ast.Assign) and len(a.targets) == 1 and len(b.targets) == 1 and ast.dump(a.targets[0]) == ast.dump(b.targets[0]))
                if same:
                    def f(stmts=stmts, i=i, st=st, a=a, b=b):
                        new = copy.deepcopy(a)
                        new.value = L(ast.IfExp(test=st.test, body=a.value, orelse=b.value), st)
                        stmts[i] = L(new, st)
                    out.append(("ifexp-in", f))
            # `if c: return a` + `return b`  (handled by else-in + ifexp-in in two steps; offered as one)
            if isinstance(st, ast.If) and not st.orelse and len(st.body) == 1 and isinstance(st.body[0], ast.Return) and st.body[0].value is not None \
                    and len(rest) == 1 and isinstance(rest[0], ast.Return) and rest[0].value is not None:
                for k, flip in enumerate((False, True)):
                    def f(stmts=stmts, i=i, st=st, r=rest[0], flip=flip):
                        t = neg_plain(st.test) if flip else st.test
                        x, y = (r.value, st.body[0].value) if flip else (st.body[0].value, r.value)
                        stmts[i:] = [L(ast.Return(value=L(ast.IfExp(test=t, body=x, orelse=y), st)), st)]
                    out.append((f"ifexp-ret{k}", f))
            # walrus
            if isinstance(st, (ast.If, ast.While)) and not isinstance(st, ast.While):
                w = st.test
                first = w
                while True:
                    if isinstance(first, ast.BoolOp):
                        first = first.values[0]
                    elif isinstance(first, ast.Compare):
                        first = first.left
                    elif isinstance(first, ast.UnaryOp):
                        first = first.operand
                    else:
                        break
                if isinstance(first, ast.NamedExpr):
                    def f(stmts=stmts, i=i, st=st, first=first):
                        asg = L(ast.Assign(targets=[L(ast.Name(id=first.target.id, ctx=ast.Store()), first)], value=first.value), st)
                        st.test = _replace_expr(st.test, first, L(ast.Name(id=first.target.id, ctx=ast.Load()), first))
                        stmts.insert(i, asg)
                    out.append(("walrus-out", f))
            if isinstance(st, ast.Assign) and len(st.targets) == 1 and isinstance(st.targets[0], ast.Name) and rest and isinstance(rest[0], ast.If):
                nm = st.targets[0].id
                nxt = rest[0]
                first = nxt.test
                while True:
                    if isinstance(first, ast.BoolOp):
                        first = first.values[0]
                    elif isinstance(first, ast.Compare):
                        first = first.left
                    elif isinstance(first, ast.UnaryOp):
                        first = first.operand
                    else:
                        break
                if isinstance(first, ast.Name) and first.id == nm:
                    def f(stmts=stmts, i=i, st=st, nxt=nxt, first=first):
                        nxt.test = _replace_expr(nxt.test, first, L(ast.NamedExpr(target=L(ast.Name(id=first.id, ctx=ast.Store()), first), value=st.value), first))
                        del stmts[i]
                    out.append(("walrus-in", f))
            # tuple assignment
            if isinstance(st, ast.Assign) and len(st.targets) == 1 and isinstance(st.targets[0], ast.Tuple) and isinstance(st.value, ast.Tuple) \
                    and len(st.targets[0].elts) == len(st.value.elts) and all(isinstance(t, ast.Name) for t in st.targets[0].elts):
                tn = [t.id for t in st.targets[0].elts]
                if not any(mentions(v, n) for v in st.value.elts for n in tn):
                    def f(stmts=stmts, i=i, st=st):
                        stmts[i:i + 1] = [L(ast.Assign(targets=[t], value=v), st) for t, v in zip(st.targets[0].elts, st.value.elts)]
                    out.append(("tuple-split", f))
            if isinstance(st, ast.Assign) and rest and isinstance(rest[0], ast.Assign) and all(len(x.targets) == 1 and isinstance(x.targets[0], ast.Name) for x in (st, rest[0])):
                a, b = st, rest[0]
                if not mentions(b.value, a.targets[0].id) and not mentions(a.value, b.targets[0].id) and a.targets[0].id != b.targets[0].id:
                    def f(stmts=stmts, i=i, a=a, b=b):
                        stmts[i:i + 2] = [L(ast.Assign(targets=[L(ast.Tuple(elts=[a.targets[0], b.targets[0]], ctx=ast.Store()), a)],
                                                       value=L(ast.Tuple(elts=[a.value, b.value], ctx=ast.Load()), a)), a)]
                    out.append(("tuple-join", f))
            # for-else
            if isinstance(st, (ast.For, ast.AsyncFor)):
                has_break = any(isinstance(x, ast.Break) for b in st.body for x in _walk_same_loop(b))
                if not has_break:
                    if st.orelse:
                        def f(stmts=stmts, i=i, st=st):
                            moved = st.orelse
                            st.orelse = []
                            stmts[i + 1:i + 1] = moved
                        out.append(("for-else-out", f))
                    elif rest:
                        def f(stmts=stmts, i=i, st=st):
                            st.orelse = stmts[i + 1:]
                            del stmts[i + 1:]
                        out.append(("for-else-in", f))
            # suppress
            if isinstance(st, ast.With) and len(st.items) == 1 and st.items[0].optional_vars is None and isinstance(st.items[0].context_expr, ast.Call) \
                    and isinstance(st.items[0].context_expr.func, ast.Name) and st.items[0].context_expr.func.id == "suppress" and st.items[0].context_expr.args:
                def f(stmts=stmts, i=i, st=st):
                    a = st.items[0].context_expr.args
                    tp = a[0] if len(a) == 1 else L(ast.Tuple(elts=a, ctx=ast.Load()), st)
                    stmts[i] = L(ast.Try(body=st.body, handlers=[L(ast.ExceptHandler(type=tp, name=None, body=[L(ast.Pass(), st)]), st)], orelse=[], finalbody=[]), st)
                out.append(("suppress-out", f))
            if isinstance(st, ast.Try) and len(st.handlers) == 1 and not st.orelse and not st.finalbody and st.handlers[0].type is not None \
                    and len(st.handlers[0].body) == 1 and isinstance(st.handlers[0].body[0], ast.Pass):
                def f(stmts=stmts, i=i, st=st):
                    tp = st.handlers[0].type
                    args = tp.elts if isinstance(tp, ast.Tuple) else [tp]
                    ce = L(ast.Call(func=L(ast.Name(id="suppress", ctx=ast.Load()), st), args=args, keywords=[]), st)
                    stmts[i] = L(ast.With(items=[ast.withitem(context_expr=ce, optional_vars=None)], body=st.body), st)
                out.append(("suppress-in", f))
            # loop <-> comprehension
            c = _loop_to_comp(st, rest[0] if rest else None, lambda k_, fn=fn: sum(1 for x in ast.walk(fn) if isinstance(x, ast.Name) and x.id == k_) == 2)
            if c is not None:
                def f(stmts=stmts, i=i, c=c):
                    stmts[i:i + 2] = [c]
                out.append(("loop-comp", f))
            lp = _comp_to_loop(st)
            if lp is not None:
                def f(stmts=stmts, i=i, lp=lp):
                    stmts[i:i + 1] = lp
                out.append(("comp-loop", f))
            # pop / del
            if isinstance(st, ast.Expr) and isinstance(st.value, ast.Call) and isinstance(st.value.func, ast.Attribute) and st.value.func.attr == "pop" and len(st.value.args) == 1 and not st.value.keywords:
                def f(stmts=stmts, i=i, st=st):
                    stmts[i] = L(ast.Delete(targets=[L(ast.Subscript(value=st.value.func.value, slice=st.value.args[0], ctx=ast.Del()), st)]), st)
                out.append(("pop-del", f))
            if isinstance(st, ast.Delete) and len(st.targets) == 1 and isinstance(st.targets[0], ast.Subscript) and not isinstance(st.targets[0].slice, ast.Slice):
                def f(stmts=stmts, i=i, st=st):
                    t = st.targets[0]
                    stmts[i] = L(ast.Expr(value=L(ast.Call(func=L(ast.Attribute(value=t.value, attr="pop", ctx=ast.Load()), st), args=[t.slice], keywords=[]), st)), st)
                out.append(("del-pop", f))
            # flag |= bool
            if isinstance(st, ast.AugAssign) and isinstance(st.op, ast.BitOr) and isinstance(st.target, ast.Name) and isinstance(st.value, (ast.Compare, ast.UnaryOp)) \
                    and (not isinstance(st.value, ast.UnaryOp) or isinstance(st.value.op, ast.Not)) and _bool_flag(fn, st.target.id):
                def f(stmts=stmts, i=i, st=st):
                    stmts[i] = L(ast.If(test=st.value, body=[L(ast.Assign(targets=[L(ast.Name(id=st.target.id, ctx=ast.Store()), st)], value=L(ast.Constant(value=True), st)), st)], orelse=[]), st)
                out.append(("ior-out", f))
            if isinstance(st, ast.If) and not st.orelse and len(st.body) == 1 and isinstance(st.body[0], ast.Assign) and len(st.body[0].targets) == 1 and isinstance(st.body[0].targets[0], ast.Name) \
                    and isinstance(st.body[0].value, ast.Constant) and st.body[0].value.value is True and isinstance(st.test, (ast.Compare, ast.UnaryOp)) and _bool_flag(fn, st.body[0].targets[0].id):
                def f(stmts=stmts, i=i, st=st):
                    stmts[i] = L(ast.AugAssign(target=L(ast.Name(id=st.body[0].targets[0].id, ctx=ast.Store()), st), op=ast.BitOr(), value=st.test), st)
                out.append(("ior-in", f))
            # hoist / sink the statement common to every branch
            if isinstance(st, ast.If) and st.orelse:
                leaves = _branches(st)
                if leaves is not None and len(leaves) >= 2:
                    firsts = [b[0] for b in leaves if b]
                    if len(firsts) == len(leaves) and len({ast.dump(x) for x in firsts}) == 1 and not isinstance(firsts[0], EXIT) and all(len(b) > 1 for b in leaves) \
                            and all(pure(t) for t in _tests(st)) and not (stmt_names([firsts[0]]) & {x.id for t in _tests(st) for x in ast.walk(t) if isinstance(x, ast.Name)} and _stores(firsts[0])):
                        def f(stmts=stmts, i=i, leaves=leaves, st=st):
                            h = leaves[0][0]
                            for b in leaves:
                                del b[0]
                            stmts.insert(i, h)
                        out.append(("hoist", f))
                    live = [b for b in leaves if not exits(b)]
                    if len(live) >= 2 and all(b for b in live) and len({ast.dump(b[-1]) for b in live}) == 1 and all(len(b) > 1 for b in live):
                        def f(stmts=stmts, i=i, live=live, st=st):
                            t = live[0][-1]
                            for b in live:
                                del b[-1]
                            stmts.insert(i + 1, t)
                        out.append(("sink", f))
                    if all(b for b in leaves) and len({ast.dump(b[-1]) for b in leaves}) == 1 and not rest or \
                            (all(b for b in leaves) and len({ast.dump(b[-1]) for b in leaves}) == 1 and not isinstance(leaves[0][-1], EXIT)):
                        def f(owner=owner, field=field, stmts=stmts, i=i, leaves=leaves, st=st):
                            t = leaves[0][-1]
                            for b in leaves:
                                del b[-1]
                            stmts.insert(i + 1, t)
                            stmts[:] = _drop_empty(stmts)
                        out.append(("sink-all", f))
                    if rest and live and len(rest) <= 2 and not any(isinstance(x, SCOPE) for x in rest):
                        def f(stmts=stmts, i=i, live=live, st=st):
                            tail = stmts[i + 1:]
                            del stmts[i + 1:]
                            for b in live:
                                b.extend(copy.deepcopy(tail))
                        out.append(("push-tail", f))
            # trailing `else: continue` / `continue` at the end of a loop body
            if in_loop and not rest and isinstance(st, ast.If):
                last = st
                while len(last.orelse) == 1 and isinstance(last.orelse[0], ast.If):
                    last = last.orelse[0]
                if len(last.orelse) == 1 and isinstance(last.orelse[0], ast.Continue):
                    def f(last=last, st=st):
                        last.orelse = []
                    out.append(("drop-else-continue", f))
                elif not last.orelse:
                    def f(last=last):
                        last.orelse = [L(ast.Continue(), last)]
                    out.append(("add-else-continue", f))
            # unpack-store
            if isinstance(st, (ast.Assign, ast.AnnAssign)) and rest and isinstance(rest[0], ast.Assign) and len(rest[0].targets) == 1 and isinstance(rest[0].targets[0], ast.Subscript):
                tgt = st.targets[0] if isinstance(st, ast.Assign) and len(st.targets) == 1 else getattr(st, "target", None)
                sub = rest[0].targets[0]
                v = st.value
                src = None
                if isinstance(v, ast.Dict) and v.keys and all(k is None for k in v.keys):
                    src = v
                elif isinstance(v, ast.Call) and isinstance(v.func, ast.Name) and v.func.id == "dict" and len(v.args) == 1 and not v.keywords:
                    # dict(a) == {**a} for a mapping (a sequence of pairs is accepted by the former only)
                    src = "dict-call"
                elif isinstance(v, ast.Call) and isinstance(v.func, ast.Name) and v.func.id in DICT_SUBCLASSES and len(v.args) == 1 and not v.keywords and isinstance(v.args[0], (ast.Name, ast.Attribute)):
                    src = "subclass-call"      # JsonSchema(a) then c[k] = v  ==  JsonSchema({**a, k: v})
                if isinstance(tgt, ast.Name) and isinstance(sub.value, ast.Name) and sub.value.id == tgt.id and src is not None \
                        and not mentions(sub.slice, tgt.id) and not mentions(rest[0].value, tgt.id) and (pure(sub.slice) or pure(rest[0].value)):
                    def f(stmts=stmts, i=i, st=st, src=src, sub=sub, val=rest[0].value):
                        if src == "dict-call":
                            src = L(ast.Dict(keys=[None], values=[st.value.args[0]]), st.value)
                            st.value = src
                        elif src == "subclass-call":
                            src = L(ast.Dict(keys=[None], values=[st.value.args[0]]), st.value)
                            st.value.args[0] = src
                        src.keys.append(sub.slice)
                        src.values.append(val)
                        del stmts[i + 1]
                    out.append(("unpack-store-in", f))
            if isinstance(st, (ast.Assign, ast.AnnAssign, ast.Return)) and isinstance(st.value, ast.Dict) and len(st.value.keys) >= 2 and st.value.keys[-1] is not None \
                    and all(k is None for k in st.value.keys[:-1]) and (isinstance(st, ast.Return) or (isinstance(st, ast.Assign) and len(st.targets) == 1 and isinstance(st.targets[0], ast.Name)) or (isinstance(st, ast.AnnAssign) and isinstance(st.target, ast.Name))):
                pass   # the out direction needs a name for the temporary: not offered, inline-local + unpack-store-in cover the observed spellings

    # ---- expression-level
    for parent, field, idx, e in expr_sites(fn):
        # de Morgan / not-compare
        if isinstance(e, ast.UnaryOp) and isinstance(e.op, ast.Not) and isinstance(e.operand, (ast.BoolOp, ast.Compare)):
            if isinstance(e.operand, ast.BoolOp) or (len(e.operand.ops) == 1 and type(e.operand.ops[0]) in OPP):
                def f(parent=parent, field=field, idx=idx, e=e):
                    _set(parent, field, idx, neg_pushed(e.operand))
                out.append(("not-push", f))
        if isinstance(e, ast.UnaryOp) and isinstance(e.op, ast.Not) and isinstance(e.operand, (ast.IfExp, ast.BoolOp)):
            def f(parent=parent, field=field, idx=idx, e=e):
                _set(parent, field, idx, neg_deep(e.operand))
            out.append(("not-push-deep", f))
        if isinstance(e, ast.BoolOp) and all(isinstance(v, ast.UnaryOp) and isinstance(v.op, ast.Not) or (isinstance(v, ast.Compare) and len(v.ops) == 1 and type(v.ops[0]) in OPP) for v in e.values) \
                and any(isinstance(v, ast.UnaryOp) for v in e.values):
            def f(parent=parent, field=field, idx=idx, e=e):
                dual = ast.Or() if isinstance(e.op, ast.And) else ast.And()
                _set(parent, field, idx, L(ast.UnaryOp(op=ast.Not(), operand=L(ast.BoolOp(op=dual, values=[neg_plain(v) for v in e.values]), e)), e))
            out.append(("not-pull", f))
        if isinstance(e, ast.Compare) and len(e.ops) == 1 and type(e.ops[0]) in (ast.NotEq, ast.NotIn, ast.IsNot):
            def f(parent=parent, field=field, idx=idx, e=e):
                _set(parent, field, idx, L(ast.UnaryOp(op=ast.Not(), operand=neg_plain(e)), e))
            out.append(("cmp-not", f))
        # map <-> comprehension
        if isinstance(e, ast.Call) and not e.keywords and len(e.args) == 1 and (isinstance(e.func, ast.Name) or (isinstance(e.func, ast.Attribute) and e.func.attr in CONSUMER_METHODS)):
            a = e.args[0]
            if isinstance(a, ast.Call) and isinstance(a.func, ast.Name) and a.func.id == "map" and len(a.args) == 2 and not a.keywords and isinstance(a.args[0], ast.Lambda) \
                    and len(a.args[0].args.args) == 1 and not a.args[0].args.defaults and not a.args[0].args.vararg and not a.args[0].args.kwarg:
                def f(e=e, a=a):
                    lam = a.args[0]
                    gen = ast.comprehension(target=L(ast.Name(id=lam.args.args[0].arg, ctx=ast.Store()), a), iter=a.args[1], ifs=[], is_async=0)
                    e.args[0] = L(ast.GeneratorExp(elt=lam.body, generators=[gen]), a)
                out.append(("maplambda-gen", f))
            if isinstance(a, ast.Call) and isinstance(a.func, ast.Name) and a.func.id == "map" and len(a.args) == 2 and not a.keywords and isinstance(a.args[0], (ast.Name, ast.Attribute)):
                def mk(a=a, e=e):
                    v = L(ast.Name(id="_x", ctx=ast.Load()), a)
                    elt = L(ast.Call(func=a.args[0], args=[v], keywords=[]), a)
                    gen = ast.comprehension(target=L(ast.Name(id="_x", ctx=ast.Store()), a), iter=a.args[1], ifs=[], is_async=0)
                    return elt, gen
                if isinstance(e.func, ast.Name) and e.func.id in ("list", "set"):
                    def f(parent=parent, field=field, idx=idx, e=e, mk=mk):
                        elt, gen = mk()
                        _set(parent, field, idx, L((ast.ListComp if e.func.id == "list" else ast.SetComp)(elt=elt, generators=[gen]), e))
                    out.append(("map-comp", f))
                def f(e=e, mk=mk, a=a):
                    elt, gen = mk()
                    e.args[0] = L(ast.GeneratorExp(elt=elt, generators=[gen]), a)
                out.append(("map-gen", f))
            if isinstance(a, ast.GeneratorExp) and _is_map_shape(a):
                def f(e=e, a=a):
                    e.args[0] = L(ast.Call(func=L(ast.Name(id="map", ctx=ast.Load()), a), args=[a.elt.func, a.generators[0].iter], keywords=[]), a)
                out.append(("gen-map", f))
        if isinstance(e, (ast.ListComp, ast.SetComp)) and _is_map_shape(e):
            def f(parent=parent, field=field, idx=idx, e=e):
                m = L(ast.Call(func=L(ast.Name(id="map", ctx=ast.Load()), e), args=[e.elt.func, e.generators[0].iter], keywords=[]), e)
                _set(parent, field, idx, L(ast.Call(func=L(ast.Name(id="list" if isinstance(e, ast.ListComp) else "set", ctx=ast.Load()), e), args=[m], keywords=[]), e))
            out.append(("comp-map", f))
        if isinstance(e, ast.For) or isinstance(e, ast.comprehension):
            pass
        # any / all duality
        if isinstance(e, ast.Call) and isinstance(e.func, ast.Name) and e.func.id in ("any", "all") and len(e.args) == 1 and isinstance(e.args[0], ast.GeneratorExp):
            def f(parent=parent, field=field, idx=idx, e=e):
                g = copy.deepcopy(e.args[0])
                g.elt = neg_plain(g.elt)
                c = L(ast.Call(func=L(ast.Name(id="all" if e.func.id == "any" else "any", ctx=ast.Load()), e), args=[g], keywords=[]), e)
                _set(parent, field, idx, L(ast.UnaryOp(op=ast.Not(), operand=c), e))
            out.append(("any-all", f))
        if isinstance(e, ast.UnaryOp) and isinstance(e.op, ast.Not) and isinstance(e.operand, ast.Call) and isinstance(e.operand.func, ast.Name) and e.operand.func.id in ("any", "all") \
                and len(e.operand.args) == 1 and isinstance(e.operand.args[0], ast.GeneratorExp):
            def f(parent=parent, field=field, idx=idx, e=e):
                g = copy.deepcopy(e.operand.args[0])
                g.elt = neg_plain(g.elt)
                _set(parent, field, idx, L(ast.Call(func=L(ast.Name(id="all" if e.operand.func.id == "any" else "any", ctx=ast.Load()), e), args=[g], keywords=[]), e))
            out.append(("not-any-all", f))
        # operand order of pure conjunctions
        if isinstance(e, ast.BoolOp) and len(e.values) == 2 and all(pure(v) for v in e.values):
            def f(e=e):
                e.values.reverse()
            out.append(("bool-swap", f))
        # membership in frozenset({...}) <-> {...}
        if isinstance(e, ast.Compare) and len(e.ops) == 1 and isinstance(e.ops[0], (ast.In, ast.NotIn)):
            c = e.comparators[0]
            if isinstance(c, ast.Call) and isinstance(c.func, ast.Name) and c.func.id == "frozenset" and len(c.args) == 1 and isinstance(c.args[0], (ast.Set, ast.Tuple, ast.List)) and all(isinstance(x, ast.Constant) for x in c.args[0].elts):
                def f(e=e, c=c):
                    e.comparators[0] = L(ast.Set(elts=c.args[0].elts), c)
                out.append(("frozenset-lit", f))
        # dict(zip(map(f, vs), vs)) <-> {f(v): v for v in vs}
        if isinstance(e, ast.DictComp) and len(e.generators) == 1 and not e.generators[0].ifs and isinstance(e.generators[0].target, ast.Name) and isinstance(e.value, ast.Name) \
                and e.value.id == e.generators[0].target.id and isinstance(e.key, ast.Call) and len(e.key.args) == 1 and not e.key.keywords and isinstance(e.key.args[0], ast.Name) \
                and e.key.args[0].id == e.value.id and isinstance(e.generators[0].iter, ast.Name) and not mentions(e.key.func, e.value.id):
            def f(parent=parent, field=field, idx=idx, e=e):
                it = e.generators[0].iter
                m = L(ast.Call(func=L(ast.Name(id="map", ctx=ast.Load()), e), args=[e.key.func, it], keywords=[]), e)
                z = L(ast.Call(func=L(ast.Name(id="zip", ctx=ast.Load()), e), args=[m, copy.deepcopy(it)], keywords=[]), e)
                _set(parent, field, idx, L(ast.Call(func=L(ast.Name(id="dict", ctx=ast.Load()), e), args=[z], keywords=[]), e))
            out.append(("dictcomp-zip", f))
    out.extend(candidates2(fn, stored_attrs))
    return out


def all_exit_chain(st, last) -> bool:
    cur = st
    while cur is not last:
        if not exits(cur.body):
            return False
        cur = cur.orelse[0]
    return True


def _walk_same_loop(node):
    yield node
    if isinstance(node, (ast.For, ast.AsyncFor, ast.While, *SCOPE)):
        # a break inside a nested loop belongs to that loop; its else clause however belongs to the outer one
        if isinstance(node, (ast.For, ast.AsyncFor, ast.While)):
            for s in node.orelse:
                yield from _walk_same_loop(s)
        return
    for c in ast.iter_child_nodes(node):
        yield from _walk_same_loop(c)


def _bool_flag(fn, name) -> bool:
    for n in own_walk(fn):
        if isinstance(n, ast.Assign) and any(isinstance(t, ast.Name) and t.id == name for t in n.targets):
            if not (isinstance(n.value, ast.Constant) and isinstance(n.value.value, bool)):
                return False
        if isinstance(n, ast.Assign) and any(isinstance(t, ast.Tuple) and any(isinstance(x, ast.Name) and x.id == name for x in t.elts) for t in n.targets):
            if not (isinstance(n.value, ast.Tuple)):
                return False
            for t, v in zip(n.targets[0].elts, n.value.elts):
                if isinstance(t, ast.Name) and t.id == name and not (isinstance(v, ast.Constant) and isinstance(v.value, bool)):
                    return False
        if isinstance(n, ast.AugAssign) and isinstance(n.target, ast.Name) and n.target.id == name and not isinstance(n.op, ast.BitOr):
            return False
    return True


def _branches(st):
    """the statement lists of an if / elif / else chain that ends with an else (None when it has no final else)."""
    out = [st.body]
    cur = st
    while len(cur.orelse) == 1 and isinstance(cur.orelse[0], ast.If):
        cur = cur.orelse[0]
        out.append(cur.body)
    if not cur.orelse:
        return None
    out.append(cur.orelse)
    return out


def _tests(st):
    out = [st.test]
    cur = st
    while len(cur.orelse) == 1 and isinstance(cur.orelse[0], ast.If):
        cur = cur.orelse[0]
        out.append(cur.test)
    return out


def _stores(stmt) -> bool:
    return any(isinstance(x, ast.Name) and isinstance(x.ctx, ast.Store) for x in ast.walk(stmt))


def _is_map_shape(c) -> bool:
    if len(c.generators) != 1:
        return False
    g = c.generators[0]
    return (not g.ifs and not g.is_async and isinstance(g.target, ast.Name) and isinstance(c.elt, ast.Call) and not c.elt.keywords and len(c.elt.args) == 1
            and isinstance(c.elt.args[0], ast.Name) and c.elt.args[0].id == g.target.id and isinstance(c.elt.func, (ast.Name, ast.Attribute)) and not mentions(c.elt.func, g.target.id))


def _empty_container(v) -> Optional[str]:
    if isinstance(v, ast.List) and not v.elts:
        return "list"
    if isinstance(v, ast.Dict) and not v.keys:
        return "dict"
    if isinstance(v, ast.Call) and isinstance(v.func, ast.Name) and v.func.id in ("list", "dict", "set") and not v.args and not v.keywords:
        return v.func.id
    return None


def _loop_to_comp(st, nxt, pair_ok=None):
    """`x = []` + `for v in it: [if c:] x.append(e)`  ->  `x = [e for v in it if c]` (also set / dict, nested loops, `if c: continue`)."""
    if nxt is None or not (isinstance(nxt, ast.For) and not nxt.orelse or isinstance(nxt, ast.If)):
        return None
    if isinstance(st, ast.Assign) and len(st.targets) == 1 and isinstance(st.targets[0], ast.Name):
        name = st.targets[0].id
    elif isinstance(st, ast.AnnAssign) and isinstance(st.target, ast.Name) and st.value is not None:
        name = st.target.id
    else:
        return None
    kind = _empty_container(st.value)
    base = None
    subclass_ctor = None
    if kind is None and isinstance(st.value, ast.Call) and isinstance(st.value.func, ast.Name) and st.value.func.id in DICT_SUBCLASSES and not st.value.args and not st.value.keywords:
        kind, subclass_ctor = "dict", st.value.func      # `x = JsonSchema()` + stores: `JsonSchema((k, v) for ...)`
    if kind is None and isinstance(st.value, ast.Call) and isinstance(st.value.func, ast.Name) and st.value.func.id == "set" and len(st.value.args) == 1 and not st.value.keywords \
            and isinstance(st.value.args[0], (ast.Name, ast.Attribute)):
        kind, base = "set", st.value.args[0]      # a copy of a set, then additions: `base | {...}`
    if kind is None:
        return None
    gens = []
    cur = nxt
    leaf = None
    invariant = None
    if isinstance(cur, ast.If) and not cur.orelse and len(cur.body) == 1 and isinstance(cur.body[0], ast.For) and pure(cur.test) and not mentions(cur.test, name):
        invariant, cur = cur.test, cur.body[0]      # a loop-invariant pure test around the loop is a filter of every element
    while True:
        if not isinstance(cur, ast.For) or cur.orelse or mentions(cur.iter, name) or mentions(cur.target, name):
            return None
        gen = ast.comprehension(target=cur.target, iter=cur.iter, ifs=[], is_async=0)
        gens.append(gen)
        body = list(cur.body)
        while True:
            # `if c: continue` prefix
            if len(body) >= 2 and isinstance(body[0], ast.If) and not body[0].orelse and len(body[0].body) == 1 and isinstance(body[0].body[0], ast.Continue):
                gen.ifs.append(neg_plain(body[0].test))
                body = body[1:]
                continue
            if len(body) == 1 and isinstance(body[0], ast.If) and not body[0].orelse:
                gen.ifs.append(body[0].test)
                body = list(body[0].body)
                continue
            break
        if len(body) == 2 and isinstance(body[0], ast.Assign) and len(body[0].targets) == 1 and isinstance(body[0].targets[0], ast.Name) and isinstance(body[1], ast.Assign) \
                and len(body[1].targets) == 1 and isinstance(body[1].targets[0], ast.Subscript) and isinstance(body[1].targets[0].slice, ast.Name) \
                and body[1].targets[0].slice.id == body[0].targets[0].id and not mentions(body[1].value, body[0].targets[0].id) and pair_ok is not None \
                and pair_ok(body[0].targets[0].id):
            # `k = K` + `d[k] = V`: K is evaluated before V, like in `{K: V ...}`
            leaf = ("pair", body[0].value, body[1])
            break
        if len(body) != 1:
            return None
        if isinstance(body[0], ast.For):
            cur = body[0]
            continue
        leaf = body[0]
        break
    if any(mentions(t, name) for g in gens for t in g.ifs):
        return None
    comp = None
    if isinstance(leaf, tuple):
        _, key_expr, store = leaf
        if isinstance(store.targets[0].value, ast.Name) and store.targets[0].value.id == name and kind == "dict" and not mentions(store.value, name) and not mentions(key_expr, name):
            comp = ast.DictComp(key=key_expr, value=store.value, generators=gens)
    elif isinstance(leaf, ast.Expr) and isinstance(leaf.value, ast.Call) and isinstance(leaf.value.func, ast.Attribute) and isinstance(leaf.value.func.value, ast.Name) \
            and leaf.value.func.value.id == name and len(leaf.value.args) == 1 and not leaf.value.keywords and not mentions(leaf.value.args[0], name):
        if leaf.value.func.attr == "append" and kind == "list":
            comp = ast.ListComp(elt=leaf.value.args[0], generators=gens)
        elif leaf.value.func.attr == "add" and kind == "set":
            comp = ast.SetComp(elt=leaf.value.args[0], generators=gens)
    elif isinstance(leaf, ast.Assign) and len(leaf.targets) == 1 and isinstance(leaf.targets[0], ast.Subscript) and isinstance(leaf.targets[0].value, ast.Name) \
            and leaf.targets[0].value.id == name and kind == "dict" and not mentions(leaf.value, name) and not mentions(leaf.targets[0].slice, name) \
            and (pure(leaf.targets[0].slice) or pure(leaf.value)):      # `d[k()] = v()` evaluates v() first, `{k(): v()}` k() first
        comp = ast.DictComp(key=leaf.targets[0].slice, value=leaf.value, generators=gens)
    if comp is None:
        return None
    if invariant is not None:
        if any(mentions(invariant, n.id) for g in gens for n in ast.walk(g.target) if isinstance(n, ast.Name)):
            return None
        gens[0].ifs.insert(0, invariant)
    new = copy.copy(st)
    new.value = L(comp, nxt)
    if subclass_ctor is not None:
        if not isinstance(comp, ast.DictComp):
            return None
        pairs = L(ast.GeneratorExp(elt=L(ast.Tuple(elts=[comp.key, comp.value], ctx=ast.Load()), nxt), generators=comp.generators), nxt)
        new.value = L(ast.Call(func=subclass_ctor, args=[pairs], keywords=[]), nxt)
    if base is not None:
        if not isinstance(comp, ast.SetComp):
            return None
        new.value = L(ast.BinOp(left=base, op=ast.BitOr(), right=L(comp, nxt)), nxt)
    return new


def _comp_to_loop(st):
    if isinstance(st, ast.Assign) and len(st.targets) == 1 and isinstance(st.targets[0], ast.Name):
        name = st.targets[0].id
    elif isinstance(st, ast.AnnAssign) and isinstance(st.target, ast.Name) and st.value is not None:
        name = st.target.id
    else:
        return None
    v = st.value
    if not isinstance(v, (ast.ListComp, ast.SetComp, ast.DictComp)) or mentions(v, name) or any(g.is_async for g in v.generators):
        return None
    nm = lambda ctx: L(ast.Name(id=name, ctx=ctx), st)
    if isinstance(v, ast.ListComp):
        empty, leaf = L(ast.List(elts=[], ctx=ast.Load()), st), L(ast.Expr(value=L(ast.Call(func=L(ast.Attribute(value=nm(ast.Load()), attr="append", ctx=ast.Load()), st), args=[v.elt], keywords=[]), st)), st)
    elif isinstance(v, ast.SetComp):
        empty, leaf = L(ast.Call(func=L(ast.Name(id="set", ctx=ast.Load()), st), args=[], keywords=[]), st), L(ast.Expr(value=L(ast.Call(func=L(ast.Attribute(value=nm(ast.Load()), attr="add", ctx=ast.Load()), st), args=[v.elt], keywords=[]), st)), st)
    else:
        if not (pure(v.key) or pure(v.value)):
            return None
        empty, leaf = L(ast.Dict(keys=[], values=[]), st), L(ast.Assign(targets=[L(ast.Subscript(value=nm(ast.Load()), slice=v.key, ctx=ast.Store()), st)], value=v.value), st)
    body = leaf
    for g in reversed(v.generators):
        for t in reversed(g.ifs):
            body = L(ast.If(test=t, body=[body], orelse=[]), st)
        body = L(ast.For(target=g.target, iter=g.iter, body=[body], orelse=[]), st)
    first = copy.copy(st)
    first.value = empty
    return [first, body]


# ------------------------------------------------------------------------------------------------ inlining of temporaries
def inline_fresh(fn, known_names: set, stored_attrs, dry: bool = False) -> bool:
    """`t = E` where t is unknown to the reference and assigned once: E replaces the reads of t when
       (a) there is one read, in the statement that follows (or the first statement of the `try` / `with` that follows),
           evaluated before anything with an effect there, or one such read in each branch of the `if` that follows;
       (b) E is stable and pure: any number of reads.
    Returns True when something was inlined."""
    counts = Counter()
    for n in own_walk(fn):
        if isinstance(n, ast.Name) and isinstance(n.ctx, (ast.Store, ast.Del)):
            counts[n.id] += 1
        elif isinstance(n, ast.ExceptHandler) and n.name:
            counts[n.name] += 1
    prm = params_of(fn)
    for owner, field, stmts in blocks(fn):
        for i, st in enumerate(stmts):
            if isinstance(st, ast.Assign) and len(st.targets) == 1 and isinstance(st.targets[0], ast.Name):
                nm = st.targets[0].id
            elif isinstance(st, ast.AnnAssign) and isinstance(st.target, ast.Name) and st.value is not None:
                nm = st.target.id
            else:
                continue
            if nm in known_names or nm in prm or counts[nm] != 1 or nm.startswith('_xk'):
                continue
            if any(isinstance(x, (ast.Global, ast.Nonlocal)) and nm in x.names for x in ast.walk(fn)):
                continue
            rs = reads(fn, nm)
            if not rs:
                continue
            later = stmts[i + 1:]
            inside_later = {id(x) for s in later for x in ast.walk(s)}
            if not all(id(r) in inside_later for r in rs):
                continue        # read outside the rest of this block (e.g. after a loop): left alone
            parents = {id(c): p_ for p_ in ast.walk(fn) for c in ast.iter_child_nodes(p_)}
            cmp_only = all(isinstance(parents.get(id(r)), ast.Compare) for r in rs)
            if stable(st.value, fn, stored_attrs, cmp_only) and not _operand_rebound_after(fn, st, later):
                if dry:
                    return True
                for r in rs:
                    _put(stmts, i + 1, r, st.value)
                del stmts[i]
                return True
            if not later:
                continue
            nxt = later[0]
            # the first evaluation point after the assignment
            sites = _first_eval_sites(nxt)
            if sites is None:
                continue
            ok = True
            chosen = []
            remaining = list(rs)
            for container, j, head in sites:
                here = [r for r in remaining if any(x is r for x in ast.walk(head))]
                if len(here) != 1 or _deferred(head, here[0]) or not (_evaluated_first(head, here[0]) or (_movable_before(st.value, head, here[0], fn) and (pure(st.value) or not _conditional(head, here[0])))):
                    ok = False
                    break
                chosen.append((container, j, here[0]))
                remaining = [r for r in remaining if r is not here[0]]
            if not ok or remaining:
                continue
            if dry:
                return True
            for container, j, r in chosen:
                if container is None:
                    _put(stmts, i + 1, r, st.value)
                else:
                    _put(container, j, r, st.value)
            del stmts[i]
            return True
    return False


DICT_SUBCLASSES = {"JsonSchema", "OrderedDict"}
PURE_METHODS = {"keys", "values", "items", "get", "copy"}
PURE_BUILTINS = {"len", "set", "frozenset", "tuple", "list", "dict", "sorted", "isinstance", "type", "bool", "min", "max"}


def effect_free(e) -> bool:
    """evaluating e changes nothing and only looks at the objects named in it (no user code: operators on builtin containers,
    a few read-only builtin methods and constructors)."""
    if isinstance(e, (ast.Name, ast.Constant)):
        return True
    if isinstance(e, (ast.Tuple, ast.List, ast.Set)):
        return all(effect_free(x) for x in e.elts)
    if isinstance(e, ast.Starred):
        return effect_free(e.value)
    if isinstance(e, ast.BinOp):
        return effect_free(e.left) and effect_free(e.right)
    if isinstance(e, ast.UnaryOp):
        return effect_free(e.operand)
    if isinstance(e, ast.BoolOp):
        return all(effect_free(v) for v in e.values)
    if isinstance(e, ast.Compare):
        return effect_free(e.left) and all(effect_free(c) for c in e.comparators)
    if isinstance(e, ast.IfExp):
        return effect_free(e.test) and effect_free(e.body) and effect_free(e.orelse)
    if isinstance(e, ast.Subscript):
        return isinstance(e.ctx, ast.Load) and effect_free(e.value) and effect_free(e.slice)
    if isinstance(e, ast.Slice):
        return all(x is None or effect_free(x) for x in (e.lower, e.upper, e.step))
    if isinstance(e, ast.Call) and not e.keywords:
        if isinstance(e.func, ast.Attribute) and e.func.attr in PURE_METHODS and isinstance(e.func.value, ast.Name):
            return all(effect_free(a) for a in e.args)
        if isinstance(e.func, ast.Name) and e.func.id in PURE_BUILTINS:
            return all(effect_free(a) for a in e.args)
    return False


def _movable_before(value, head, r, fn) -> bool:
    """value (assigned just before head) may be evaluated at the read r instead: it is effect free, its operands are plain local
    names, and nothing evaluated in head before r is given those names (a callee cannot reach a local it is not passed)."""
    if not effect_free(value):
        return False
    ops = {x.id for x in ast.walk(value) if isinstance(x, ast.Name) and x.id not in PURE_BUILTINS}
    locs = local_names(fn) | params_of(fn)
    if not ops <= locs:
        return False
    if any(isinstance(sc, SCOPE + (ast.Lambda,)) and any(isinstance(n, ast.Name) and n.id in ops for n in ast.walk(sc)) for sc in own_walk(fn)):
        return False      # captured by a closure: a callee could reach it
    inside = {id(x) for x in ast.walk(r)}
    for x in eval_seq(head):
        if id(x) in inside:
            return True
        if isinstance(x, ast.Name) and x.id in ops and isinstance(x.ctx, ast.Load):
            # the operand is handed to / used by something evaluated earlier: it could be changed there
            return False
        if isinstance(x, (ast.NamedExpr, ast.Await, ast.Yield, ast.YieldFrom)):
            return False
    return False


def _put(stmts, start, r, value):
    """replace the read r (somewhere in stmts[start:]) by a copy of value."""
    for j in range(start, len(stmts)):
        if any(x is r for x in ast.walk(stmts[j])):
            stmts[j] = _replace_expr(stmts[j], r, copy.deepcopy(value))
            return


def _first_eval_sites(nxt):
    """[(statement list, index, head expression / statement)]: where evaluation continues right after the previous statement.
    One site for a simple statement; one per branch for an `if` with a pure test and an else; the first statement of a try / with body."""
    holder = [nxt]

    def rec(container, j):
        st = container[j]
        if isinstance(st, (ast.If, ast.While)):
            if isinstance(st, ast.If) and pure(st.test) and st.orelse and st.body and not any(isinstance(x, ast.Name) and False for x in ast.walk(st.test)):
                a, b = rec(st.body, 0), rec(st.orelse, 0)
                if a is None or b is None:
                    return None
                return a + b
            return [(container, j, st.test)]
        if isinstance(st, (ast.For, ast.AsyncFor)):
            return [(container, j, st.iter)]
        if isinstance(st, ast.Try):
            return rec(st.body, 0) if st.body else None
        if isinstance(st, (ast.With, ast.AsyncWith)):
            return [(container, j, st.items[0].context_expr)]
        if isinstance(st, SCOPE):
            return None
        return [(container, j, st)]
    sites = rec(holder, 0)
    if sites is None:
        return None
    # the holder is a copy of the reference to nxt: map it back to the real list by the caller (container identity matters only for nested blocks)
    return [(c if c is not holder else None, j, h) for c, j, h in sites]


def _deferred(head, r) -> bool:
    """r sits in a part of head whose evaluation is deferred or repeated (lambda body, comprehension element / filter)."""
    for x in ast.walk(head):
        if isinstance(x, ast.Lambda) and any(y is r for y in ast.walk(x.body)):
            return True
        if isinstance(x, (ast.GeneratorExp, ast.ListComp, ast.SetComp, ast.DictComp)) and any(y is r for y in ast.walk(x)) and not any(y is r for y in ast.walk(x.generators[0].iter)):
            return True
    return False


def _first_iter(comp, r) -> bool:
    """r is (in) the outermost iterable of the comprehension: evaluated immediately, like a plain operand."""
    return isinstance(comp, (ast.ListComp, ast.GeneratorExp, ast.DictComp, ast.SetComp)) and any(x is r for x in ast.walk(comp.generators[0].iter))


def _operand_rebound_after(fn, st, later) -> bool:
    ops = {x.id for x in ast.walk(st.value) if isinstance(x, ast.Name)}
    for s in later:
        for x in ast.walk(s):
            if isinstance(x, ast.Name) and isinstance(x.ctx, (ast.Store, ast.Del)) and x.id in ops:
                return True
    return False


# ------------------------------------------------------------------------------------------------ inlining of helpers
def _tailify(stmts):
    """`if c: ...exit` + rest -> `if c: ...exit else: rest`, recursively: every return ends up in tail position when possible."""
    stmts = list(stmts)
    for i, st in enumerate(stmts):
        if isinstance(st, ast.If) and i < len(stmts) - 1:
            last = st
            ok = exits(last.body)
            while ok and len(last.orelse) == 1 and isinstance(last.orelse[0], ast.If):
                last = last.orelse[0]
                ok = exits(last.body)
            if ok and not last.orelse:
                last.orelse = _tailify(stmts[i + 1:])
                stmts = stmts[:i + 1]
                break
    for i, st in enumerate(stmts):
        # `for ...: ... return X` + rest: the rest runs exactly when the loop ends without returning = the loop's else clause
        if isinstance(st, ast.For) and not st.orelse and i < len(stmts) - 1 and _loop_returns(st) and not any(isinstance(x, ast.Break) for b in st.body for x in _walk_same_loop(b)):
            st.orelse = _tailify(stmts[i + 1:])
            stmts = stmts[:i + 1]
            break
    for st in stmts:
        if isinstance(st, ast.If):
            st.body = _tailify(st.body)
            st.orelse = _tailify(st.orelse)
    return stmts


def _loop_returns(loop) -> bool:
    """the loop body returns from inside if-chains only (no return in a nested loop / try / with)."""
    found = []

    def rec(stmts):
        for s_ in stmts:
            if isinstance(s_, ast.Return):
                found.append(s_)
            elif isinstance(s_, ast.If):
                rec(s_.body)
                rec(s_.orelse)
            elif any(isinstance(x, ast.Return) for x in _walk_no_scope(s_)):
                found.append(None)
    rec(loop.body)
    return bool(found) and None not in found


def _tail_returns_only(stmts, tail=True) -> bool:
    """every Return of the statements is the last statement of a tail block (if / else chains only)."""
    for i, st in enumerate(stmts):
        is_last = tail and i == len(stmts) - 1
        if isinstance(st, ast.Return):
            if not is_last:
                return False
        elif isinstance(st, ast.If):
            if not (_tail_returns_only(st.body, is_last) and _tail_returns_only(st.orelse, is_last)):
                return False
        elif isinstance(st, ast.For) and st.orelse and is_last and _loop_returns(st):
            if not _tail_returns_only(st.orelse, True):
                return False
        elif isinstance(st, ast.Try) and not st.finalbody:
            # `try: return E except T: return F` as the last statement: the returns are in tail position too
            body_tail = is_last and not st.orelse
            if not (_tail_returns_only(st.body, body_tail) and _tail_returns_only(st.orelse, is_last) and all(_tail_returns_only(h.body, is_last) for h in st.handlers)):
                return False
        elif isinstance(st, SCOPE):
            continue
        else:
            if any(isinstance(x, ast.Return) for x in _walk_no_scope(st)):
                return False
    return True


def _walk_no_scope(n):
    yield n
    for c in ast.iter_child_nodes(n):
        if isinstance(c, SCOPE) or isinstance(c, ast.Lambda):
            continue
        yield from _walk_no_scope(c)


def _map_returns(stmts, make):
    out = []
    for st in stmts:
        if isinstance(st, ast.Return):
            out.extend(make(st))
        elif isinstance(st, ast.If):
            st.body = _map_returns(st.body, make)
            st.orelse = _map_returns(st.orelse, make)
            out.append(st)
        elif isinstance(st, ast.For) and st.orelse and _loop_returns(st):
            st.body = _map_returns(st.body, lambda r, make=make: [*make(r), L(ast.Break(), r)])
            st.orelse = _map_returns(st.orelse, make)
            out.append(st)
        elif isinstance(st, ast.Try):
            st.body = _map_returns(st.body, make) or [L(ast.Pass(), st)]
            st.orelse = _map_returns(st.orelse, make)
            for h in st.handlers:
                h.body = _map_returns(h.body, make) or [L(ast.Pass(), h)]
            out.append(st)
        else:
            out.append(st)
    return out


class _Subst(ast.NodeTransformer):
    def __init__(self, mapping):
        self.mapping = mapping

    def visit_Name(self, n):
        if n.id in self.mapping and isinstance(n.ctx, ast.Load):
            return L(copy.deepcopy(self.mapping[n.id]), n)
        return n


def _helper_instance(helper, call, caller_names: set, is_method: bool, site_targets=None, site_in_try: bool = True):
    """(prologue statements, body statements) of the helper specialised for the call, or None."""
    a = helper.args
    if a.vararg or a.kwarg or a.kwonlyargs or a.posonlyargs or any(isinstance(x, ast.Starred) for x in call.args) or any(k.arg is None for k in call.keywords):
        return None
    if any(isinstance(x, (ast.Yield, ast.YieldFrom, ast.Await, ast.Global, ast.Nonlocal)) for x in own_walk(helper)) or isinstance(helper, ast.AsyncFunctionDef):
        return None
    if helper.decorator_list:
        return None      # a decorated function is not its body (@cache, @staticmethod, ...)
    has_nested = any(isinstance(x, SCOPE) for x in own_walk(helper))
    if has_nested and not all(isinstance(v, (ast.Name, ast.Constant)) for v in list(call.args) + [k.value for k in call.keywords]):
        return None      # a closure made by the helper captures its parameters: only plain names can take their place
    names = [x.arg for x in a.args]
    if is_method:
        if not names:
            return None
        names = names[1:]
    defaults = dict(zip(reversed(names), reversed(a.defaults)))
    bound = {}
    for n, v in zip(names, call.args):
        bound[n] = v
    if len(call.args) > len(names):
        return None
    for k in call.keywords:
        if k.arg not in names or k.arg in bound:
            return None
        bound[k.arg] = k.value
    for n in names:
        if n not in bound:
            if n not in defaults:
                return None
            bound[n] = defaults[n]
    hcopy = copy.deepcopy(helper)
    for _ in range(10):      # the helper's own temporaries first: a one-expression body can be inlined anywhere
        if not inline_fresh(hcopy, set(), {x.attr for x in own_walk(hcopy) if isinstance(x, ast.Attribute) and isinstance(x.ctx, (ast.Store, ast.Del))}):
            break
    body = hcopy.body
    if body and isinstance(body[0], ast.Expr) and isinstance(body[0].value, ast.Constant) and isinstance(body[0].value.value, str):
        body = body[1:]
    holder = ast.Module(body=body, type_ignores=[])
    stored = {x.id for x in ast.walk(holder) if isinstance(x, ast.Name) and isinstance(x.ctx, (ast.Store, ast.Del))} | {x.name for x in ast.walk(holder) if isinstance(x, ast.ExceptHandler) and x.name}
    # `t1, t2 = helper(...)` where the helper ends with `return a, b`: a and b simply are t1 and t2
    ret_names = {}
    if site_targets and holder.body and isinstance(holder.body[-1], ast.Return) and holder.body[-1].value is not None \
            and sum(1 for x in ast.walk(holder) if isinstance(x, ast.Return)) == 1:
        rv = holder.body[-1].value
        rvs = rv.elts if isinstance(rv, ast.Tuple) else [rv]
        if len(rvs) == len(site_targets) and all(isinstance(x, ast.Name) for x in rvs) and len({x.id for x in rvs}) == len(rvs):
            for x, tname in zip(rvs, site_targets):
                others = {y.id for y in ast.walk(holder) if isinstance(y, ast.Name)} - {x.id}
                if tname != x.id and tname in others:
                    ret_names = {}
                    break
                ret_names[x.id] = tname
    if ret_names:
        for x in ast.walk(holder):
            if isinstance(x, ast.Name) and x.id in ret_names:
                x.id = ret_names[x.id]
        names_map = {n: ret_names.get(n, n) for n in names}
        bound = {names_map[n]: v for n, v in bound.items()}
        names = [names_map[n] for n in names]
        stored = {ret_names.get(n, n) for n in stored}
    keep = set(site_targets or ()) if ret_names else set()
    if site_targets and not site_in_try:
        # parameters rebound by the helper whose argument is a target of the call statement keep that name (see below)
        for n_, v_ in bound.items():
            if n_ in stored and isinstance(v_, ast.Name) and v_.id in site_targets and v_.id == n_:
                keep.add(n_)
    # helper locals that clash with the caller's names are renamed
    ren = {}
    for nm in sorted(stored):
        if nm in keep:
            continue
        if nm in caller_names and nm not in names:
            k = nm + "_h"
            while k in caller_names or k in stored:
                k += "_"
            ren[nm] = k
    for x in ast.walk(holder):
        if isinstance(x, ast.Name) and x.id in ren:
            x.id = ren[x.id]
        elif isinstance(x, ast.ExceptHandler) and x.name in ren:
            x.name = ren[x.name]
    prologue, mapping = [], {}
    for n in names:
        v = bound[n]
        n_reads = sum(1 for x in ast.walk(holder) if isinstance(x, ast.Name) and x.id == n and isinstance(x.ctx, ast.Load))
        if n not in stored and (isinstance(v, (ast.Name, ast.Constant)) or (pure(v) and True) or n_reads <= 1 and _read_first(holder, n)):
            mapping[n] = v
        elif n in stored and isinstance(v, ast.Name) and v.id == n and n in keep:
            pass      # `data = helper(data)`: the parameter is the caller's variable, rebound by the call's result anyway
        elif n in stored and isinstance(v, ast.Name) and site_targets and v.id in site_targets and not site_in_try and (v.id == n or v.id not in {x.id for x in ast.walk(holder) if isinstance(x, ast.Name)}):
            # `a, b = helper(a, ...)`: a is overwritten by the call anyway and nothing can observe it in between (the call is not in a
            # try body of the caller): the helper's working copy of the parameter is a itself
            if v.id != n:
                for x in ast.walk(holder):
                    if isinstance(x, ast.Name) and x.id == n:
                        x.id = v.id
        else:
            k = n
            while k in caller_names:
                k += "_h"
            if k != n:
                for x in ast.walk(holder):
                    if isinstance(x, ast.Name) and x.id == n:
                        x.id = k
            prologue.append(L(ast.Assign(targets=[L(ast.Name(id=k, ctx=ast.Store()), call)], value=copy.deepcopy(v)), call))
    _Subst(mapping).visit(holder)
    for x in ast.walk(holder):
        if hasattr(x, "lineno"):
            x.lineno = call.lineno
            x.end_lineno = getattr(call, "end_lineno", call.lineno)
            x.col_offset = call.col_offset
            x.end_col_offset = getattr(call, "end_col_offset", call.col_offset)
    return prologue, holder.body


def _read_first(holder, name) -> bool:
    """the only read of the parameter is evaluated before any call of the body (so the argument is evaluated at the same point)."""
    for st in holder.body[:1]:
        head = st.test if isinstance(st, (ast.If, ast.While)) else st.iter if isinstance(st, ast.For) else st
        for x in ast.walk(head):
            if isinstance(x, ast.Name) and x.id == name:
                return not any(isinstance(c, ast.Call) and (c.end_lineno, c.end_col_offset) <= (x.lineno, x.col_offset) for c in ast.walk(head))
    return False


def inline_helpers(tree: ast.Module, known_paths: set, functions) -> int:
    """every call of a private function / method that the reference does not know is replaced by its body when the
    call site allows it (statement-level call, `x = call`, `return call`, or a one-expression helper anywhere)."""
    n_inlined = 0
    helpers = {}
    for q, fn in functions:
        if q in known_paths:
            continue
        parts = q.split(".")
        if len(parts) == 1:
            helpers[("fn", fn.name)] = fn
        elif len(parts) == 2 and "#" not in parts[0]:
            helpers[("meth", parts[0], fn.name)] = fn
    for q, fn in functions:
        if q in known_paths or "." not in q:
            continue
        parent = q.rsplit(".", 1)[0]
        if "#" in parent.rsplit(".", 1)[-1] and parent in known_paths:
            helpers[("nested", parent, fn.name)] = fn
    if not helpers:
        return 0
    for q, caller in functions:
        if q not in known_paths:
            continue
        cls = q.split(".")[0] if "." in q and "#" not in q.split(".")[0] else None
        scope_parents = {q} | {q.rsplit(".", k)[0] for k in range(1, q.count(".") + 1)}
        for _ in range(6):
            changed = False
            caller_names = {x.id for x in ast.walk(caller) if isinstance(x, ast.Name)} | params_of(caller)
            for owner, field, stmts in blocks(caller):
                for i, st in enumerate(stmts):
                    if isinstance(st, SCOPE):
                        continue
                    head = st.test if isinstance(st, (ast.If, ast.While)) else st.iter if isinstance(st, (ast.For, ast.AsyncFor)) else st if not isinstance(st, (ast.With, ast.Try)) else None
                    if head is None:
                        continue
                    for c in ast.walk(head):
                        h = None
                        if isinstance(c, ast.Call) and isinstance(c.func, ast.Name) and ("fn", c.func.id) in helpers:
                            h, is_m = helpers[("fn", c.func.id)], False
                        elif isinstance(c, ast.Call) and isinstance(c.func, ast.Attribute) and isinstance(c.func.value, ast.Name) and c.func.value.id == "self" and cls and ("meth", cls, c.func.attr) in helpers:
                            h, is_m = helpers[("meth", cls, c.func.attr)], True
                        elif isinstance(c, ast.Call) and isinstance(c.func, ast.Name) and any(("nested", p_, c.func.id) in helpers for p_ in scope_parents):
                            h, is_m = next(helpers[("nested", p_, c.func.id)] for p_ in scope_parents if ("nested", p_, c.func.id) in helpers), False
                        elif isinstance(c, ast.Name) and isinstance(c.ctx, ast.Load) and not _is_call_func(head, c) and (("fn", c.id) in helpers or any(("nested", p_, c.id) in helpers for p_ in scope_parents)):
                            # a reference to a one-expression helper: a lambda
                            hh = helpers[("fn", c.id)] if ("fn", c.id) in helpers else next(helpers[("nested", p_, c.id)] for p_ in scope_parents if ("nested", p_, c.id) in helpers)
                            hb = [s for s in hh.body if not (isinstance(s, ast.Expr) and isinstance(s.value, ast.Constant))]
                            if len(hb) == 1 and isinstance(hb[0], ast.Return) and hb[0].value is not None and not hh.args.defaults and not hh.decorator_list:
                                lam = L(ast.Lambda(args=copy.deepcopy(hh.args), body=copy.deepcopy(hb[0].value)), c)
                                for a_ in lam.args.args:
                                    a_.annotation = None
                                stmts[i] = _replace_expr(st, c, lam)
                                changed = True
                                break
                            continue
                        if h is None:
                            continue
                        site_targets = None
                        if head is st and isinstance(st, ast.Assign) and st.value is c and len(st.targets) == 1:
                            tg = st.targets[0]
                            tgs = tg.elts if isinstance(tg, ast.Tuple) else [tg]
                            if all(isinstance(x, ast.Name) for x in tgs):
                                site_targets = [x.id for x in tgs]
                        in_try = any(isinstance(t_, ast.Try) and any(any(z is st for z in ast.walk(b_)) for b_ in t_.body) for t_ in ast.walk(caller))
                        inst = _helper_instance(h, c, caller_names, is_m, site_targets, in_try)
                        if inst is None:
                            continue
                        prologue, body = inst
                        body = _tailify(body)
                        as_expr = _returns_to_ifexp(body)
                        if as_expr is not None and not prologue:
                            body = [L(ast.Return(value=as_expr), c)]
                        new = None
                        if len(body) == 1 and isinstance(body[0], ast.Return) and body[0].value is not None and not prologue:
                            new = [_replace_expr(st, c, body[0].value)]
                        elif head is st and isinstance(st, ast.Return) and st.value is c:
                            new = prologue + body + ([] if exits(body) else [L(ast.Return(value=None), st)])
                        elif head is st and isinstance(st, ast.Expr) and st.value is c and _tail_returns_only(body):
                            def mk(r):
                                return [] if r.value is None or isinstance(r.value, (ast.Constant, ast.Name)) else [L(ast.Expr(value=r.value), r)]
                            new = prologue + (_map_returns(body, mk) or [L(ast.Pass(), st)])
                            new = _drop_empty(new)
                        elif head is st and isinstance(st, (ast.Assign, ast.AnnAssign)) and st.value is c and _tail_returns_only(body) and _all_tails_return(body):
                            def mk(r, st=st):
                                a_ = copy.deepcopy(st)
                                a_.value = r.value if r.value is not None else L(ast.Constant(value=None), r)
                                if isinstance(a_, ast.Assign) and len(a_.targets) == 1 and ast.dump(_strip_ctx(a_.targets[0])) == ast.dump(_strip_ctx(a_.value)):
                                    return []      # `t1, t2 = (t1, t2)`
                                if isinstance(a_, ast.Assign) and len(a_.targets) == 1 and isinstance(a_.targets[0], ast.Tuple) and isinstance(a_.value, ast.Tuple) \
                                        and len(a_.targets[0].elts) == len(a_.value.elts) and all(isinstance(t, ast.Name) for t in a_.targets[0].elts) \
                                        and not any(mentions(v, t.id) for v in a_.value.elts for t in a_.targets[0].elts):
                                    # `t1, t2 = (e1, e2)` with independent sides: one assignment each
                                    return [L(ast.Assign(targets=[t], value=v), a_) for t, v in zip(a_.targets[0].elts, a_.value.elts)]
                                return [a_]
                            new = prologue + _map_returns(body, mk)
                        elif body and isinstance(body[-1], ast.Return) and body[-1].value is not None and _tail_returns_only(body) and not any(isinstance(x, ast.Return) for s in body[:-1] for x in _walk_no_scope(s)):
                            # statements + one final `return E`: statements first, E in place of the call - the call must be the first thing evaluated
                            if _evaluated_first(head, c) and not _deferred(head, c) and not isinstance(st, (ast.While,)):
                                new = prologue + body[:-1] + [_replace_expr(st, c, body[-1].value)]
                        if new is None and isinstance(st, ast.If) and not st.orelse and isinstance(st.test, ast.BoolOp) and isinstance(st.test.op, ast.And) \
                                and st.test.values[-1] is c and _tail_returns_only(body) and _all_tails_return(body):
                            # `if A and helper(): S`: the helper only runs when A holds - `if A: (if helper(): S)`, the inner test is handled next round
                            rest_vals = st.test.values[:-1]
                            inner = L(ast.If(test=c, body=st.body, orelse=[]), st)
                            st.test = rest_vals[0] if len(rest_vals) == 1 else L(ast.BoolOp(op=ast.And(), values=rest_vals), st.test)
                            st.body = [inner, L(ast.Pass(), st)]      # the `pass` keeps the shape step from merging the two ifs back before the inlining
                            changed = True
                            break
                        if new is None:
                            # the call sits inside a larger expression: give it a statement of its own first (when it is the
                            # first thing the statement evaluates), the next round inlines `tmp = helper(...)`
                            if _tail_returns_only(body) and _all_tails_return(body) and not isinstance(st, ast.While) and _evaluated_first(head, c) \
                                    and not _deferred(head, c) and not (isinstance(st, (ast.Assign, ast.AnnAssign, ast.Return, ast.Expr)) and st.value is c):
                                tmp_n = sum(1 for x in ast.walk(caller) if isinstance(x, ast.Name) and x.id.startswith("_xk"))
                                tmp = f"_xk{tmp_n}h"
                                asg = L(ast.Assign(targets=[L(ast.Name(id=tmp, ctx=ast.Store()), c)], value=c), st)
                                ld = L(ast.Name(id=tmp, ctx=ast.Load()), c)
                                if isinstance(st, (ast.If,)):
                                    st.test = _replace_expr(st.test, c, ld)
                                elif isinstance(st, (ast.For, ast.AsyncFor)):
                                    st.iter = _replace_expr(st.iter, c, ld)
                                else:
                                    stmts[i] = _replace_expr(st, c, ld)
                                stmts.insert(i, asg)
                                changed = True
                                break
                            continue
                        stmts[i:i + 1] = new
                        changed = True
                        n_inlined += 1
                        break
                    if changed:
                        break
                if changed:
                    break
            if not changed:
                break
    for owner in ast.walk(tree):
        for field in ("body", "orelse", "finalbody"):
            stmts = getattr(owner, field, None)
            if isinstance(stmts, list) and len(stmts) > 1 and any(isinstance(x, ast.Pass) for x in stmts):
                stmts[:] = [x for x in stmts if not isinstance(x, ast.Pass)] or [stmts[0]]
    if n_inlined:
        # a helper that the reference does not know and that nothing refers to any more is dropped: what it did is now
        # analysed where it is done
        for key, h in helpers.items():
            name = h.name
            refs = [x for x in ast.walk(tree) if (isinstance(x, ast.Name) and x.id == name) or (isinstance(x, ast.Attribute) and x.attr == name)]
            refs = [x for x in refs if not any(x is y for y in ast.walk(h))]
            if refs or any(isinstance(c, ast.Constant) and c.value == name for c in ast.walk(tree)):
                continue
            for owner in ast.walk(tree):
                for field in ("body", "orelse", "finalbody"):
                    stmts = getattr(owner, field, None)
                    if isinstance(stmts, list) and h in stmts:
                        stmts.remove(h)
                        if not stmts:
                            stmts.append(ast.copy_location(ast.Pass(), h))
    return n_inlined


def _returns_to_ifexp(stmts):
    """an if / else tree whose leaves are `return E` as one conditional expression (None when the body has another shape)."""
    if len(stmts) == 1 and isinstance(stmts[0], ast.Return) and stmts[0].value is not None:
        return stmts[0].value
    if len(stmts) == 1 and isinstance(stmts[0], ast.If) and stmts[0].orelse:
        a, b = _returns_to_ifexp(stmts[0].body), _returns_to_ifexp(stmts[0].orelse)
        if a is not None and b is not None:
            return L(ast.IfExp(test=stmts[0].test, body=a, orelse=b), stmts[0])
    return None


def _is_call_func(root, name_node) -> bool:
    return any(isinstance(x, ast.Call) and x.func is name_node for x in ast.walk(root))


def _all_tails_return(stmts) -> bool:
    if not stmts:
        return False
    s = stmts[-1]
    if isinstance(s, ast.Return):
        return True
    if isinstance(s, ast.If) and s.orelse:
        return _all_tails_return(s.body) and _all_tails_return(s.orelse)
    if isinstance(s, ast.Raise):
        return True
    if isinstance(s, ast.Try) and not s.finalbody and s.handlers:
        return _all_tails_return(s.orelse if s.orelse else s.body) and all(_all_tails_return(h.body) for h in s.handlers)
    if isinstance(s, ast.For) and s.orelse and _loop_returns(s):
        return _all_tails_return(s.orelse)
    return False


def _drop_empty(stmts):
    out = []
    for st in stmts:
        if isinstance(st, ast.If):
            st.body = _drop_empty(st.body)
            st.orelse = _drop_empty(st.orelse)
            if not st.body and not st.orelse:
                if pure(st.test):
                    continue
                st.body = [L(ast.Pass(), st)]
            elif not st.body:
                st.test = neg_plain(st.test)
                st.body, st.orelse = st.orelse, []
        out.append(st)
    return out


# ------------------------------------------------------------------------------------------------ module constants / nested names
def inline_module_constants(tree: ast.Module, known: set) -> int:
    n = 0
    for st in list(tree.body):
        if isinstance(st, ast.Assign) and len(st.targets) == 1 and isinstance(st.targets[0], ast.Name):
            nm, v = st.targets[0].id, st.value
        elif isinstance(st, ast.AnnAssign) and isinstance(st.target, ast.Name) and st.value is not None:
            nm, v = st.target.id, st.value
        else:
            continue
        if nm in known or not nm.startswith("_") or nm.startswith("__"):
            continue
        lit = v.args[0] if isinstance(v, ast.Call) and isinstance(v.func, ast.Name) and v.func.id in ("frozenset", "tuple") and len(v.args) == 1 else v
        if not (isinstance(lit, ast.Constant) or (isinstance(lit, (ast.Set, ast.Tuple, ast.List)) and all(isinstance(e, ast.Constant) for e in lit.elts))):
            continue
        stores = [x for x in ast.walk(tree) if isinstance(x, ast.Name) and x.id == nm and isinstance(x.ctx, (ast.Store, ast.Del))]
        if len(stores) != 1:
            continue

        class P(ast.NodeTransformer):
            def visit_Name(self, x):
                return L(copy.deepcopy(v), x) if x.id == nm and isinstance(x.ctx, ast.Load) else x
        for other in tree.body:
            if other is not st:
                P().visit(other)
        n += 1
    return n


def restore_nested_def_names(fn, ref_nested: List[str]) -> int:
    cur = [n for n in own_walk(fn) if isinstance(n, FUNC)]
    cur.sort(key=lambda n: (n.lineno, n.col_offset))
    cur_names = [n.name for n in cur]
    missing = [r for r in ref_nested if r not in cur_names]
    extra = [n for n in cur if n.name not in ref_nested]
    if not missing or len(missing) != len(extra):
        return 0
    used = {x.id for x in ast.walk(fn) if isinstance(x, ast.Name)}
    k = 0
    for node, new in zip(extra, missing):
        if new in used:
            continue
        old = node.name
        node.name = new
        for x in ast.walk(fn):
            if isinstance(x, ast.Name) and x.id == old:
                x.id = new
        k += 1
    return k


def restore_nested_params(fn, ref_params: List[str]) -> int:
    """a nested function is only called positionally by its siblings (checked: no keyword call in the parent): its parameters
    are given back the reference names."""
    cur = [a.arg for a in fn.args.args]
    if len(cur) != len(ref_params) or cur == ref_params or fn.args.kwonlyargs or fn.args.vararg or fn.args.kwarg:
        return 0
    used = {x.id for x in ast.walk(fn) if isinstance(x, ast.Name)} | set(cur)
    k = 0
    for a, new in zip(fn.args.args, ref_params):
        if a.arg != new and new not in used:
            old = a.arg
            a.arg = new
            for x in ast.walk(fn):
                if isinstance(x, ast.Name) and x.id == old:
                    x.id = new
            k += 1
    return k


# ------------------------------------------------------------------------------------------------ driver
def _unmatched_stmt_ids(fn, ref_fps):
    """ids of the statements (and of everything inside their headers) whose fingerprint has no partner in the reference."""
    names = local_names(fn)
    want = Counter(ref_fps)
    pairs = []

    def rec(stmts, depth):
        for s_ in stmts:
            if isinstance(s_, ast.If):
                pairs.append((f"{depth}:if {_u(s_.test, names)}{' +else' if s_.orelse else ''}", s_))
                rec(s_.body, depth + 1)
                rec(s_.orelse, depth + 1)
            elif isinstance(s_, (ast.For, ast.AsyncFor)):
                pairs.append((f"{depth}:for {_u(s_.target, names)} in {_u(s_.iter, names)}{' +else' if s_.orelse else ''}", s_))
                rec(s_.body, depth + 1)
                rec(s_.orelse, depth + 1)
            elif isinstance(s_, ast.While):
                pairs.append((f"{depth}:while {_u(s_.test, names)}", s_))
                rec(s_.body, depth + 1)
                rec(s_.orelse, depth + 1)
            elif isinstance(s_, (ast.With, ast.AsyncWith)):
                pairs.append((f"{depth}:with " + ", ".join(_u(i.context_expr, names) for i in s_.items), s_))
                rec(s_.body, depth + 1)
            elif isinstance(s_, ast.Try):
                pairs.append((f"{depth}:try{' +else' if s_.orelse else ''}{' +finally' if s_.finalbody else ''}", s_))
                rec(s_.body, depth + 1)
                for h in s_.handlers:
                    pairs.append((f"{depth}:except {_u(h.type, names) if h.type is not None else ''}", h))
                    rec(h.body, depth + 1)
                rec(s_.orelse, depth + 1)
                rec(s_.finalbody, depth + 1)
            elif isinstance(s_, FUNC):
                pairs.append((f"{depth}:def ({len(s_.args.args)})", s_))
            elif isinstance(s_, ast.ClassDef):
                pairs.append((f"{depth}:class", s_))
            elif isinstance(s_, ast.Expr) and isinstance(s_.value, ast.Constant) and isinstance(s_.value.value, str):
                continue
            else:
                pairs.append((f"{depth}:{_u(s_, names)}", s_))
    rec(fn.body, 0)
    out = set()
    for fp, node in pairs:
        if want[fp] > 0:
            want[fp] -= 1
        else:
            out.add(id(node))
    return out


SIMPLIFYING = {"copy-coalesce", "drop-tail-return", "break-flag-return", "try-flag-in"}      # remove a redundancy: accepted when nothing that matched is lost
DUPLICATING = {"push-tail", "push-exit-deep", "unhoist", "if-split", "and-else-out", "ifexp-callee-out", "expand-local"}


def direct_function(fn, ref_fps: List[str], known_names: set, stored_attrs, normalise: Callable, budget: int = 1500) -> int:
    """best-first search over the semantics-preserving rewrites. A state is better when MORE of its statements are spelled like
    the reference (fewer statements alone is not progress: the function would end in a third spelling nobody wrote). States
    that are not better are explored up to three rewrites deep, because some spellings are two or three rewrites apart.
    Returns the number of statements of the result that still differ."""
    import heapq
    import types
    debug = os.environ.get("CANON_DEBUG")
    ref_counter = Counter(ref_fps)

    def score(f):
        fps = fingerprints(f)
        a = Counter(fps)
        matched = sum((a & ref_counter).values())
        unmatched = sum(((a - ref_counter) + (ref_counter - a)).values())
        return matched, unmatched, tuple(fps)

    def settle(f):
        # inlining of fresh temporaries: applied as long as no matched statement is lost
        for _ in range(30):
            if not inline_fresh(f, known_names, stored_attrs, dry=True):
                break
            m0 = score(f)[0]
            trial = copy.deepcopy(f)
            if not inline_fresh(trial, known_names, stored_attrs):
                break
            normalise(trial)
            if score(trial)[0] < m0:
                break
            f.body = trial.body
        normalise(f)

    # deterministic cost bound: an evaluation costs as many units as the function has statements
    size = max(1, len(ref_fps))
    budget = max(60, min(budget, 90000 // size))
    cur = copy.deepcopy(fn)
    settle(cur)
    m, u, k0 = score(cur)
    seen = {k0}
    evals = 0
    counter = 0
    heap = [((-m, u), 0, counter, cur)]
    best, best_m, best_u = cur, m, u
    tier = 1          # rewrites that duplicate statements (DUPLICATING) are only tried when the others are exhausted
    stall = max(150, budget // 5)
    last_gain = 0
    while best_u > 0 and evals < budget:
        if evals - last_gain > stall:
            # no progress for a long while (typically a function whose behaviour changed: it cannot be brought back): next tier, then stop
            if tier == 2:
                break
            heap = []
            last_gain = evals
        if tier == 1 and evals > 0.6 * budget:
            heap = []          # keep a share of the budget for the rewrites of the second tier
        if not heap:
            if tier == 2:
                break
            tier = 2
            seen = {score(best)[2]}
            heap = [((-best_m, best_u), 0, counter, best)]
        (neg_m, u_), depth_, _, state = heapq.heappop(heap)
        hot = _unmatched_stmt_ids(state, ref_fps)
        near = _near_index(state, hot)
        cs_state = candidates_all(state, stored_attrs, ref_fps)
        todo = [k for k, (kind_, _, anchor) in enumerate(cs_state) if (anchor is None or near(anchor)) and (tier == 2 or kind_.rstrip("0123456789") not in DUPLICATING)]
        restarted = False
        for k in todo:
            kind, f0, anchor = cs_state[k]
            memo: dict = {}
            t = copy.deepcopy(state, memo)
            if f0.__closure__ is None:
                # the rewrite is bound to the nodes of `state` through its default arguments: rebind them to the copy
                apply = types.FunctionType(f0.__code__, f0.__globals__, f0.__name__, tuple(copy.deepcopy(v, memo) for v in (f0.__defaults__ or ())), None)
            else:
                cs = candidates_all(t, stored_attrs, ref_fps)
                if k >= len(cs) or cs[k][0] != kind:
                    continue
                apply = cs[k][1]
            try:
                apply()
                settle(t)
                tm, tu, kk = score(t)
            except Exception as ex:       # a rewrite that cannot be applied here
                if debug:
                    print("canon_rw:", kind, "failed:", repr(ex))
                continue
            evals += 1
            if kk in seen:
                continue
            seen.add(kk)
            if tm > best_m or (tm == best_m and tu < best_u and (tu == 0 or kind.rstrip("0123456789") in SIMPLIFYING)):
                if debug:
                    print(f"canon_rw: {fn.name}: {kind}: matched {best_m} -> {tm}, different {best_u} -> {tu}")
                best, best_m, best_u = t, tm, tu
                last_gain = evals
                counter += 1
                heap = [((-tm, tu), 0, counter, t)]      # restart from the improvement
                tier = 1
                restarted = True
                break
            if depth_ < 3 and tm >= best_m - 1:
                counter += 1
                heapq.heappush(heap, ((-tm, tu), depth_ + 1, counter, t))
            if evals >= budget:
                break
        if restarted:
            continue
    if best_m > score(fn)[0] or (best is not cur and best_m == score(fn)[0] and best_u < score(fn)[1]):
        fn.body = best.body
    elif score(cur)[0] >= score(fn)[0] and score(cur)[1] < score(fn)[1]:
        fn.body = cur.body
    return best_u


def _near_index(fn, hot):
    """predicate: the node belongs to (or is next to, or contains) a statement that differs from the reference."""
    stmt_of, hot_zone = {}, set()
    for owner, field, stmts in blocks(fn):
        for i, st in enumerate(stmts):
            inner = list(_walk_no_scope(st)) if not isinstance(st, SCOPE) else [st]
            for x in inner:
                stmt_of.setdefault(id(x), st) if False else None
            zone_hot = id(owner) in hot or any(id(x) in hot for x in stmts[max(0, i - 1):i + 3]) or any(id(x) in hot for x in inner)
            if zone_hot:
                hot_zone.add(id(st))
            for x in inner:
                # innermost statement wins: blocks() lists outer blocks first, so later assignments overwrite
                stmt_of[id(x)] = st
    # a node inside a nested statement is also inside the outer ones: propagate the zone outwards
    def near(anchor) -> bool:
        if not hot:
            return False
        if id(anchor) in hot:
            return True
        st = stmt_of.get(id(anchor))
        return st is not None and id(st) in hot_zone
    return near


def candidates_all(fn, stored_attrs, ref_fps):
    """[(kind, apply, anchor statement or None)]"""
    out = []
    inside = None
    for kind, f in candidates(fn, stored_attrs):
        anchor = None
        dfl = f.__defaults__ or ()
        if inside is None:
            inside = {id(x) for x in ast.walk(fn)} - {id(fn)}
        for v in dfl:
            if isinstance(v, ast.stmt) and id(v) in inside:
                anchor = v
                break
        if anchor is None:
            for v in dfl:
                if isinstance(v, ast.AST) and id(v) in inside:
                    anchor = v
                    break
        out.append((kind, f, anchor))
    for kind, f in extract_known(fn, ref_fps):
        out.append((kind, f, None))
    return out


# ------------------------------------------------------------------------------------------------ second batch of rewrites
CONSUMERS = {"all", "any", "tuple", "set", "frozenset", "sorted", "sum", "min", "max", "list", "dict"}
CONSUMER_METHODS = {"join", "update", "extend", "fromkeys", "difference_update", "intersection_update", "symmetric_difference_update", "union", "difference", "intersection", "issubset", "issuperset", "isdisjoint"}


def _enclosing_stmt_map(fn):
    m = {}
    for owner, field, stmts in blocks(fn):
        for st in stmts:
            for x in _walk_no_scope(st) if not isinstance(st, SCOPE) else [st]:
                if id(x) not in m or True:
                    m.setdefault(id(x), st)
    return m


def candidates2(fn, stored_attrs) -> List[Cand]:
    out: List[Cand] = []
    top = fn.body
    for owner, field, stmts in blocks(fn):
        in_loop = isinstance(owner, (ast.For, ast.AsyncFor, ast.While)) and field == "body"
        for i, st in enumerate(stmts):
            rest = stmts[i + 1:]
            # else-out-suffix: `if c: ..exit else: S1; S2`  ->  `if c: ..exit else: S1` + S2
            if isinstance(st, ast.If) and exits(st.body):
                last = st
                while len(last.orelse) == 1 and isinstance(last.orelse[0], ast.If) and exits(last.orelse[0].body):
                    last = last.orelse[0]
                if len(last.orelse) >= 2 and not (len(last.orelse) == 1 and isinstance(last.orelse[0], ast.If)):
                    for j in range(1, len(last.orelse)):
                        def f(stmts=stmts, i=i, last=last, j=j):
                            moved = last.orelse[j:]
                            del last.orelse[j:]
                            stmts[i + 1:i + 1] = moved
                        out.append((f"else-out-suffix{j}", f))
            # any / all / next  <->  loop with early return
            if isinstance(st, ast.For) and not st.orelse and len(st.body) == 1 and isinstance(st.body[0], ast.If) and not st.body[0].orelse and len(st.body[0].body) == 1 \
                    and isinstance(st.body[0].body[0], ast.Return) and st.body[0].body[0].value is not None and len(rest) == 1 and isinstance(rest[0], ast.Return) and rest[0].value is not None:
                inner, r1, r2 = st.body[0], st.body[0].body[0].value, rest[0].value
                gen = lambda elt, ifs: L(ast.GeneratorExp(elt=elt, generators=[ast.comprehension(target=st.target, iter=st.iter, ifs=ifs, is_async=0)]), st)
                call = lambda name, args: L(ast.Call(func=L(ast.Name(id=name, ctx=ast.Load()), st), args=args, keywords=[]), st)
                new = None
                if isinstance(r1, ast.Constant) and isinstance(r2, ast.Constant) and r1.value is False and r2.value is True:
                    new = call("all", [gen(neg_plain(inner.test), [])])
                elif isinstance(r1, ast.Constant) and isinstance(r2, ast.Constant) and r1.value is True and r2.value is False:
                    new = call("any", [gen(inner.test, [])])
                elif isinstance(st.target, ast.Name) and isinstance(r1, ast.Name) and r1.id == st.target.id:
                    new = call("next", [gen(L(ast.Name(id=r1.id, ctx=ast.Load()), st), [inner.test]), r2])
                if new is not None:
                    def f(stmts=stmts, i=i, new=new, st=st):
                        stmts[i:] = [L(ast.Return(value=new), st)]
                    out.append(("loop-anyall", f))
            if isinstance(st, ast.Return) and isinstance(st.value, ast.Call) and isinstance(st.value.func, ast.Name) and st.value.func.id in ("any", "all", "next") and st.value.args \
                    and isinstance(st.value.args[0], ast.GeneratorExp) and len(st.value.args[0].generators) == 1 and not st.value.keywords:
                g = st.value.args[0]
                c = g.generators[0]
                kind = st.value.func.id
                if kind in ("any", "all") and len(st.value.args) == 1 and not c.ifs:
                    def f(stmts=stmts, i=i, st=st, g=g, c=c, kind=kind):
                        test = g.elt if kind == "any" else neg_plain(g.elt)
                        body = L(ast.If(test=test, body=[L(ast.Return(value=L(ast.Constant(value=(kind == "any")), st)), st)], orelse=[]), st)
                        stmts[i:i + 1] = [L(ast.For(target=c.target, iter=c.iter, body=[body], orelse=[]), st), L(ast.Return(value=L(ast.Constant(value=(kind != "any")), st)), st)]
                    out.append(("anyall-loop", f))
                if kind == "next" and len(st.value.args) == 2 and len(c.ifs) == 1 and isinstance(g.elt, ast.Name) and isinstance(c.target, ast.Name) and g.elt.id == c.target.id:
                    def f(stmts=stmts, i=i, st=st, g=g, c=c):
                        body = L(ast.If(test=c.ifs[0], body=[L(ast.Return(value=g.elt), st)], orelse=[]), st)
                        stmts[i:i + 1] = [L(ast.For(target=c.target, iter=c.iter, body=[body], orelse=[]), st), L(ast.Return(value=st.value.args[1]), st)]
                    out.append(("next-loop", f))
            # loop-copy: `for a in it: ... x = a; break` (a fresh) -> `for x in it: ... break`
            if isinstance(st, ast.For) and st.orelse and exits(st.orelse):
                tn = [x.id for x in ast.walk(st.target) if isinstance(x, ast.Name)]
                for blk_owner, blk_field, b in blocks(st):
                    for j, c in enumerate(b[:-1]):
                        if isinstance(b[j + 1], ast.Break) and isinstance(c, ast.Assign) and len(c.targets) == 1 and ast.dump(_strip_ctx(c.value)) == ast.dump(_strip_ctx(st.target)):
                            xs = [x.id for x in ast.walk(c.targets[0]) if isinstance(x, ast.Name)]
                            if len(xs) != len(tn) or not all(isinstance(x, (ast.Name, ast.Tuple)) for x in ast.walk(c.targets[0]) if isinstance(x, ast.expr)):
                                continue
                            outside = [x for x in own_walk(fn) if isinstance(x, ast.Name) and x.id in tn and not any(x is y for y in ast.walk(st))]
                            inside_x = [x for x in ast.walk(st) if isinstance(x, ast.Name) and x.id in xs and not any(x is y for y in ast.walk(c))]
                            if outside or inside_x:
                                continue
                            def f(st=st, b=b, j=j, tn=tn, xs=xs):
                                ren = dict(zip(tn, xs))
                                del b[j]
                                for x in ast.walk(st):
                                    if isinstance(x, ast.Name) and x.id in ren:
                                        x.id = ren[x.id]
                            out.append(("loop-copy", f))
            # enumerate with an unused index
            if isinstance(st, (ast.For,)) and isinstance(st.iter, ast.Call) and isinstance(st.iter.func, ast.Name) and st.iter.func.id == "enumerate" and len(st.iter.args) == 1 and not st.iter.keywords \
                    and isinstance(st.target, ast.Tuple) and len(st.target.elts) == 2 and isinstance(st.target.elts[0], ast.Name):
                idx = st.target.elts[0].id
                if sum(1 for x in ast.walk(fn) if isinstance(x, ast.Name) and x.id == idx) == 1:
                    def f(st=st):
                        st.target, st.iter = st.target.elts[1], st.iter.args[0]
                    out.append(("enumerate-out", f))
            elif isinstance(st, ast.For) and not (isinstance(st.iter, ast.Call) and isinstance(st.iter.func, ast.Name) and st.iter.func.id in ("enumerate", "range", "zip")):
                def f(st=st):
                    st.target = L(ast.Tuple(elts=[L(ast.Name(id="_i", ctx=ast.Store()), st), st.target], ctx=ast.Store()), st)
                    st.iter = L(ast.Call(func=L(ast.Name(id="enumerate", ctx=ast.Load()), st), args=[st.iter], keywords=[]), st)
                out.append(("enumerate-in", f))
            # return through a variable: `if c: return E` + `return x`  <->  `if c: x = E` + `return x`
            if isinstance(st, ast.If) and not st.orelse and len(rest) >= 1 and isinstance(rest[0], ast.Return) and isinstance(rest[0].value, ast.Name) and st.body:
                x = rest[0].value.id
                lastb = st.body[-1]
                if isinstance(lastb, ast.Return) and lastb.value is not None and x in (local_names(fn) | params_of(fn)):
                    def f(st=st, x=x, lastb=lastb):
                        st.body[-1] = L(ast.Assign(targets=[L(ast.Name(id=x, ctx=ast.Store()), lastb)], value=lastb.value), lastb)
                    out.append(("retvar-in", f))
                if isinstance(lastb, ast.Assign) and len(lastb.targets) == 1 and isinstance(lastb.targets[0], ast.Name) and lastb.targets[0].id == x:
                    def f(st=st, lastb=lastb):
                        st.body[-1] = L(ast.Return(value=lastb.value), lastb)
                    out.append(("retvar-out", f))
            # `if c: x = E` + `return G(x)`  ->  `if c: return G(E)` + `return G(x)`   (x read once, first, in G)
            if isinstance(st, ast.If) and not st.orelse and len(rest) == 1 and isinstance(rest[0], ast.Return) and rest[0].value is not None and not isinstance(rest[0].value, ast.Name) and st.body:
                lastb = st.body[-1]
                if isinstance(lastb, ast.Assign) and len(lastb.targets) == 1 and isinstance(lastb.targets[0], ast.Name):
                    x = lastb.targets[0].id
                    rs = [n for n in ast.walk(rest[0].value) if isinstance(n, ast.Name) and n.id == x]
                    if len(rs) == 1 and _evaluated_first(rest[0], rs[0]) and not _deferred(rest[0], rs[0]):
                        def f(st=st, lastb=lastb, ret=rest[0], r=rs[0]):
                            new_ret = copy.deepcopy(ret)
                            target = [n for n in ast.walk(new_ret.value) if isinstance(n, ast.Name) and n.id == r.id][0]
                            new_ret = _replace_expr(new_ret, target, lastb.value)
                            st.body[-1] = L(new_ret, lastb)
                        out.append(("assign-use-out", f))
            # default then conditional assignment  <->  if / else assignment
            if isinstance(st, (ast.Assign, ast.AnnAssign)) and rest and isinstance(rest[0], ast.If):
                tgt = st.targets[0] if isinstance(st, ast.Assign) and len(st.targets) == 1 else getattr(st, "target", None)
                nxt = rest[0]
                if isinstance(tgt, ast.Name) and st.value is not None and isinstance(st.value, (ast.Constant, ast.Name)):
                    leaves = []
                    cur = nxt
                    while True:
                        leaves.append(cur.body)
                        if len(cur.orelse) == 1 and isinstance(cur.orelse[0], ast.If):
                            cur = cur.orelse[0]
                            continue
                        break
                    assigns = all(any(isinstance(x, ast.Assign) and any(isinstance(t, ast.Name) and t.id == tgt.id for t in x.targets) for x in b) for b in leaves)
                    reads_x = any(isinstance(x, ast.Name) and x.id == tgt.id and isinstance(x.ctx, ast.Load) for x in ast.walk(nxt))
                    if not cur.orelse and assigns and not reads_x:
                        def f(stmts=stmts, i=i, st=st, cur=cur, tgt=tgt):
                            cur.orelse = [L(ast.Assign(targets=[L(ast.Name(id=tgt.id, ctx=ast.Store()), st)], value=st.value), st)]
                            if isinstance(st, ast.AnnAssign):
                                st.value = None
                            else:
                                del stmts[i]
                        out.append(("default-else-in", f))
            if isinstance(st, ast.If) and st.orelse:
                cur = st
                while len(cur.orelse) == 1 and isinstance(cur.orelse[0], ast.If):
                    cur = cur.orelse[0]
                if len(cur.orelse) == 1 and isinstance(cur.orelse[0], ast.Assign) and len(cur.orelse[0].targets) == 1 and isinstance(cur.orelse[0].targets[0], ast.Name) \
                        and isinstance(cur.orelse[0].value, (ast.Constant, ast.Name)):
                    x = cur.orelse[0].targets[0].id
                    if not any(isinstance(y, ast.Name) and y.id == x and isinstance(y.ctx, ast.Load) for y in ast.walk(st)) and not (isinstance(cur.orelse[0].value, ast.Name) and cur.orelse[0].value.id == x):
                        def f(stmts=stmts, i=i, cur=cur):
                            d = cur.orelse[0]
                            cur.orelse = []
                            # a bare annotation of the same name just before takes the value
                            if i > 0 and isinstance(stmts[i - 1], ast.AnnAssign) and stmts[i - 1].value is None and isinstance(stmts[i - 1].target, ast.Name) and stmts[i - 1].target.id == d.targets[0].id:
                                stmts[i - 1].value = d.value
                            else:
                                stmts.insert(i, d)
                        out.append(("default-else-out", f))
            # `if a: (if b: X else: Y) else: Y`  <->  `if a and b: X else: Y`
            if isinstance(st, ast.If) and st.orelse and len(st.body) == 1 and isinstance(st.body[0], ast.If) and st.body[0].orelse \
                    and [ast.dump(x) for x in st.body[0].orelse] == [ast.dump(x) for x in st.orelse]:
                def f(st=st):
                    inner = st.body[0]
                    a = st.test.values if isinstance(st.test, ast.BoolOp) and isinstance(st.test.op, ast.And) else [st.test]
                    b = inner.test.values if isinstance(inner.test, ast.BoolOp) and isinstance(inner.test.op, ast.And) else [inner.test]
                    st.test = L(ast.BoolOp(op=ast.And(), values=[*a, *b]), st.test)
                    st.body = inner.body
                out.append(("and-else-in", f))
            if isinstance(st, ast.If) and st.orelse and isinstance(st.test, ast.BoolOp) and isinstance(st.test.op, ast.And) and not (len(st.orelse) == 1 and isinstance(st.orelse[0], ast.If)):
                for j in range(1, len(st.test.values)):
                    def f(st=st, j=j):
                        a, b = st.test.values[:j], st.test.values[j:]
                        mk = lambda v: v[0] if len(v) == 1 else L(ast.BoolOp(op=ast.And(), values=v), st.test)
                        inner = L(ast.If(test=mk(b), body=st.body, orelse=copy.deepcopy(st.orelse)), st)
                        st.test = mk(a)
                        st.body = [inner]
                    out.append((f"and-else-out{j}", f))
            # nested-if split (no else): `if a and b: S` -> `if a: if b: S` is undone by the shape step; `if a: S1; S2` <-> `if a: S1` + `if a: S2`
            if isinstance(st, ast.If) and not st.orelse and len(st.body) >= 2 and pure(st.test):
                tn = {x.id for x in ast.walk(st.test) if isinstance(x, ast.Name)}
                for j in range(1, len(st.body)):
                    if not any(isinstance(x, ast.Name) and isinstance(x.ctx, ast.Store) and x.id in tn for s_ in st.body[:j] for x in ast.walk(s_)) and not exits(st.body[:j]):
                        def f(stmts=stmts, i=i, st=st, j=j):
                            second = L(ast.If(test=copy.deepcopy(st.test), body=st.body[j:], orelse=[]), st.body[j])
                            del st.body[j:]
                            stmts.insert(i + 1, second)
                        out.append((f"if-split{j}", f))
            if isinstance(st, ast.If) and not st.orelse and rest and isinstance(rest[0], ast.If) and not rest[0].orelse and pure(st.test):
                # merge when the second test is the first one, possibly with more conjuncts
                a = [ast.dump(v) for v in (st.test.values if isinstance(st.test, ast.BoolOp) and isinstance(st.test.op, ast.And) else [st.test])]
                bvals = rest[0].test.values if isinstance(rest[0].test, ast.BoolOp) and isinstance(rest[0].test.op, ast.And) else [rest[0].test]
                b = [ast.dump(v) for v in bvals]
                tn = {x.id for x in ast.walk(st.test) if isinstance(x, ast.Name)}
                if b[:len(a)] == a and not exits(st.body) and not any(isinstance(x, ast.Name) and isinstance(x.ctx, ast.Store) and x.id in tn for s_ in st.body for x in ast.walk(s_)):
                    def f(stmts=stmts, i=i, st=st, nxt=rest[0], bvals=bvals, na=len(a)):
                        extra = bvals[na:]
                        if extra:
                            t = extra[0] if len(extra) == 1 else L(ast.BoolOp(op=ast.And(), values=extra), nxt.test)
                            st.body.append(L(ast.If(test=t, body=nxt.body, orelse=[]), nxt))
                        else:
                            st.body.extend(nxt.body)
                        del stmts[i + 1]
                    out.append(("if-merge", f))
            # zip-branches: `if c: S1a; S2a else: S1b; S2b` with statements of the same kind pairwise (c pure and stable)
            #   -> `S1[a if c else b]; S2[a if c else b]`  (assignments to the same target, guards with the same body, returns)
            if isinstance(st, ast.If) and st.orelse and len(st.body) == len(st.orelse) and pure(st.test) and not (len(st.orelse) == 1 and isinstance(st.orelse[0], ast.If)) and len(st.body) >= 2:
                merged = []
                tn = {n.id for n in ast.walk(st.test) if isinstance(n, ast.Name)}
                okz = True
                for a_, b_ in zip(st.body, st.orelse):
                    ie = lambda x, y: L(ast.IfExp(test=copy.deepcopy(st.test), body=x, orelse=y), a_)
                    if ast.dump(a_) == ast.dump(b_) and not isinstance(a_, EXIT):
                        merged.append(a_)
                    elif isinstance(a_, ast.Assign) and isinstance(b_, ast.Assign) and [ast.dump(t) for t in a_.targets] == [ast.dump(t) for t in b_.targets] and len(a_.targets) == 1 and isinstance(a_.targets[0], ast.Name) and a_.targets[0].id not in tn:
                        merged.append(L(ast.Assign(targets=a_.targets, value=ie(a_.value, b_.value)), a_))
                    elif isinstance(a_, ast.If) and isinstance(b_, ast.If) and not a_.orelse and not b_.orelse and [ast.dump(x) for x in a_.body] == [ast.dump(x) for x in b_.body] and exits(a_.body):
                        merged.append(L(ast.If(test=ie(a_.test, b_.test), body=a_.body, orelse=[]), a_))
                    elif isinstance(a_, ast.Return) and isinstance(b_, ast.Return) and a_.value is not None and b_.value is not None:
                        merged.append(L(ast.Return(value=ie(a_.value, b_.value)), a_))
                    else:
                        okz = False
                        break
                    if any(isinstance(n, ast.Attribute) and isinstance(n.ctx, ast.Store) for n in ast.walk(a_)) or any(isinstance(n, ast.Attribute) and isinstance(n.ctx, ast.Store) for n in ast.walk(b_)):
                        okz = False
                        break
                if okz:
                    def f(stmts=stmts, i=i, st=st, merged=merged):
                        stmts[i:i + 1] = merged
                    out.append(("zip-branches", f))
            # `d.update({k: v for ...})` <-> loop storing;  `s.update(e for ...)` <-> `s |= {e for ...}`
            if isinstance(st, ast.Expr) and isinstance(st.value, ast.Call) and isinstance(st.value.func, ast.Attribute) and st.value.func.attr == "update" and isinstance(st.value.func.value, ast.Name) \
                    and len(st.value.args) == 1 and not st.value.keywords:
                arg, xname = st.value.args[0], st.value.func.value.id
                if isinstance(arg, ast.DictComp) and not mentions(arg, xname) and (pure(arg.key) or pure(arg.value)):
                    def f(stmts=stmts, i=i, st=st, arg=arg, xname=xname):
                        body = L(ast.Assign(targets=[L(ast.Subscript(value=L(ast.Name(id=xname, ctx=ast.Load()), st), slice=arg.key, ctx=ast.Store()), st)], value=arg.value), st)
                        for g in reversed(arg.generators):
                            for t in reversed(g.ifs):
                                body = L(ast.If(test=t, body=[body], orelse=[]), st)
                            body = L(ast.For(target=g.target, iter=g.iter, body=[body], orelse=[]), st)
                        stmts[i] = body
                    out.append(("update-loop", f))
                if isinstance(arg, (ast.GeneratorExp, ast.SetComp)) and not mentions(arg, xname):
                    def f(stmts=stmts, i=i, st=st, arg=arg, xname=xname):
                        stmts[i] = L(ast.AugAssign(target=L(ast.Name(id=xname, ctx=ast.Store()), st), op=ast.BitOr(), value=L(ast.SetComp(elt=arg.elt, generators=arg.generators), arg)), st)
                    out.append(("update-ior", f))
            if isinstance(st, ast.AugAssign) and isinstance(st.op, ast.BitOr) and isinstance(st.target, ast.Name) and isinstance(st.value, ast.SetComp):
                def f(stmts=stmts, i=i, st=st):
                    call = L(ast.Call(func=L(ast.Attribute(value=L(ast.Name(id=st.target.id, ctx=ast.Load()), st), attr="update", ctx=ast.Load()), st), args=[L(ast.GeneratorExp(elt=st.value.elt, generators=st.value.generators), st.value)], keywords=[]), st)
                    stmts[i] = L(ast.Expr(value=call), st)
                out.append(("ior-update", f))
            if isinstance(st, ast.For) and not st.orelse and len(st.body) == 1 and isinstance(st.body[0], ast.Assign) and len(st.body[0].targets) == 1 and isinstance(st.body[0].targets[0], ast.Subscript) \
                    and isinstance(st.body[0].targets[0].value, ast.Name) and not mentions(st.iter, st.body[0].targets[0].value.id) and (pure(st.body[0].targets[0].slice) or pure(st.body[0].value)) \
                    and not mentions(st.body[0].value, st.body[0].targets[0].value.id):
                def f(stmts=stmts, i=i, st=st):
                    a_ = st.body[0]
                    dc = L(ast.DictComp(key=a_.targets[0].slice, value=a_.value, generators=[ast.comprehension(target=st.target, iter=st.iter, ifs=[], is_async=0)]), st)
                    call = L(ast.Call(func=L(ast.Attribute(value=a_.targets[0].value, attr="update", ctx=ast.Load()), st), args=[dc], keywords=[]), st)
                    stmts[i] = L(ast.Expr(value=call), st)
                out.append(("loop-update", f))
            # `d.setdefault(k, v)` (statement, v pure)  <->  `if k not in d: d[k] = v`
            if isinstance(st, ast.Expr) and isinstance(st.value, ast.Call) and isinstance(st.value.func, ast.Attribute) and st.value.func.attr == "setdefault" and len(st.value.args) == 2 \
                    and not st.value.keywords and isinstance(st.value.func.value, ast.Name) and pure(st.value.args[0]) and pure(st.value.args[1]):
                def f(stmts=stmts, i=i, st=st):
                    d_, k_, v_ = st.value.func.value, st.value.args[0], st.value.args[1]
                    test = L(ast.Compare(left=k_, ops=[ast.NotIn()], comparators=[d_]), st)
                    store = L(ast.Assign(targets=[L(ast.Subscript(value=copy.deepcopy(d_), slice=copy.deepcopy(k_), ctx=ast.Store()), st)], value=v_), st)
                    stmts[i] = L(ast.If(test=test, body=[store], orelse=[]), st)
                out.append(("setdefault-out", f))
            if isinstance(st, ast.If) and not st.orelse and len(st.body) == 1 and isinstance(st.test, ast.Compare) and len(st.test.ops) == 1 and isinstance(st.test.ops[0], ast.NotIn) \
                    and isinstance(st.body[0], ast.Assign) and len(st.body[0].targets) == 1 and isinstance(st.body[0].targets[0], ast.Subscript) \
                    and ast.dump(_strip_ctx(st.body[0].targets[0].value)) == ast.dump(_strip_ctx(st.test.comparators[0])) and ast.dump(_strip_ctx(st.body[0].targets[0].slice)) == ast.dump(_strip_ctx(st.test.left)) \
                    and pure(st.body[0].value) and pure(st.test.left) and isinstance(st.test.comparators[0], ast.Name):
                def f(stmts=stmts, i=i, st=st):
                    call = L(ast.Call(func=L(ast.Attribute(value=st.test.comparators[0], attr="setdefault", ctx=ast.Load()), st), args=[st.test.left, st.body[0].value], keywords=[]), st)
                    stmts[i] = L(ast.Expr(value=call), st)
                out.append(("setdefault-in", f))
            # `for ..: if c: flag = True; break / else: flag = False` + `if flag: return X`  ->  `for ..: if c: return X`
            if isinstance(st, ast.For) and len(st.orelse) == 1 and isinstance(st.orelse[0], ast.Assign) and len(st.orelse[0].targets) == 1 and isinstance(st.orelse[0].targets[0], ast.Name) \
                    and isinstance(st.orelse[0].value, ast.Constant) and st.orelse[0].value.value is False and rest and isinstance(rest[0], ast.If) and not rest[0].orelse \
                    and isinstance(rest[0].test, ast.Name) and rest[0].test.id == st.orelse[0].targets[0].id and len(rest[0].body) == 1 and isinstance(rest[0].body[0], (ast.Return, ast.Raise)):
                flag = st.orelse[0].targets[0].id
                sets = []
                okf = True
                for o2, f2, b2 in blocks(st):
                    for j, x in enumerate(b2):
                        if isinstance(x, ast.Break):
                            prev = b2[j - 1] if j > 0 else None
                            if isinstance(prev, ast.Assign) and len(prev.targets) == 1 and isinstance(prev.targets[0], ast.Name) and prev.targets[0].id == flag \
                                    and isinstance(prev.value, ast.Constant) and prev.value.value is True:
                                sets.append((b2, j))
                            else:
                                okf = False
                n_flag = sum(1 for n in own_walk(fn) if isinstance(n, ast.Name) and n.id == flag)
                inner_loops = any(isinstance(n, (ast.For, ast.While)) for b in st.body for n in ast.walk(b))
                if okf and sets and n_flag == len(sets) + 2 and not inner_loops:
                    def f(stmts=stmts, i=i, st=st, sets=sets, exit_stmt=rest[0].body[0]):
                        for b2, j in sets:
                            b2[j - 1:j + 1] = [copy.deepcopy(exit_stmt)]
                        st.orelse = []
                        del stmts[i + 1]
                    out.append(("break-flag-return", f))
            # flag through try: `try: f = E except T: f = False` + `if f: <simple exit>`  ->  `try: if E: <simple exit> except T: pass`
            if isinstance(st, ast.Try) and len(st.body) == 1 and len(st.handlers) == 1 and not st.orelse and not st.finalbody and rest and isinstance(rest[0], ast.If) and not rest[0].orelse \
                    and isinstance(st.body[0], ast.Assign) and len(st.body[0].targets) == 1 and isinstance(st.body[0].targets[0], ast.Name) \
                    and len(st.handlers[0].body) == 1 and isinstance(st.handlers[0].body[0], ast.Assign) and len(st.handlers[0].body[0].targets) == 1 \
                    and isinstance(st.handlers[0].body[0].targets[0], ast.Name) and st.handlers[0].body[0].targets[0].id == st.body[0].targets[0].id \
                    and isinstance(st.handlers[0].body[0].value, ast.Constant) and st.handlers[0].body[0].value.value is False \
                    and isinstance(rest[0].test, ast.Name) and rest[0].test.id == st.body[0].targets[0].id:
                flag = st.body[0].targets[0].id
                simple = len(rest[0].body) == 1 and isinstance(rest[0].body[0], (ast.Return, ast.Continue, ast.Break)) and (
                    not isinstance(rest[0].body[0], ast.Return) or rest[0].body[0].value is None or isinstance(rest[0].body[0].value, (ast.Constant, ast.Name)))
                if simple and sum(1 for n in own_walk(fn) if isinstance(n, ast.Name) and n.id == flag) == 3:
                    def f(stmts=stmts, i=i, st=st, nxt=rest[0]):
                        st.body = [L(ast.If(test=st.body[0].value, body=nxt.body, orelse=[]), nxt)]
                        st.handlers[0].body = [L(ast.Pass(), st.handlers[0])]
                        del stmts[i + 1]
                    out.append(("try-flag-in", f))
            # `x = A if c else x`  <->  `if c: x = A`
            if isinstance(st, ast.Assign) and len(st.targets) == 1 and isinstance(st.targets[0], ast.Name) and isinstance(st.value, ast.IfExp):
                x = st.targets[0].id
                ie = st.value
                if isinstance(ie.orelse, ast.Name) and ie.orelse.id == x:
                    def f(stmts=stmts, i=i, st=st, ie=ie):
                        stmts[i] = L(ast.If(test=ie.test, body=[L(ast.Assign(targets=st.targets, value=ie.body), st)], orelse=[]), st)
                    out.append(("ifexp-self-out", f))
                elif isinstance(ie.body, ast.Name) and ie.body.id == x:
                    def f(stmts=stmts, i=i, st=st, ie=ie):
                        stmts[i] = L(ast.If(test=neg_plain(ie.test), body=[L(ast.Assign(targets=st.targets, value=ie.orelse), st)], orelse=[]), st)
                    out.append(("ifexp-self-out", f))
            if isinstance(st, ast.If) and not st.orelse and len(st.body) == 1 and isinstance(st.body[0], ast.Assign) and len(st.body[0].targets) == 1 and isinstance(st.body[0].targets[0], ast.Name):
                def f(stmts=stmts, i=i, st=st):
                    a = st.body[0]
                    x = a.targets[0].id
                    stmts[i] = L(ast.Assign(targets=a.targets, value=L(ast.IfExp(test=st.test, body=a.value, orelse=L(ast.Name(id=x, ctx=ast.Load()), st)), st)), st)
                out.append(("ifexp-self-in", f))
            # coalesce: `y = E(x)` where x is dead afterwards and y is new: x is renamed y (`path = normalise(raw_path)` -> `path = normalise(path)`)
            if isinstance(st, ast.Assign) and len(st.targets) == 1 and isinstance(st.targets[0], ast.Name):
                y = st.targets[0].id
                srcs = {n.id for n in ast.walk(st.value) if isinstance(n, ast.Name) and isinstance(n.ctx, ast.Load)} & (local_names(fn) | params_of(fn))
                for x in sorted(srcs):
                    if x == y:
                        continue
                    x_nodes = [n for n in own_walk(fn) if isinstance(n, ast.Name) and n.id == x]
                    y_nodes = [n for n in own_walk(fn) if isinstance(n, ast.Name) and n.id == y]
                    order = _order(fn)
                    pos = order[id(st)]
                    x_after = [n for n in x_nodes if order[id(n)] > _last_rank(st, order)]
                    y_before = [n for n in y_nodes if order[id(n)] < pos]
                    # in a loop body the renaming is only safe when x is bound again, earlier in the same block, at every iteration
                    earlier_store = any(isinstance(n, ast.Name) and n.id == x and isinstance(n.ctx, ast.Store) for z in stmts[:i] for n in ast.walk(z))
                    in_loop = bool(_loop_tail_blocks(fn)) and any(isinstance(o, (ast.For, ast.AsyncFor, ast.While)) for o in ast.walk(fn) if any(st is z for z in ast.walk(o))) and not earlier_store
                    nested_use = any(isinstance(sc, SCOPE + (ast.Lambda,)) and any(isinstance(n, ast.Name) and n.id in (x, y) for n in ast.walk(sc)) for sc in own_walk(fn))
                    if not x_after and not y_before and not in_loop and not nested_use and x not in params_of(fn):
                        def f(fn=fn, x=x, y=y):
                            for n in own_walk(fn):
                                if isinstance(n, ast.Name) and n.id == x:
                                    n.id = y
                        out.append(("coalesce", f))
            # copy-coalesce: `y = x` (x bound once before, never after; y not touched before; no store of y can run before a later
            # read of x) -> x is renamed y and the copy disappears
            if isinstance(st, ast.Assign) and len(st.targets) == 1 and isinstance(st.targets[0], ast.Name) and isinstance(st.value, ast.Name) and st.value.id != st.targets[0].id:
                y, x = st.targets[0].id, st.value.id
                if x in local_names(fn) and not any(isinstance(sc, SCOPE + (ast.Lambda,)) and any(isinstance(n, ast.Name) and n.id in (x, y) for n in ast.walk(sc)) for sc in own_walk(fn)):
                    order = _order(fn)
                    pos = order[id(st)]
                    x_nodes = [n for n in own_walk(fn) if isinstance(n, ast.Name) and n.id == x and n is not st.value]
                    y_nodes = [n for n in own_walk(fn) if isinstance(n, ast.Name) and n.id == y and n is not st.targets[0]]
                    x_stores_after = [n for n in x_nodes if isinstance(n.ctx, ast.Store) and order[id(n)] > pos]
                    x_stores_before = [n for n in x_nodes if isinstance(n.ctx, ast.Store) and order[id(n)] < pos]
                    y_before = [n for n in y_nodes if order[id(n)] < pos]
                    x_reads_after = [n for n in x_nodes if isinstance(n.ctx, ast.Load) and order[id(n)] > pos]
                    y_stores_after = [n for n in y_nodes if isinstance(n.ctx, ast.Store)]
                    same_block_def = any(any(n is m for m in ast.walk(z)) for z in stmts[:i] for n in x_stores_before)
                    if not x_stores_after and len(x_stores_before) == 1 and same_block_def and not y_before \
                            and not any(_may_precede(fn, s_, r_) for s_ in y_stores_after for r_ in x_reads_after):
                        def f(fn=fn, stmts=stmts, i=i, x=x, y=y):
                            del stmts[i]
                            for n in own_walk(fn):
                                if isinstance(n, ast.Name) and n.id == x:
                                    n.id = y
                        out.append(("copy-coalesce", f))
            # `if c: return X` as the last statement of the function (None is returned otherwise)  <->  `return X if c else None`
            if isinstance(st, ast.If) and not st.orelse and not rest and stmts is top and len(st.body) == 1 and isinstance(st.body[0], ast.Return) and st.body[0].value is not None:
                def f(stmts=stmts, i=i, st=st):
                    stmts[i] = L(ast.Return(value=L(ast.IfExp(test=st.test, body=st.body[0].value, orelse=L(ast.Constant(value=None), st)), st)), st)
                out.append(("tail-if-return", f))
            # drop a bare `return` in tail position of the function
            if isinstance(st, ast.Return) and st.value is None and not rest and _in_tail(fn, stmts) and len(top) > 0:
                def f(owner=owner, field=field, stmts=stmts, i=i, fn=fn):
                    del stmts[i]
                    fn.body = _drop_empty(fn.body) or [ast.Pass()]
                out.append(("drop-tail-return", f))
            # un-hoist: S before an `if` with else -> first statement of each branch
            if isinstance(st, (ast.Assign, ast.Expr, ast.AnnAssign)) and rest and isinstance(rest[0], ast.If) and rest[0].orelse:
                nxt = rest[0]
                tests = _tests(nxt)
                leaves = _branches(nxt)
                stored = {x.id for x in ast.walk(st) if isinstance(x, ast.Name) and isinstance(x.ctx, ast.Store)}
                if leaves is not None and all(pure(t) for t in tests) and not any(isinstance(x, ast.Name) and x.id in stored for t in tests for x in ast.walk(t)):
                    def f(stmts=stmts, i=i, st=st, leaves=leaves):
                        for b in leaves:
                            b.insert(0, copy.deepcopy(st))
                        del stmts[i]
                    out.append(("unhoist", f))
            # list-append merge: `x = [*a]` + `x.append(e)` -> `x = [*a, e]`
            if isinstance(st, ast.Assign) and len(st.targets) == 1 and isinstance(st.targets[0], ast.Name) and isinstance(st.value, ast.List) and rest and isinstance(rest[0], ast.Expr) \
                    and isinstance(rest[0].value, ast.Call) and isinstance(rest[0].value.func, ast.Attribute) and rest[0].value.func.attr == "append" and isinstance(rest[0].value.func.value, ast.Name) \
                    and rest[0].value.func.value.id == st.targets[0].id and len(rest[0].value.args) == 1 and not mentions(rest[0].value.args[0], st.targets[0].id):
                def f(stmts=stmts, i=i, st=st, e=rest[0].value.args[0]):
                    st.value.elts.append(e)
                    del stmts[i + 1]
                out.append(("list-append-in", f))
            # `for v in map(f, xs)`  <->  `for v0 in xs: v = f(v0)`
            if isinstance(st, ast.For) and isinstance(st.target, ast.Name) and st.body and isinstance(st.body[0], ast.Assign) and len(st.body[0].targets) == 1 and isinstance(st.body[0].targets[0], ast.Name) \
                    and isinstance(st.body[0].value, ast.Call) and isinstance(st.body[0].value.func, ast.Name) and len(st.body[0].value.args) == 1 and not st.body[0].value.keywords \
                    and isinstance(st.body[0].value.args[0], ast.Name) and st.body[0].value.args[0].id == st.target.id:
                v0, v = st.target.id, st.body[0].targets[0].id
                if sum(1 for x in ast.walk(fn) if isinstance(x, ast.Name) and x.id == v0) == 2 and v != v0:
                    def f(st=st, v=v):
                        fcall = st.body[0].value
                        st.iter = L(ast.Call(func=L(ast.Name(id="map", ctx=ast.Load()), st), args=[fcall.func, st.iter], keywords=[]), st)
                        st.target = L(ast.Name(id=v, ctx=ast.Store()), st)
                        del st.body[0]
                        if not st.body:
                            st.body = [L(ast.Pass(), st)]
                    out.append(("for-map-in", f))
    # ---- expression level
    for parent, field, idx, e in expr_sites(fn):
        # comprehension <-> generator in a consuming context
        consumer = isinstance(parent, ast.Call) and field == "args" and len(parent.args) == 1 and not parent.keywords and (
            (isinstance(parent.func, ast.Name) and parent.func.id in CONSUMERS) or (isinstance(parent.func, ast.Attribute) and parent.func.attr in CONSUMER_METHODS))
        starred = isinstance(parent, ast.Starred)
        if isinstance(e, ast.ListComp) and (consumer or starred):
            def f(parent=parent, field=field, idx=idx, e=e):
                _set(parent, field, idx, L(ast.GeneratorExp(elt=e.elt, generators=e.generators), e))
            out.append(("comp-gen", f))
        if isinstance(e, ast.GeneratorExp) and (consumer or starred):
            def f(parent=parent, field=field, idx=idx, e=e):
                _set(parent, field, idx, L(ast.ListComp(elt=e.elt, generators=e.generators), e))
            out.append(("gen-comp", f))
        # a call of a one-expression function / method of the module -> that expression (the reference may spell it out)
        if isinstance(e, ast.Call) and not e.keywords and MODULE_ONE_LINERS:
            key = e.func.id if isinstance(e.func, ast.Name) else e.func.attr if isinstance(e.func, ast.Attribute) and isinstance(e.func.value, ast.Name) and e.func.value.id in ("self", "cls") else None
            h = MODULE_ONE_LINERS.get(key) if key else None
            if h is not None and h is not fn:
                params = [a_.arg for a_ in h.args.args]
                if isinstance(e.func, ast.Attribute) and params and params[0] in ("self", "cls") and not any(isinstance(d, ast.Name) and d.id == "staticmethod" for d in h.decorator_list):
                    params = params[1:]
                if len(params) == len(e.args) and all(isinstance(a_, (ast.Name, ast.Constant, ast.Attribute)) for a_ in e.args):
                    def f(parent=parent, field=field, idx=idx, e=e, h=h, params=params):
                        body = copy.deepcopy(h.body[-1].value)
                        body = _Subst(dict(zip(params, e.args))).visit(body)
                        for x in ast.walk(body):
                            if hasattr(x, "lineno"):
                                ast.copy_location(x, e)
                        _set(parent, field, idx, body)
                    out.append(("inline-one-liner", f))
        # F(A if c else B)  <->  F(A) if c else F(B)   (F a plain name / attribute: looking it up before or after c is the same)
        if isinstance(e, ast.Call) and len(e.args) == 1 and not e.keywords and isinstance(e.args[0], ast.IfExp) and pure(e.func):
            def f(parent=parent, field=field, idx=idx, e=e):
                ie = e.args[0]
                a = L(ast.Call(func=copy.deepcopy(e.func), args=[ie.body], keywords=[]), e)
                b = L(ast.Call(func=e.func, args=[ie.orelse], keywords=[]), e)
                _set(parent, field, idx, L(ast.IfExp(test=ie.test, body=a, orelse=b), e))
            out.append(("ifexp-arg-out", f))
        if isinstance(e, ast.IfExp) and isinstance(e.body, ast.Call) and isinstance(e.orelse, ast.Call) and ast.dump(e.body.func) == ast.dump(e.orelse.func) and pure(e.body.func) \
                and len(e.body.args) == 1 and len(e.orelse.args) == 1 and not e.body.keywords and not e.orelse.keywords:
            def f(parent=parent, field=field, idx=idx, e=e):
                arg = L(ast.IfExp(test=e.test, body=e.body.args[0], orelse=e.orelse.args[0]), e)
                _set(parent, field, idx, L(ast.Call(func=e.body.func, args=[arg], keywords=[]), e))
            out.append(("ifexp-arg-in", f))
        # list(<generator>) <-> [comprehension];  set(<generator>) <-> {comprehension}
        if isinstance(e, ast.Call) and isinstance(e.func, ast.Name) and e.func.id in ("list", "set") and len(e.args) == 1 and not e.keywords and isinstance(e.args[0], ast.GeneratorExp):
            def f(parent=parent, field=field, idx=idx, e=e):
                g = e.args[0]
                _set(parent, field, idx, L((ast.ListComp if e.func.id == "list" else ast.SetComp)(elt=g.elt, generators=g.generators), e))
            out.append(("ctor-gen-comp", f))
        if isinstance(e, (ast.ListComp, ast.SetComp)):
            def f(parent=parent, field=field, idx=idx, e=e):
                g = L(ast.GeneratorExp(elt=e.elt, generators=e.generators), e)
                _set(parent, field, idx, L(ast.Call(func=L(ast.Name(id="list" if isinstance(e, ast.ListComp) else "set", ctx=ast.Load()), e), args=[g], keywords=[]), e))
            out.append(("comp-ctor-gen", f))
        # (A if c else B)(args)  <->  A(args) if c else B(args)
        if isinstance(e, ast.Call) and isinstance(e.func, ast.IfExp):
            def f(parent=parent, field=field, idx=idx, e=e):
                a = L(ast.Call(func=e.func.body, args=copy.deepcopy(e.args), keywords=copy.deepcopy(e.keywords)), e)
                b = L(ast.Call(func=e.func.orelse, args=e.args, keywords=e.keywords), e)
                _set(parent, field, idx, L(ast.IfExp(test=e.func.test, body=a, orelse=b), e))
            out.append(("ifexp-callee-out", f))
        if isinstance(e, ast.IfExp) and isinstance(e.body, ast.Call) and isinstance(e.orelse, ast.Call) and [ast.dump(a) for a in e.body.args] == [ast.dump(a) for a in e.orelse.args] \
                and [ast.dump(k) for k in e.body.keywords] == [ast.dump(k) for k in e.orelse.keywords] and isinstance(e.body.func, ast.Name) and isinstance(e.orelse.func, ast.Name):
            def f(parent=parent, field=field, idx=idx, e=e):
                fn_ = L(ast.IfExp(test=e.test, body=e.body.func, orelse=e.orelse.func), e)
                _set(parent, field, idx, L(ast.Call(func=fn_, args=e.body.args, keywords=e.body.keywords), e))
            out.append(("ifexp-callee-in", f))
        # a if c else b  <->  b if not c else a
        if isinstance(e, ast.IfExp):
            for k, ng in enumerate(negations(e.test)):
                def f(e=e, ng=ng):
                    e.test = ng
                    e.body, e.orelse = e.orelse, e.body
                out.append((f"ifexp-swap{k}", f))
        # boolean context: `all(P(m) for m in (a, b))` <-> `P(a) and P(b)`;  `all(map(f, (a, b)))` <-> `f(a) and f(b)`;  any <-> or
        boolctx0 = (isinstance(parent, (ast.If, ast.While)) and field == "test") or (isinstance(parent, ast.BoolOp)) or (isinstance(parent, ast.UnaryOp) and isinstance(parent.op, ast.Not)) \
            or (isinstance(parent, ast.comprehension) and field == "ifs")
        if boolctx0 and isinstance(e, ast.Call) and isinstance(e.func, ast.Name) and e.func.id in ("all", "any") and len(e.args) == 1 and not e.keywords:
            a0 = e.args[0]
            items = terms = None
            if isinstance(a0, ast.GeneratorExp) and len(a0.generators) == 1 and not a0.generators[0].ifs and isinstance(a0.generators[0].target, ast.Name) \
                    and isinstance(a0.generators[0].iter, (ast.Tuple, ast.List)) and all(isinstance(x, ast.Name) for x in a0.generators[0].iter.elts) and len(a0.generators[0].iter.elts) >= 2:
                items = a0.generators[0].iter.elts
                var = a0.generators[0].target.id
                terms = [_Subst({var: it}).visit(copy.deepcopy(a0.elt)) for it in items]
            elif isinstance(a0, ast.Call) and isinstance(a0.func, ast.Name) and a0.func.id == "map" and len(a0.args) == 2 and isinstance(a0.args[0], ast.Name) \
                    and isinstance(a0.args[1], (ast.Tuple, ast.List)) and all(isinstance(x, ast.Name) for x in a0.args[1].elts) and len(a0.args[1].elts) >= 2:
                terms = [L(ast.Call(func=copy.deepcopy(a0.args[0]), args=[copy.deepcopy(it)], keywords=[]), e) for it in a0.args[1].elts]
            if terms:
                def f(parent=parent, field=field, idx=idx, e=e, terms=terms):
                    op = ast.And() if e.func.id == "all" else ast.Or()
                    _set(parent, field, idx, L(ast.BoolOp(op=op, values=terms), e))
                out.append(("allany-tuple-out", f))
        # boolean context: `True if a else b` <-> `a or b`;  `b if a else False` <-> `a and b`
        boolctx = (isinstance(parent, (ast.If, ast.While)) and field == "test") or (isinstance(parent, ast.comprehension) and field == "ifs") or (isinstance(parent, ast.UnaryOp) and isinstance(parent.op, ast.Not))
        if boolctx and isinstance(e, ast.IfExp):
            if isinstance(e.body, ast.Constant) and e.body.value is True:
                def f(parent=parent, field=field, idx=idx, e=e):
                    _set(parent, field, idx, L(ast.BoolOp(op=ast.Or(), values=[e.test, e.orelse]), e))
                out.append(("ifexp-or", f))
            if isinstance(e.orelse, ast.Constant) and e.orelse.value is False:
                def f(parent=parent, field=field, idx=idx, e=e):
                    _set(parent, field, idx, L(ast.BoolOp(op=ast.And(), values=[e.test, e.body]), e))
                out.append(("ifexp-and", f))
            if isinstance(e.body, ast.Constant) and e.body.value is False:
                def f(parent=parent, field=field, idx=idx, e=e):
                    _set(parent, field, idx, L(ast.BoolOp(op=ast.And(), values=[neg_plain(e.test), e.orelse]), e))
                out.append(("ifexp-notand", f))
        if boolctx and isinstance(e, ast.BoolOp) and len(e.values) == 2:
            if isinstance(e.op, ast.Or):
                def f(parent=parent, field=field, idx=idx, e=e):
                    _set(parent, field, idx, L(ast.IfExp(test=e.values[0], body=L(ast.Constant(value=True), e), orelse=e.values[1]), e))
                out.append(("or-ifexp", f))
        # E[f(v)] for v in xs  <->  E[m] for m in map(f, xs)
        if isinstance(e, (ast.GeneratorExp, ast.ListComp, ast.SetComp)) and len(e.generators) == 1 and isinstance(e.generators[0].target, ast.Name) and not e.generators[0].ifs:
            g = e.generators[0]
            v = g.target.id
            if isinstance(g.iter, ast.Call) and isinstance(g.iter.func, ast.Name) and g.iter.func.id == "map" and len(g.iter.args) == 2 and not g.iter.keywords \
                    and sum(1 for x in ast.walk(e.elt) if isinstance(x, ast.Name) and x.id == v) == 1:
                def f(e=e, g=g, v=v):
                    fcall = L(ast.Call(func=g.iter.args[0], args=[L(ast.Name(id=v, ctx=ast.Load()), g.iter)], keywords=[]), g.iter)
                    for x in ast.walk(e.elt):
                        if isinstance(x, ast.Name) and x.id == v:
                            target = x
                    e.elt = _replace_expr(e.elt, target, fcall)
                    g.iter = g.iter.args[1]
                out.append(("map-iter-out", f))
            calls = [c for c in ast.walk(e.elt) if isinstance(c, ast.Call) and len(c.args) == 1 and not c.keywords and isinstance(c.args[0], ast.Name) and c.args[0].id == v
                     and isinstance(c.func, (ast.Name, ast.Attribute)) and not mentions(c.func, v)]
            if len(calls) == 1 and sum(1 for x in ast.walk(e.elt) if isinstance(x, ast.Name) and x.id == v) == 1 and not (e.elt is calls[0]):
                def f(e=e, g=g, v=v, c=calls[0]):
                    e.elt = _replace_expr(e.elt, c, L(ast.Name(id=v, ctx=ast.Load()), c))
                    g.iter = L(ast.Call(func=L(ast.Name(id="map", ctx=ast.Load()), g.iter), args=[c.func, g.iter], keywords=[]), g.iter)
                out.append(("map-iter-in", f))
        # f-string <-> str.format with positional `{}` fields
        if isinstance(e, ast.Call) and isinstance(e.func, ast.Attribute) and e.func.attr == "format" and isinstance(e.func.value, ast.Constant) and isinstance(e.func.value.value, str) and not e.keywords:
            import string
            try:
                parts = list(string.Formatter().parse(e.func.value.value))
            except ValueError:
                parts = None
            if parts is not None and all(fld in (None, "") and not spec and conv is None for _, fld, spec, conv in parts) and sum(1 for _, fld, _, _ in parts if fld == "") == len(e.args):
                def f(parent=parent, field=field, idx=idx, e=e, parts=parts):
                    vals, k = [], 0
                    for lit, fld, _, _ in parts:
                        if lit:
                            vals.append(L(ast.Constant(value=lit), e))
                        if fld == "":
                            vals.append(L(ast.FormattedValue(value=e.args[k], conversion=-1, format_spec=None), e))
                            k += 1
                    _set(parent, field, idx, L(ast.JoinedStr(values=vals), e))
                out.append(("format-fstring", f))
    # expand a stable local at one of its reads
    for owner, field, stmts in blocks(fn):
        for st in stmts:
            if isinstance(st, ast.Assign) and len(st.targets) == 1 and isinstance(st.targets[0], ast.Name) and isinstance(st.value, (ast.Call, ast.Attribute)) and stable(st.value, fn, stored_attrs):
                nm = st.targets[0].id
                if sum(1 for x in own_walk(fn) if isinstance(x, ast.Name) and x.id == nm and isinstance(x.ctx, ast.Store)) != 1:
                    continue
                for r in reads(fn, nm):
                    if _order(fn).get(id(r), 0) <= _order(fn).get(id(st), 0):
                        continue
                    def f(fn=fn, r=r, st=st):
                        for o2, f2, s2 in blocks(fn):
                            for j, x in enumerate(s2):
                                if any(y is r for y in _walk_no_scope(x)) and not isinstance(x, (ast.If, ast.For, ast.While, ast.With, ast.Try)):
                                    s2[j] = _replace_expr(x, r, copy.deepcopy(st.value))
                                    return
                                if isinstance(x, (ast.If, ast.While)) and any(y is r for y in ast.walk(x.test)):
                                    x.test = _replace_expr(x.test, r, copy.deepcopy(st.value))
                                    return
                                if isinstance(x, ast.For) and any(y is r for y in ast.walk(x.iter)):
                                    x.iter = _replace_expr(x.iter, r, copy.deepcopy(st.value))
                                    return
                    out.append(("expand-local", f))
    return out


def _chain(fn, node):
    """[(statement list id, index, field)] from the function body down to the statement holding node."""
    out = []

    def rec(owner):
        for field in ("body", "orelse", "finalbody", "handlers"):
            items = getattr(owner, field, None)
            if not isinstance(items, list):
                continue
            for idx, it in enumerate(items):
                if isinstance(it, ast.ExceptHandler):
                    if any(x is node for x in ast.walk(it)):
                        out.append((id(items), idx, field))
                        rec(it)
                        return True
                elif isinstance(it, ast.stmt) and any(x is node for x in ast.walk(it)):
                    out.append((id(items), idx, field))
                    if not isinstance(it, SCOPE):
                        rec(it)
                    return True
        return False
    rec(fn)
    return out


def _may_precede(fn, a, b) -> bool:
    """can node a be executed before node b in one pass over the function (loops not unrolled)? Conservative: True unless the two
    sit in exclusive branches of an `if` or a comes later in a common statement list."""
    ca, cb = _chain(fn, a), _chain(fn, b)
    for (la, ia, fa), (lb, ib, fb) in zip(ca, cb):
        if la == lb:
            if ia != ib:
                return ia < ib
            continue
        # different lists of the same owner statement
        if {fa, fb} == {"body", "orelse"}:
            # body / orelse of an `if` are exclusive; of a loop or try they are not
            return not _is_if_owner(fn, la, lb)
        return True
    if len(ca) == len(cb):
        # the same simple statement: in `y = f(x)` the value is evaluated before the target is bound
        for n in ast.walk(fn):
            if isinstance(n, (ast.Assign, ast.AnnAssign)) and n.value is not None and any(z is b for z in ast.walk(n.value)) \
                    and any(z is a for t in (n.targets if isinstance(n, ast.Assign) else [n.target]) for z in ast.walk(t)):
                return False
    # one contains the other (a test and its branch ...): the header of a statement runs before its blocks
    return len(ca) <= len(cb)


def _is_if_owner(fn, la, lb) -> bool:
    for n in ast.walk(fn):
        if isinstance(n, ast.If) and {id(n.body), id(n.orelse)} == {la, lb}:
            return True
    return False


def _order(fn) -> Dict[int, int]:
    """id(node) -> rank in a depth-first, source-order walk of the function (positions are not reliable after inlining)."""
    out: Dict[int, int] = {}

    def rec(n):
        out[id(n)] = len(out)
        for c in ast.iter_child_nodes(n):
            rec(c)
    rec(fn)
    return out


def _last_rank(node, order) -> int:
    return max(order.get(id(x), -1) for x in ast.walk(node))


def _strip_ctx(node):
    node = copy.deepcopy(node)
    for x in ast.walk(node):
        if hasattr(x, "ctx"):
            x.ctx = ast.Load()
    return node


def _loop_tail_blocks(fn) -> set:
    """ids of the statement lists in tail position of a loop body (`continue` there is the same as falling off the block)."""
    out = set()

    def tails(block):
        out.add(id(block))
        if block and isinstance(block[-1], ast.If):
            tails(block[-1].body)
            if block[-1].orelse:
                tails(block[-1].orelse)
    for n in own_walk(fn):
        if isinstance(n, (ast.For, ast.AsyncFor, ast.While)):
            tails(n.body)
    return out


def _in_tail(fn, stmts) -> bool:
    """stmts is a block in tail position of the function (falling off its end ends the function)."""
    def rec(block):
        if block is stmts:
            return True
        if not block:
            return False
        last = block[-1]
        if isinstance(last, ast.If):
            return rec(last.body) or rec(last.orelse)
        return False
    return rec(fn.body)


def extract_known(fn, ref_fps: List[str]) -> List[Cand]:
    """the reference assigns a local `_ = E` that this function does not have while E occurs as a sub-expression evaluated
    first in one of its statements: E is extracted again (the name is restored afterwards by the local-name step)."""
    out = []
    names = local_names(fn)
    have = Counter(fingerprints(fn))
    missing = Counter(ref_fps) - have
    wanted = []
    for fp in missing:
        text = fp.split(":", 1)[1]
        try:
            node = ast.parse(text).body[0]
        except SyntaxError:
            continue
        if isinstance(node, ast.Assign) and len(node.targets) == 1 and isinstance(node.targets[0], ast.Name) and node.targets[0].id == "_":
            wanted.append((ast.unparse(node.value), None))
        elif isinstance(node, ast.AnnAssign) and isinstance(node.target, ast.Name) and node.target.id == "_" and node.value is not None:
            wanted.append((ast.unparse(node.value), node.annotation))
    if not wanted:
        return out
    k = 0
    for owner, field, stmts in blocks(fn):
        for i, st in enumerate(stmts):
            if isinstance(st, SCOPE) or isinstance(st, (ast.With, ast.Try)):
                continue
            head = st.test if isinstance(st, (ast.If, ast.While)) else st.iter if isinstance(st, (ast.For, ast.AsyncFor)) else st
            for sub in ast.walk(head):
                if not isinstance(sub, ast.expr) or isinstance(sub, (ast.Name, ast.Constant)) or sub is getattr(st, "value", None) and isinstance(st, (ast.Assign, ast.AnnAssign)) and False:
                    continue
                text = _u(sub, names)
                for want, ann in wanted:
                    if text == want and _evaluated_first(head, sub):
                        def f(stmts=stmts, i=i, st=st, sub=sub, ann=ann, k=k, fn=fn):
                            taken = {x.id for x in ast.walk(fn) if isinstance(x, ast.Name)}
                            tmp = f"_xk{k}"
                            while tmp in taken:
                                tmp += "_"
                            ld = L(ast.Name(id=tmp, ctx=ast.Load()), sub)
                            if ann is not None:
                                asg = L(ast.AnnAssign(target=L(ast.Name(id=tmp, ctx=ast.Store()), sub), annotation=ann, value=sub, simple=1), st)
                            else:
                                asg = L(ast.Assign(targets=[L(ast.Name(id=tmp, ctx=ast.Store()), sub)], value=sub), st)
                            if isinstance(st, (ast.If, ast.While)):
                                st.test = _replace_expr(st.test, sub, ld)
                            elif isinstance(st, (ast.For, ast.AsyncFor)):
                                st.iter = _replace_expr(st.iter, sub, ld)
                            else:
                                stmts[i] = _replace_expr(st, sub, ld)
                            stmts.insert(i, asg)
                        out.append((f"extract-known", f))
                        k += 1
    return out


def eval_seq(node):
    """the sub-expressions of node in (an approximation of) evaluation order; the bodies of lambdas and the non-first parts of
    comprehensions are deferred and therefore not listed."""
    if isinstance(node, ast.Lambda):
        yield node
        return
    if isinstance(node, (ast.GeneratorExp, ast.ListComp, ast.SetComp, ast.DictComp)):
        yield from eval_seq(node.generators[0].iter)
        if not isinstance(node, ast.GeneratorExp):
            for g in node.generators:
                for t in g.ifs:
                    yield from eval_seq(t)
            for g in node.generators[1:]:
                yield from eval_seq(g.iter)
            if isinstance(node, ast.DictComp):
                yield from eval_seq(node.key)
                yield from eval_seq(node.value)
            else:
                yield from eval_seq(node.elt)
        yield node
        return
    if isinstance(node, (ast.Assign, ast.AnnAssign, ast.AugAssign)):
        if getattr(node, "value", None) is not None:
            yield from eval_seq(node.value)
        for t in (node.targets if isinstance(node, ast.Assign) else [node.target]):
            yield from eval_seq(t)
        return
    if isinstance(node, ast.Dict):
        for k_, v_ in zip(node.keys, node.values):
            if k_ is not None:
                yield from eval_seq(k_)
            yield from eval_seq(v_)
        yield node
        return
    if isinstance(node, ast.IfExp):
        yield from eval_seq(node.test)
        yield from eval_seq(node.body)
        yield from eval_seq(node.orelse)
        yield node
        return
    for c in ast.iter_child_nodes(node):
        if isinstance(c, (ast.expr, ast.keyword, ast.Starred, ast.stmt, ast.comprehension, ast.FormattedValue)):
            yield from eval_seq(c)
    if isinstance(node, ast.expr):
        yield node


def _pure_ctor_call(x) -> bool:
    """a call of a class of the package whose construction only stores its arguments (table of the reference tree)."""
    return isinstance(x, ast.Call) and isinstance(x.func, ast.Name) and x.func.id in shapes().get("<global>", {}).get("pure_ctors", ()) \
        and all(pure(a) or _pure_ctor_call(a) for a in x.args) and all(pure(k.value) for k in x.keywords)


def _conditional(head, sub) -> bool:
    """sub is only evaluated under a condition inside head: a later operand of and / or, a branch of a conditional expression."""
    def rec(node, cond):
        if node is sub:
            return cond
        if isinstance(node, ast.BoolOp):
            for i, v in enumerate(node.values):
                r = rec(v, cond or i > 0)
                if r is not None:
                    return r
            return None
        if isinstance(node, ast.IfExp):
            for child, c in ((node.test, cond), (node.body, True), (node.orelse, True)):
                r = rec(child, c)
                if r is not None:
                    return r
            return None
        if isinstance(node, ast.Compare) and len(node.ops) > 1:
            for i, v in enumerate([node.left, *node.comparators]):
                r = rec(v, cond or i > 1)
                if r is not None:
                    return r
            return None
        for child in ast.iter_child_nodes(node):
            r = rec(child, cond)
            if r is not None:
                return r
        return None
    return bool(rec(head, False))


def _evaluated_first(head, sub) -> bool:
    """nothing with an effect is evaluated in head before sub, and sub is evaluated whenever head is."""
    if _conditional(head, sub):
        return False
    inside = {id(x) for x in ast.walk(sub)}
    for x in eval_seq(head):
        if id(x) in inside:
            return True
        if _pure_ctor_call(x):
            continue
        if isinstance(x, (ast.Call, ast.Await, ast.Yield, ast.YieldFrom, ast.NamedExpr)) and not pure(x):
            return False
        if isinstance(x, ast.Subscript) and isinstance(x.ctx, ast.Load) and not pure(x):
            # a read of a container cannot change anything, but it may raise: keep the order
            return False
    return False
