"""Accept-sets of leaf node classes: the Python class tags of `data` under which
`deserialize` can reach a non-raising return, computed by the guard-refinement
dataflow of sa/escape.py."""
import ast
from typing import Dict, Optional, Set

from .escape import TOP, Analyzer, _Run
from .model import AnalysisError, Model
from .util import walk_no_nested

INTERNAL = {"disc"}


def accept_set(model: Model, cls_q: str, _depth: int = 0) -> Set[str]:
    m = model.find_method(cls_q, "deserialize")
    if m is None:
        raise AnalysisError(f"{cls_q} has no deserialize")
    # Constrained*Method: `return validate_constraints(super().deserialize(data), ...)`
    sup = [n for n in walk_no_nested(m.node) if isinstance(n, ast.Call) and isinstance(n.func, ast.Attribute) and n.func.attr == "deserialize"
           and isinstance(n.func.value, ast.Call) and isinstance(n.func.value.func, ast.Name) and n.func.value.func.id == "super"]
    if sup and _depth < 3:
        owner = m.cls.qualname
        parent = model.find_method(cls_q, "deserialize", after=owner)
        if parent is not None and parent.cls is not None:
            return accept_set(model, parent.cls.qualname, _depth + 1)
    an = Analyzer(model)
    run = _Run(an, m, {"data": TOP}, {}, 0)
    run.run()
    tags: Set[str] = set()
    for node, env in run.returns:
        v = env.get("data")
        if v is None or v.kind != "I":
            continue
        tags |= set(v.types)
    return tags - INTERNAL
