"""python -m sa.run <ID> [--tier quick|thorough] [--root DIR] [--replay FILE] [--no-write]

exit 0: every obligation discharged (or only known findings)
exit 1: VIOLATION line(s)
exit 2: ANALYSIS-ERROR (anchor vanished, vacuous rule, checker crashed, self-test failed)
"""
import argparse
import importlib
import json
import os
import sys
import traceback

from .core import Ctx
from .model import AnalysisError

DEFAULT_ROOT = os.environ.get("SA_ROOT", "/repo")


def run_rules(prop: str, tier: str, root: str, quiet=False, model=None) -> Ctx:
    mod = importlib.import_module(f"sa.rules.{prop.lower()}")
    ctx = Ctx(prop, tier, root, model=model, quiet=quiet)
    mod.check(ctx)
    if hasattr(mod, "fixtures"):
        mod.fixtures(ctx)
    return ctx


def main(argv=None) -> int:
    ap = argparse.ArgumentParser()
    ap.add_argument("prop")
    ap.add_argument("--tier", default=os.environ.get("VERIF_TIER") or "quick", choices=["quick", "thorough"])
    ap.add_argument("--root", default=DEFAULT_ROOT)
    ap.add_argument("--replay")
    ap.add_argument("--no-write", action="store_true")
    ap.add_argument("--jobs", type=int, default=16)
    args = ap.parse_args(argv)
    prop = args.prop.upper()
    try:
        if args.replay:
            with open(args.replay) as f:
                rep = json.load(f)
            ctx = run_rules(rep["property"], "quick", args.root, quiet=True)
            hit = [f for f in ctx.findings if f.key == rep["key"]]
            if hit:
                f = hit[0]
                print(f"REPLAY: still fails: {f.file}:{f.line} [{f.rule}] {f.construct}: {f.message}")
                return 1
            print("REPLAY: this rule instance no longer fails on the current tree")
            return 0
        ctx = run_rules(prop, args.tier, args.root)
        if args.tier == "thorough":
            from .selftest import run_selftest

            ctx.selftest = run_selftest(prop, ctx, jobs=args.jobs)
            st = ctx.selftest
            print(
                f"[{prop}] self-test: {st['mutants']} mutant(s), {st['detected']} detected, "
                f"{st['negatives']} behaviour-preserving variant(s), {st['negatives_silent']} silent"
            )
            if st["failures"]:
                for line in st["failures"]:
                    print(f"ANALYSIS-ERROR self-test: {line}")
                ctx.finish(write=not args.no_write)
                return 2
        return ctx.finish(write=not args.no_write)
    except AnalysisError as err:
        print(f"ANALYSIS-ERROR property={prop}: {err}")
        return 2
    except Exception:  # the checker itself is broken: never a verdict
        print(f"ANALYSIS-ERROR property={prop}: checker raised\n{traceback.format_exc()}")
        return 2


if __name__ == "__main__":
    sys.exit(main())
