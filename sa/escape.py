"""E3 - exception-escape analysis on arbitrary input.

Abstract interpretation of one function over its CFG. Values are either TRUSTED
(compiler-produced: self.* fields, constants, module globals) or INPUT-derived,
the latter with the set of Python class tags the value may have (refined by
isinstance / `is None` tests) and two flags: `own` (a fresh container, not part
of the caller's object graph) and `hk` (known hashable: a key of an input dict).

The analysis records *hazards*: operations that may raise, because of what the
input is, an exception class other than ValidationError. A hazard is discharged
when an enclosing `try` of the same function has a handler covering the class.
Repo helper functions are analysed interprocedurally (context = abstract
arguments, depth <= 4); child `.deserialize()` calls are summarised by
induction (they raise ValidationError only - the property being proved for every
node); user callables are boundaries.
"""
import ast
from typing import Dict, FrozenSet, List, Optional, Set, Tuple

from .cfg import CFG
from .model import AnalysisError, FuncInfo, Model
from .util import dotted, norm, short, walk_no_nested

TAGS = frozenset({"none", "bool", "int", "float", "str", "list", "dict", "disc", "other"})
HASHABLE_TAGS = frozenset({"none", "bool", "int", "float", "str"})
NUMERIC = frozenset({"bool", "int", "float"})
SIZED = frozenset({"list", "dict", "str"})

ISINSTANCE_TAGS = {
    "int": {"bool", "int"}, "bool": {"bool"}, "float": {"float"}, "str": {"str"},
    "list": {"list"}, "dict": {"dict"}, "Discriminated": {"disc"}, "NoneType": {"none"},
}
METHOD_OWNERS = {
    "items": {"dict"}, "keys": {"dict"}, "values": {"dict"}, "copy": {"dict", "list"}, "get": {"dict"},
    "lower": {"str"}, "upper": {"str"}, "strip": {"str"}, "isdisjoint": set(), "startswith": {"str"},
}
EXC_PARENTS = {
    "KeyError": "LookupError", "IndexError": "LookupError", "LookupError": "Exception",
    "OverflowError": "ArithmeticError", "ZeroDivisionError": "ArithmeticError", "ArithmeticError": "Exception",
    "ValueError": "Exception", "TypeError": "Exception", "AttributeError": "Exception",
    "AssertionError": "Exception", "NotImplementedError": "RuntimeError", "RuntimeError": "Exception",
    "RecursionError": "RuntimeError", "ValidationError": "Exception", "StopIteration": "Exception",
    "Exception": "BaseException", "BaseException": None, "Unsupported": "TypeError",
}


def covers(handler_cls: str, exc: str) -> bool:
    c: Optional[str] = exc
    while c is not None:
        if c == handler_cls:
            return True
        c = EXC_PARENTS.get(c)
    return False


class Val:
    __slots__ = ("kind", "types", "own", "hk", "tv")

    def __init__(self, kind, types=TAGS, own=False, hk=False, tv=False):
        self.kind = kind  # 'T' trusted, 'I' input-derived
        self.types = frozenset(types)
        self.own = own
        self.hk = hk
        self.tv = tv  # a dict with input keys but trusted values (ValidationError.children)

    def key(self):
        return (self.kind, self.types, self.own, self.hk, self.tv)

    def __eq__(self, o):
        return isinstance(o, Val) and self.key() == o.key()

    def __hash__(self):
        return hash(self.key())

    def __repr__(self):
        if self.kind == "T":
            return "T"
        return f"I{sorted(self.types)}{'+own' if self.own else ''}{'+hk' if self.hk else ''}"

    @property
    def maybe_unhashable(self) -> bool:
        if self.kind == "T":
            return False
        if self.hk:
            return False
        return bool(self.types - EXACT_HASHABLE_TAGS)


EXACT_HASHABLE_TAGS = {"none", "bool"}  # subclasses of str / int / float / tuple ... may set __hash__ = None

T = Val("T")
TOP = Val("I", TAGS)
KEYV = Val("I", TAGS - {"list", "dict"}, False, True)
CLASSV = Val("I", {"other"}, True, True)


def join_val(a: Val, b: Val) -> Val:
    if a == b:
        return a
    if a.kind == "T" and b.kind == "T":
        return T
    if a.kind == "T":
        # a trusted alternative (e.g. None init) joined with input: keep input view
        return Val("I", b.types | {"none"}, b.own, b.hk) if True else b
    if b.kind == "T":
        return Val("I", a.types | {"none"}, a.own, a.hk)
    return Val("I", a.types | b.types, a.own and b.own, a.hk and b.hk)


class Hazard:
    def __init__(self, fi, node, excs, msg, via=None):
        self.fi = fi
        self.node = node
        self.excs = set(excs)
        self.msg = msg
        self.via = via or []


class Env:
    def __init__(self, vars=None, facts=None):
        self.vars: Dict[str, Val] = dict(vars or {})
        self.facts: FrozenSet = frozenset(facts or ())

    def copy(self):
        return Env(self.vars, self.facts)

    def __eq__(self, o):
        return self.vars == o.vars and self.facts == o.facts


def join_env(a: Env, b: Env) -> Env:
    out = {}
    for k in set(a.vars) | set(b.vars):
        if k in a.vars and k in b.vars:
            out[k] = join_val(a.vars[k], b.vars[k])
        else:
            out[k] = a.vars.get(k) or b.vars.get(k)
    return Env(out, a.facts & b.facts)


class Boundary:
    """what a call is"""
    CHILD, USER, REPO, BUILTIN, UNKNOWN = "child", "user", "repo", "builtin", "unknown"


# callable parameters that are type constructors applied to input (int / float)
PARAM_CTORS = {("apischema.deserialization.coercion.coerce", "cls")}
# package functions that run user code: treated as boundaries, not analysed
USER_FUNCS = {"apischema.validation.validators.validate"}


class Analyzer:
    def __init__(self, model: Model):
        self.model = model
        self.summaries: Dict[tuple, Tuple[Val, List[Hazard]]] = {}
        self.in_progress: Set[tuple] = set()
        self.stats = {"functions": 0, "cfg_nodes": 0, "hazard_sites": 0, "try_statements": 0}

    # ------------------------------------------------------------------
    def analyse(self, fi: FuncInfo, args: Dict[str, Val], attr_over: Optional[Dict[str, Val]] = None, depth: int = 0) -> Tuple[Val, List[Hazard], List[dict]]:
        """Returns (return value, escaping hazards, handler reports)."""
        key = (fi.qualname, tuple(sorted((k, v.key()) for k, v in args.items())))
        if key in self.summaries:
            return self.summaries[key]
        if key in self.in_progress or depth > 4:
            return (TOP, [], [])
        self.in_progress.add(key)
        run = _Run(self, fi, args, attr_over or {}, depth)
        res = run.run()
        self.last_returns = run.returns
        self.in_progress.discard(key)
        self.summaries[key] = res
        self.stats["functions"] += 1
        return res


class _Run:
    def __init__(self, an: Analyzer, fi: FuncInfo, args, attr_over, depth):
        self.an = an
        self.model = an.model
        self.fi = fi
        self.args = args
        self.attr_over = attr_over
        self.depth = depth
        self.cfg = CFG(fi.node, exc_edges=True)
        an.stats["cfg_nodes"] += len(self.cfg.nodes)
        self.record = False
        self.returns: List[tuple] = []
        self.hazards: Dict[Tuple[int, str], Hazard] = {}
        self.ret = None
        self.parents = {c: p for p in ast.walk(fi.node) for c in ast.iter_child_nodes(p)}
        self.handler_of: Dict[int, ast.ExceptHandler] = {}
        self.lenof: Dict[str, str] = {}
        self.ve_names: Set[str] = set()
        self.boundary_sources: Dict[int, List[str]] = {}
        # locals bound exactly once to `type(x)` / `x.__class__`: a membership test on the local covers a lookup with the expression
        self.keydefs: Dict[str, str] = {}
        stores: Dict[str, int] = {}
        for n in walk_no_nested(fi.node):
            if isinstance(n, ast.Name) and isinstance(n.ctx, ast.Store):
                stores[n.id] = stores.get(n.id, 0) + 1
        for n in walk_no_nested(fi.node):
            tgt = n.targets[0] if isinstance(n, ast.Assign) and len(n.targets) == 1 else n.target if isinstance(n, ast.AnnAssign) and n.value is not None else None
            if isinstance(tgt, ast.Name) and stores.get(tgt.id) == 1 and (
                    (isinstance(n.value, ast.Call) and dotted(n.value.func) == "type" and len(n.value.args) == 1 and isinstance(n.value.args[0], ast.Name))
                    or (isinstance(n.value, ast.Attribute) and n.value.attr == "__class__" and isinstance(n.value.value, ast.Name))):
                self.keydefs[tgt.id] = norm(n.value)
        for n in walk_no_nested(fi.node):
            if isinstance(n, ast.Assign) and isinstance(n.value, ast.Call) and dotted(n.value.func) == "len" and n.value.args and isinstance(n.targets[0], ast.Name):
                self.lenof[n.targets[0].id] = norm(n.value.args[0])
            if isinstance(n, ast.Try):
                an.stats["try_statements"] += 1

    # ---------------------------------------------------------------- run
    def run(self):
        init = Env({k: v for k, v in self.args.items()})
        IN = self.cfg.forward(init, self.transfer, join_env, self.edge)
        self.record = True
        for node, env in IN.items():
            self.transfer(node, env)
        ret = self.ret if self.ret is not None else T
        escaping, reports = self.resolve_handlers()
        return (ret, escaping, reports)

    # ----------------------------------------------------------- transfer
    def transfer(self, node, env: Env) -> Env:
        a = node.ast
        env = env.copy()
        if a is None:
            return env
        if node.kind == "test":
            self.ev(a, env)
            return env
        if node.kind == "iter":
            it = self.ev(a.iter, env)
            self.bind_iter(a.target, a.iter, it, env, a)
            return env
        if node.kind == "with":
            for i in a.items:
                self.ev(i.context_expr, env)
            return env
        if node.kind == "handler":
            if isinstance(a, ast.ExceptHandler) and a.name:
                env.vars[a.name] = T  # exceptions are not input
            if isinstance(a, ast.ExceptHandler) and a.type is not None and norm(a.type) == "OverflowError":
                # arithmetic only overflows when an *integer* operand has to be converted to
                # float (`int % float`, `int / x`): inside the handler the operand is an int
                tr = self.parents.get(a)
                if isinstance(tr, ast.Try):
                    for x in (y for s_ in tr.body for y in ast.walk(s_)):
                        if isinstance(x, ast.BinOp) and isinstance(x.op, (ast.Mod, ast.Div, ast.FloorDiv, ast.Pow)) and isinstance(x.left, ast.Name):
                            cur = env.vars.get(x.left.id)
                            if cur is not None and cur.kind == "I":
                                env.vars[x.left.id] = Val("I", cur.types & {"int", "bool"}, cur.own, cur.hk)
            return env
        if isinstance(a, (ast.FunctionDef, ast.AsyncFunctionDef, ast.ClassDef)):
            return env
        if isinstance(a, ast.Assign):
            v = self.ev(a.value, env)
            for t in a.targets:
                self.assign(t, v, env, a.value)
            return env
        if isinstance(a, ast.AnnAssign):
            if a.value is not None:
                v = self.ev(a.value, env)
                self.assign(a.target, v, env, a.value)
            return env
        if isinstance(a, ast.AugAssign):
            v = self.ev(a.value, env)
            cur = self.ev(a.target, env) if not isinstance(a.target, ast.Name) else env.vars.get(a.target.id, T)
            self.binop_hazard(a, a.op, cur, v)
            if isinstance(a.target, ast.Name):
                env.vars[a.target.id] = join_val(cur, v) if (cur.kind == "I" or v.kind == "I") else T
            return env
        if isinstance(a, ast.Expr):
            self.ev(a.value, env)
            return env
        if isinstance(a, ast.Return):
            if a.value is not None:
                v = self.ev(a.value, env)
                if self.record:
                    self.ret = v if self.ret is None else join_val(self.ret, v)
                    self.returns.append((a, dict(env.vars)))
            return env
        if isinstance(a, ast.Raise):
            self.raise_stmt(a, env)
            return env
        if isinstance(a, ast.Assert):
            v = self.ev(a.test, env)
            if self.involves_input(a.test, env):
                self.hz(a, {"AssertionError"}, f"`assert {short(a.test, 50)}` depends on the input")
            return self.refine(a.test, env, True) or env
        if isinstance(a, ast.Delete):
            for t in a.targets:
                if isinstance(t, ast.Subscript):
                    base = self.ev(t.value, env)
                    k = self.ev(t.slice, env)
                    self.subscript_hazard(t, t.value, base, t.slice, k, env)
            return env
        return env

    def assign(self, target, v: Val, env: Env, value_node=None):
        if isinstance(target, ast.Name):
            env.vars[target.id] = v
            for k_ in [k_ for k_ in env.vars if k_.startswith(target.id + ".")]:
                del env.vars[k_]      # refinements of `x.attr` expressions die with x
            # facts about the old value of this name are void
            env.facts = frozenset(f for f in env.facts if target.id not in f[1:])
        elif isinstance(target, (ast.Tuple, ast.List)):
            if isinstance(value_node, (ast.Tuple, ast.List)) and len(value_node.elts) == len(target.elts):
                for t, vn in zip(target.elts, value_node.elts):
                    self.assign(t, self.ev(vn, env), env, vn)
            else:
                for t in target.elts:
                    self.assign(t, TOP if v.kind == "I" else T, env)
        elif isinstance(target, ast.Subscript):
            base = self.ev(target.value, env)
            k = self.ev(target.slice, env)
            if base.kind == "T" or base.own:
                # storing into a trusted / fresh dict: key must be hashable
                if k.maybe_unhashable and not isinstance(target.slice, ast.Slice):
                    self.hz(target, {"TypeError"}, f"`{short(target, 50)}`: key may be unhashable")
        elif isinstance(target, ast.Attribute):
            self.ev(target.value, env)

    def bind_iter(self, target, iter_node, it: Val, env: Env, node):
        """for <target> in <iter>"""
        elem = T
        pair = None
        if isinstance(iter_node, ast.Call):
            fn = dotted(iter_node.func) or ""
            if fn == "enumerate" and iter_node.args:
                inner = self.ev(iter_node.args[0], env)
                pair = (T, self.elem_of(inner, iter_node.args[0], env))
            elif fn == "zip":
                vals = [self.elem_of(self.ev(x, env), x, env) for x in iter_node.args]
                pair = tuple(vals)
            elif isinstance(iter_node.func, ast.Attribute) and iter_node.func.attr == "items":
                base = self.ev(iter_node.func.value, env)
                if base.kind == "I":
                    pair = (KEYV, T if base.tv else TOP)
                else:
                    pair = (T, T)
            elif fn == "range":
                pair = None
                elem = T
        if pair is not None and isinstance(target, (ast.Tuple, ast.List)) and len(target.elts) == len(pair):
            for t, v in zip(target.elts, pair):
                self.assign(t, v, env)
            return
        if pair is None:
            elem = self.elem_of(it, iter_node, env)
        if it.kind == "I" and not it.own and not (it.types <= SIZED) and pair is None:
            self.hz(node, {"TypeError"}, f"iteration over `{short(iter_node, 40)}` which may not be iterable")
        self.assign(target, elem if pair is None else TOP, env)

    def elem_of(self, it: Val, node, env) -> Val:
        if it.kind == "T":
            return T
        # keys of an input dict / elements of key sets are hashable
        if it.types <= {"dict"} or it.hk:
            return KEYV
        return TOP

    # ---------------------------------------------------------------- edge
    def edge(self, node, label, env: Env):
        if node.kind == "test" and label in ("true", "false"):
            env = env.copy()
            return self.refine(node.ast, env, label == "true")
        if label == "exc":
            return env
        return env

    def refine(self, t, env: Env, truth: bool) -> Optional[Env]:
        if isinstance(t, ast.UnaryOp) and isinstance(t.op, ast.Not):
            return self.refine(t.operand, env, not truth)
        if isinstance(t, ast.BoolOp):
            conj = isinstance(t.op, ast.And)
            if conj == truth:
                # all operands have the value `truth`
                for v in t.values:
                    env = self.refine(v, env, truth)
                    if env is None:
                        return None
                return env
            # at least one operand has the value `truth`: join of the refinements, each one
            # taken after the previous operands had the opposite value (short-circuit)
            acc = None
            prefix = env
            for v in t.values:
                one = self.refine(v, prefix.copy(), truth)
                if one is not None:
                    acc = one if acc is None else join_env(acc, one)
                nxt = self.refine(v, prefix.copy(), not truth)
                if nxt is None:
                    break
                prefix = nxt
            return acc if acc is not None else env
        if isinstance(t, ast.Call) and dotted(t.func) == "isinstance" and len(t.args) == 2 and isinstance(t.args[0], ast.Name):
            name = t.args[0].id
            cur = env.vars.get(name)
            tags = self.class_tags(t.args[1])
            if cur is not None and cur.kind == "I" and tags is not None:
                new = (cur.types & tags) if truth else (cur.types - tags)
                env.vars[name] = Val("I", new, cur.own, cur.hk)
            return env
        if isinstance(t, ast.Call) and dotted(t.func) == "isinstance" and len(t.args) == 2 and isinstance(t.args[0], ast.Attribute) and isinstance(t.args[0].value, ast.Name):
            # isinstance(x.attr, C): the refinement is kept for the expression `x.attr` until x is rebound
            text = norm(t.args[0])
            cur = env.vars.get(text) or self.ev(t.args[0], env)
            tags = self.class_tags(t.args[1])
            if cur is not None and cur.kind == "I" and tags is not None:
                env.vars[text] = Val("I", (cur.types & tags) if truth else (cur.types - tags), cur.own, cur.hk)
            return env
        if isinstance(t, ast.Compare) and len(t.ops) == 1:
            op, l, r = t.ops[0], t.left, t.comparators[0]
            if isinstance(op, (ast.Is, ast.IsNot)) and isinstance(r, ast.Constant) and r.value is None and isinstance(l, ast.Name):
                cur = env.vars.get(l.id)
                is_none = truth == isinstance(op, ast.Is)
                if cur is not None and cur.kind == "I":
                    env.vars[l.id] = Val("I", (cur.types & {"none"}) if is_none else (cur.types - {"none"}), cur.own, cur.hk)
                elif is_none:
                    env.facts = env.facts | {("none", l.id)}
                else:
                    env.facts = frozenset(f for f in env.facts if f != ("none", l.id))
                return env
            if isinstance(op, (ast.In, ast.NotIn)):
                member = truth == isinstance(op, ast.In)
                if member:
                    env.facts = env.facts | {("in", norm(r), self.keydefs.get(l.id, norm(l)) if isinstance(l, ast.Name) else norm(l))}
                return env
            if isinstance(op, (ast.NotEq, ast.Eq)):
                equal = truth == isinstance(op, ast.Eq)
                if equal:
                    a, b = self.len_text(l), self.len_text(r)
                    if a and b:
                        env.facts = env.facts | {("leneq", a, b), ("leneq", b, a)}
                return env
            if isinstance(op, (ast.Lt, ast.Gt, ast.LtE, ast.GtE)):
                # lengths are integers: `not (a < b)` and `not (a > b)` together are `a == b` (the two guard clauses of an exact-length check)
                a, b = self.len_text(l), self.len_text(r)
                if a and b:
                    # normalise to a relation that HOLDS on this edge, written with <= / >= / < / >
                    rel = {ast.Lt: "<", ast.Gt: ">", ast.LtE: "<=", ast.GtE: ">="}[type(op)]
                    if not truth:
                        rel = {"<": ">=", ">": "<=", "<=": ">", ">=": "<"}[rel]
                    env.facts = env.facts | {("lenrel", a, rel, b)}
                    flip = {"<": ">", ">": "<", "<=": ">=", ">=": "<="}
                    have = {f[2] for f in env.facts if f[0] == "lenrel" and f[1] == a and f[3] == b} | {flip[f[2]] for f in env.facts if f[0] == "lenrel" and f[1] == b and f[3] == a}
                    if ">=" in have and "<=" in have:
                        env.facts = env.facts | {("leneq", a, b), ("leneq", b, a)}
                return env
        return env

    def len_text(self, e) -> Optional[str]:
        if isinstance(e, ast.Call) and dotted(e.func) == "len" and e.args:
            return norm(e.args[0])
        if isinstance(e, ast.Name) and e.id in self.lenof:
            return self.lenof[e.id]
        return None

    def class_tags(self, c) -> Optional[Set[str]]:
        if isinstance(c, ast.Tuple):
            out: Set[str] = set()
            for e in c.elts:
                t = self.class_tags(e)
                if t is None:
                    return None
                out |= t
            return out
        name = dotted(c)
        if name in ISINSTANCE_TAGS:
            return set(ISINSTANCE_TAGS[name])
        return None

    # ------------------------------------------------------------- hazards
    def hz(self, node, excs, msg, via=None):
        if not self.record:
            return
        for e in excs:
            k = (id(node), e)
            if k not in self.hazards:
                self.hazards[k] = Hazard(self.fi, node, {e}, msg, via)

    def involves_input(self, e, env) -> bool:
        for n in ast.walk(e):
            if isinstance(n, ast.Name):
                v = env.vars.get(n.id)
                if v is not None and v.kind == "I":
                    return True
        return False

    def subscript_hazard(self, node, base_node, base: Val, key_node, k: Val, env: Env):
        if isinstance(key_node, ast.Slice):
            if base.kind == "I" and not (base.types <= {"list", "str"}) and not base.own:
                self.hz(node, {"TypeError"}, f"slicing `{short(base_node, 40)}` which may not be a sequence")
            return
        member = ("in", norm(base_node), self.keydefs.get(key_node.id, norm(key_node)) if isinstance(key_node, ast.Name) else norm(key_node)) in env.facts
        if base.kind == "T":
            if k.kind == "I":
                if k.maybe_unhashable:
                    self.hz(node, {"TypeError"}, f"`{short(node, 60)}`: lookup key derived from the input may be unhashable")
                if not member:
                    self.hz(node, {"KeyError"}, f"`{short(node, 60)}`: lookup with a key derived from the input, no membership test on this path")
            return
        # input container
        if base.own:
            if not member and base.types <= {"dict"} and k.kind == "I":
                pass
            return
        if not (base.types <= {"list", "dict", "str"}):
            self.hz(node, {"TypeError"}, f"`{short(node, 60)}`: subscript on a value that may not be subscriptable ({sorted(base.types)})")
        if base.types & {"dict"} and not member:
            # data[k]: safe when k was obtained by iterating the same dict (KEY) or under a membership fact
            if not (k.kind == "I" and k.hk):
                self.hz(node, {"KeyError"}, f"`{short(node, 60)}`: key not known to be present")
                # the datum may be a dict *subclass*: an unguarded lookup calls its __missing__
                # (defaultdict inserts the key: the caller's input is modified) - no handler helps
                self.hz(node, {"__missing__"}, f"`{short(node, 60)}`: lookup of a possibly absent key in the input mapping without a membership test; "
                        f"a dict subclass defining __missing__ (defaultdict, Counter) fabricates - and inserts - a value instead of raising KeyError")
        if base.types & {"list", "str"} and not (base.types & {"dict"}):
            ok = False
            # index variable of an enumerate() over a trusted sequence of the same length
            if isinstance(key_node, ast.Name):
                for f in env.facts:
                    if f[0] == "leneq" and f[1] == norm(base_node):
                        ok = ok or self.is_enum_index(key_node.id, f[2])
            if not ok and not (k.kind == "T" and isinstance(key_node, ast.Constant)):
                self.hz(node, {"IndexError"}, f"`{short(node, 60)}`: index not known to be in range")

    def is_enum_index(self, name: str, seq_text: str) -> bool:
        for n in ast.walk(self.fi.node):
            if isinstance(n, (ast.For,)) and isinstance(n.target, ast.Tuple) and n.target.elts and isinstance(n.target.elts[0], ast.Name) and n.target.elts[0].id == name:
                it = n.iter
                if isinstance(it, ast.Call) and dotted(it.func) == "enumerate" and it.args and norm(it.args[0]) == seq_text:
                    return True
        return False

    def binop_hazard(self, node, op, l: Val, r: Val):
        if (l.kind == "I" and l.types <= {"rational"}) or (r.kind == "I" and r.types <= {"rational"}):
            return  # exact rational arithmetic (fractions.Fraction)
        for v in (l, r):
            if v.kind != "I":
                continue
            if isinstance(op, (ast.BitAnd, ast.BitOr, ast.BitXor, ast.Sub)) and (v.hk or v.types <= {"dict"}):
                continue  # set algebra on key views / key sets
            if isinstance(op, (ast.Add,)) and (v.own or v.types <= {"list", "str"}):
                continue
            if isinstance(op, ast.Sub) and v.own:
                continue
            if not (v.types <= NUMERIC):
                self.hz(node, {"TypeError"}, f"`{short(node, 60)}`: arithmetic on a value that may not be a number ({sorted(v.types)})")
            if isinstance(op, (ast.Div, ast.FloorDiv, ast.Pow, ast.Mod)) and (v.types & {"int"}):
                other = r if v is l else l
                if isinstance(op, (ast.Div, ast.Pow)) or other.kind == "T" or (other.types & {"float"}):
                    self.hz(node, {"OverflowError"}, f"`{short(node, 60)}`: an arbitrarily large integer combined with a float (division, power, or % by a float) overflows")
            if isinstance(op, (ast.Div,)) and (v.types & {"float"}) and False:
                pass

    # ------------------------------------------------------------ evaluate
    def ev(self, e, env: Env) -> Val:
        if e is None:
            return T
        m = getattr(self, "ev_" + e.__class__.__name__, None)
        if m is not None:
            return m(e, env)
        # generic: evaluate children, result trusted unless a child is input
        res = T
        for c in ast.iter_child_nodes(e):
            if isinstance(c, ast.expr):
                v = self.ev(c, env)
                if v.kind == "I":
                    res = TOP
        return res

    def ev_Constant(self, e, env):
        return T

    def ev_Name(self, e, env):
        return env.vars.get(e.id, T)

    def ev_Attribute(self, e, env):
        text = norm(e)
        if text in self.attr_over:
            return self.attr_over[text]
        if text in env.vars:
            return env.vars[text]
        base = self.ev(e.value, env)
        if isinstance(e.value, ast.Name) and e.value.id == "self" and self.fi.cls is not None and "self" not in env.vars:
            known = self.known_self_attrs()
            if known is not None and e.attr not in known and not (e.attr.startswith("__") and e.attr.endswith("__")):
                self.hz(e, {"AttributeError"}, f"`self.{e.attr}`: {self.fi.cls.name} (and its bases) define no attribute `{e.attr}`")
        if base.kind == "T":
            return T
        # attribute read on input
        if base.types <= {"disc"}:
            return TOP if e.attr == "data" else T
        if e.attr in ("__class__",):
            return CLASSV  # the class of an arbitrary object: hashable, but any class
        if not isinstance(self.parents.get(e), ast.Call) or self.parents[e].func is not e:
            self.hz(e, {"AttributeError"}, f"`{short(e, 50)}`: attribute read on a value that may be anything ({sorted(base.types)})")
        return TOP

    def known_self_attrs(self):
        """names defined on the class of the analysed method: annotations, class attributes, methods, and
        `self.x = ...` stores, over the repo part of the MRO; None when a base is outside the repo (unknown)"""
        cache = self.an.__dict__.setdefault("_self_attrs", {})
        q = self.fi.cls.qualname
        if q in cache:
            return cache[q]
        names = set()
        ok = True
        for c in self.model.mro(q):
            ci = self.model.classes.get(c)
            if ci is None:
                continue
            if len(ci.raw_bases) != len(ci.bases) and any(b not in ("object", "Generic", "Protocol") and not b.startswith("Generic[") for b in ci.raw_bases if b.split(".")[-1].split("[")[0] not in {x.split(".")[-1] for x in ci.bases}):
                ok = False
            names |= set(ci.annotations) | set(ci.attrs) | set(ci.methods)
            for m in ci.methods.values():
                for n in ast.walk(m.node):
                    if isinstance(n, ast.Attribute) and isinstance(n.ctx, ast.Store) and isinstance(n.value, ast.Name) and n.value.id == "self":
                        names.add(n.attr)
        cache[q] = names if ok else None
        return cache[q]

    def ev_Subscript(self, e, env):
        base = self.ev(e.value, env)
        k = self.ev(e.slice, env) if not isinstance(e.slice, ast.Slice) else T
        if isinstance(e.slice, ast.Slice):
            for part in (e.slice.lower, e.slice.upper, e.slice.step):
                self.ev(part, env)
        if isinstance(e.ctx, ast.Load):
            self.subscript_hazard(e, e.value, base, e.slice, k, env)
        if base.kind == "I":
            if isinstance(e.slice, ast.Slice):
                return Val("I", base.types, True, False)
            if base.tv:
                return T
            return TOP
        return T

    def ev_Slice(self, e, env):
        return T

    def ev_Starred(self, e, env):
        return self.ev(e.value, env)

    def ev_JoinedStr(self, e, env):
        for v in e.values:
            if isinstance(v, ast.FormattedValue):
                fv = self.ev(v.value, env)
                if fv.kind == "I" and not fv.own and fv.types & {"int"}:
                    self.hz(v, {"ValueError"}, f"`{short(v.value, 40)}` formatted into a string: decimal conversion of a huge int from the input raises ValueError (Python >= 3.11)")
        return T

    def ev_Lambda(self, e, env):
        return T

    def ev_IfExp(self, e, env):
        self.ev(e.test, env)
        et = self.refine(e.test, env.copy(), True) or env
        ef = self.refine(e.test, env.copy(), False) or env
        return join_val(self.ev(e.body, et), self.ev(e.orelse, ef))

    def ev_BoolOp(self, e, env):
        cur = env
        res = None
        for v in e.values:
            val = self.ev(v, cur)
            res = val if res is None else join_val(res, val)
            nxt = self.refine(v, cur.copy(), isinstance(e.op, ast.And))
            cur = nxt or cur
        return res or T

    def ev_UnaryOp(self, e, env):
        v = self.ev(e.operand, env)
        if isinstance(e.op, ast.Not):
            return T
        if v.kind == "I" and not (v.types <= NUMERIC):
            self.hz(e, {"TypeError"}, f"`{short(e, 40)}`: unary operator on a value that may not be a number")
        return v

    def ev_BinOp(self, e, env):
        l, r = self.ev(e.left, env), self.ev(e.right, env)
        self.binop_hazard(e, e.op, l, r)
        if l.kind == "I" or r.kind == "I":
            both_own = (l.kind == "T" or l.own or l.types <= {"dict"}) and (r.kind == "T" or r.own)
            if isinstance(e.op, ast.BitAnd) and (l.kind == "T" or r.kind == "T"):
                return T  # intersection with a trusted set: its elements equal trusted ones
            if isinstance(e.op, (ast.BitAnd, ast.BitOr, ast.Sub, ast.BitXor)):
                return Val("I", TAGS, True, True)  # set algebra on key views: fresh set of keys
            return Val("I", (l.types if l.kind == "I" else frozenset()) | (r.types if r.kind == "I" else frozenset()) or TAGS, True, False)
        return T

    def ev_Compare(self, e, env):
        vals = [self.ev(e.left, env)] + [self.ev(c, env) for c in e.comparators]
        left = e.left
        for op, rnode, (lv, rv) in zip(e.ops, e.comparators, zip(vals, vals[1:])):
            if isinstance(op, (ast.In, ast.NotIn)):
                # x in C
                if rv.kind == "T":
                    if lv.maybe_unhashable and not isinstance(rnode, (ast.Tuple, ast.List)):
                        self.hz(e, {"TypeError"}, f"`{short(e, 60)}`: membership test of a possibly unhashable value in a hash container")
                else:
                    if not rv.own and not (rv.types <= {"list", "dict", "str"}):
                        self.hz(e, {"TypeError"}, f"`{short(e, 60)}`: `in` on a value that may not be a container ({sorted(rv.types)})")
                    if rv.types <= {"dict"} and lv.maybe_unhashable:
                        self.hz(e, {"TypeError"}, f"`{short(e, 60)}`: possibly unhashable value tested against dict keys")
            elif isinstance(op, (ast.Lt, ast.LtE, ast.Gt, ast.GtE)):
                for v in (lv, rv):
                    if v.kind == "I" and not (v.types <= NUMERIC):
                        self.hz(e, {"TypeError"}, f"`{short(e, 60)}`: ordering comparison on a value that may not be a number ({sorted(v.types)})")
            left = rnode
        return T

    def comp_env(self, generators, env: Env) -> Env:
        env = env.copy()
        for g in generators:
            it = self.ev(g.iter, env)
            self.bind_iter(g.target, g.iter, it, env, g.iter)
            for cond in g.ifs:
                self.ev(cond, env)
                env = self.refine(cond, env, True) or env
        return env

    def ev_ListComp(self, e, env):
        env2 = self.comp_env(e.generators, env)
        v = self.ev(e.elt, env2)
        return Val("I", {"list"}, True, False) if (v.kind == "I" or any(self.ev(g.iter, env).kind == "I" for g in e.generators)) else T

    ev_GeneratorExp = ev_ListComp

    def ev_SetComp(self, e, env):
        env2 = self.comp_env(e.generators, env)
        v = self.ev(e.elt, env2)
        if v.maybe_unhashable:
            self.hz(e, {"TypeError"}, f"`{short(e, 60)}`: set element may be unhashable")
        return Val("I", TAGS, True, True) if v.kind == "I" else T

    def ev_DictComp(self, e, env):
        env2 = self.comp_env(e.generators, env)
        k = self.ev(e.key, env2)
        v = self.ev(e.value, env2)
        if k.maybe_unhashable:
            self.hz(e, {"TypeError"}, f"`{short(e, 60)}`: dict key may be unhashable")
        return Val("I", {"dict"}, True, False) if (k.kind == "I" or v.kind == "I") else T

    def ev_Dict(self, e, env):
        anyin = False
        for k, v in zip(e.keys, e.values):
            if k is not None:
                kv = self.ev(k, env)
                if kv.maybe_unhashable:
                    self.hz(e, {"TypeError"}, f"`{short(e, 60)}`: dict key may be unhashable")
                anyin = anyin or kv.kind == "I"
            vv = self.ev(v, env)
            anyin = anyin or vv.kind == "I"
        return Val("I", {"dict"}, True, False) if anyin else T

    def ev_Set(self, e, env):
        for x in e.elts:
            v = self.ev(x, env)
            if v.maybe_unhashable:
                self.hz(e, {"TypeError"}, f"`{short(e, 60)}`: set element may be unhashable")
        return T

    def ev_List(self, e, env):
        anyin = any(self.ev(x, env).kind == "I" for x in e.elts)
        return Val("I", {"list"}, True, False) if anyin else T

    ev_Tuple = ev_List

    # ---------------------------------------------------------------- calls
    def ev_Call(self, e, env):
        f = e.func
        argv = [self.ev(a, env) for a in e.args]
        kwv = {k.arg: self.ev(k.value, env) for k in e.keywords}
        fname = dotted(f) or ""
        # ---- builtins
        if isinstance(f, ast.Name) and f.id not in env.vars:
            b = f.id
            a0 = argv[0] if argv else T
            if b in ("isinstance", "type", "str", "repr", "bool", "id", "callable", "print", "hasattr", "getattr", "enumerate", "zip", "range", "super", "iter", "object", "format"):
                if b == "type" and argv:
                    return CLASSV if a0.kind == "I" else T
                if b in ("str", "repr", "format") and a0.kind == "I" and not a0.own and a0.types & {"int"} and not isinstance(e.args[0], ast.Call):
                    self.hz(e, {"ValueError"}, f"`{short(e, 40)}`: decimal conversion of an int from the input exceeds the interpreter's digit limit for huge values (Python >= 3.11)")
                return T if b != "enumerate" else a0
            if b == "hash":
                if a0.maybe_unhashable or (a0.kind == "I" and a0.own and not a0.hk):
                    self.hz(e, {"TypeError"}, f"`{short(e, 40)}`: hash() of a possibly unhashable value")
                return T
            if b == "len":
                if a0.kind == "I" and not a0.own and not (a0.types <= SIZED):
                    self.hz(e, {"TypeError"}, f"`{short(e, 40)}`: len() of a value that may not be sized ({sorted(a0.types)})")
                return T
            if b in ("int", "float", "round", "abs", "complex"):
                if a0.kind == "I":
                    excs = set()
                    if b in ("int", "float"):
                        if not (a0.types <= NUMERIC):
                            excs |= {"TypeError", "ValueError"}
                        if b == "int" and a0.types & {"float"}:
                            excs |= {"OverflowError", "ValueError"}
                        if b == "float" and a0.types & {"int", "bool"} - {"bool"}:
                            excs |= {"OverflowError"}
                        if a0.types & {"str"}:
                            excs |= {"ValueError"}
                    elif b == "round":
                        if not (a0.types <= NUMERIC):
                            excs |= {"TypeError"}
                        if a0.types & {"float"} or not (a0.types <= NUMERIC):
                            excs |= {"OverflowError", "ValueError"}
                    elif b == "abs":
                        if not (a0.types <= NUMERIC):
                            excs |= {"TypeError"}
                    if excs:
                        self.hz(e, excs, f"`{short(e, 50)}`: {b}() of a value derived from the input ({sorted(a0.types)})")
                    return Val("I", {"int", "float"}, True, True)
                return T
            if b in ("list", "tuple", "dict", "set", "frozenset", "sorted", "map", "filter", "sum", "min", "max", "any", "all", "reversed", "next"):
                src = argv[-1] if (b in ("map", "filter") and len(argv) >= 2) else a0
                if b in ("map", "filter") and e.args and len(argv) >= 2:
                    # map(f, xs): f applied to each element
                    fn = e.args[0]
                    elem = self.elem_of(src, e.args[1], env)
                    res = self.apply_callable(e, fn, [elem], env)
                    return Val("I", {"list"}, True, res.hk and not res.maybe_unhashable) if (src.kind == "I" or res.kind == "I") else T
                if src.kind == "I" and not src.own and not (src.types <= SIZED) and b not in ("sorted",):
                    self.hz(e, {"TypeError"}, f"`{short(e, 50)}`: {b}() of a value that may not be iterable")
                if b in ("set", "frozenset") and src.kind == "I":
                    # elements must be hashable
                    elem_unhashable = not (src.hk or src.types <= {"dict"})
                    if elem_unhashable:
                        self.hz(e, {"TypeError"}, f"`{short(e, 60)}`: building a set from elements that may be unhashable")
                    return Val("I", TAGS, True, True)
                if b == "sorted" and src.kind == "I":
                    keyfn = None
                    for k in e.keywords:
                        if k.arg == "key":
                            keyfn = k.value
                    if not self.total_key(keyfn):
                        self.hz(e, {"TypeError"}, f"`{short(e, 60)}`: sorting values from the input which may be of mutually unorderable types")
                    return Val("I", {"list"}, True, src.hk or src.types <= {"dict"})
                if src.kind == "I":
                    return Val("I", {"list"} if b in ("list", "tuple", "reversed") else ({"dict"} if b == "dict" else TAGS), True, src.hk)
                return T
            if b in ISINSTANCE_TAGS or b in ("NotImplementedError", "ValueError", "TypeError", "KeyError"):
                return T
            if b == "Fraction":
                # exact rational arithmetic: no overflow; inf / nan cannot be converted
                if a0.kind == "I":
                    excs = set()
                    if not (a0.types <= NUMERIC):
                        excs |= {"TypeError", "ValueError"}
                    if a0.types & {"float"}:
                        excs |= {"OverflowError", "ValueError"}
                    if excs:
                        self.hz(e, excs, f"`{short(e, 50)}`: Fraction() of a value derived from the input ({sorted(a0.types)})")
                return Val("I", {"rational"}, True, True)
        # ---- method calls
        if isinstance(f, ast.Attribute):
            recv = self.ev(f.value, env)
            attr = f.attr
            recv_text = norm(f.value)
            if recv.kind == "I":
                owners = METHOD_OWNERS.get(attr)
                if not recv.own:
                    if owners is None or not (recv.types <= owners):
                        if not (recv.types <= {"disc"}):
                            self.hz(e, {"AttributeError"}, f"`{short(e, 60)}`: method `.{attr}` called on a value that may be anything ({sorted(recv.types)})")
                if attr in ("keys",):
                    return Val("I", TAGS, False, True) if not recv.own else Val("I", TAGS, True, True)
                if attr in ("items", "values"):
                    return Val("I", {"list"}, True, False, recv.tv)
                if attr == "copy":
                    return Val("I", recv.types, True, recv.hk)
                if attr in ("add", "update", "difference_update", "discard", "remove", "append", "extend", "setdefault", "pop", "clear", "isdisjoint", "union", "intersection"):
                    for a in argv:
                        if attr in ("add", "discard", "remove") and a.maybe_unhashable and recv.hk:
                            self.hz(e, {"TypeError"}, f"`{short(e, 60)}`: possibly unhashable value put in a set")
                    return T
                if attr in ("lower", "upper", "strip"):
                    return Val("I", {"str"}, True, True)
                if attr == "get":
                    return T if recv.tv else TOP
                return TOP
            # trusted receiver
            if attr in ("deserialize",) :
                a0 = argv[0] if argv else T
                # result of a child node: a value of unknown content (possibly the input
                # itself); iterable / sized as far as the parent node was compiled for it
                return Val("I", TAGS, True, a0.hk) if a0.kind == "I" else Val("I", TAGS, True, False)
            if attr in ("add", "discard", "remove", "index", "count") or (attr in ("get", "pop", "setdefault", "__getitem__") and argv):
                a0 = argv[0] if argv else T
                if a0.maybe_unhashable and not self.is_list_recv(f.value, env):
                    self.hz(e, {"TypeError"}, f"`{short(e, 60)}`: possibly unhashable value used with a hash container")
                return T if attr != "get" else T
            if attr in ("isdisjoint", "issubset", "issuperset", "union", "intersection", "difference", "update", "difference_update", "intersection_update"):
                for a, an in zip(argv, e.args):
                    if a.kind == "I" and not (a.own or a.types <= {"dict"} or a.hk):
                        self.hz(e, {"TypeError"}, f"`{short(e, 60)}`: set operation with input elements that may be unhashable / not iterable")
                return T
            if attr in ("match", "fullmatch", "search"):
                a0 = argv[0] if argv else T
                if a0.kind == "I" and not (a0.types <= {"str"}):
                    self.hz(e, {"TypeError"}, f"`{short(e, 60)}`: regular expression applied to a value that may not be a string ({sorted(a0.types)})")
                return T
            if attr in ("format", "join", "append", "extend", "items", "keys", "values", "copy", "lower", "startswith"):
                return T
            # self.method(...) resolved in the package
            kind, targets = self.model.resolve_call(self.fi, e)
            if kind in ("method", "super") and targets and isinstance(f.value, (ast.Name, ast.Call)):
                return self.call_repo(e, targets[0], argv, kwv, env, skip_self=True)
            if kind == "func" and targets:
                return self.call_repo(e, targets[0], argv, kwv, env)
            # any other call through a trusted object: user callable boundary
            return TOP if any(a.kind == "I" for a in argv) else T
        # ---- plain names: repo functions, parameters, locals
        if isinstance(f, ast.Name):
            if f.id in env.vars or f.id in self.args:
                if (self.fi.qualname, f.id) in PARAM_CTORS and argv and argv[0].kind == "I":
                    self.hz(e, {"ValueError", "TypeError", "OverflowError"}, f"`{short(e, 40)}`: type constructor applied to the input")
                    return Val("I", {"int", "float"}, True, True)
                return TOP if any(a.kind == "I" for a in argv) else T
            kind, targets = self.model.resolve_call(self.fi, e)
            if kind == "func" and targets:
                return self.call_repo(e, targets[0], argv, kwv, env)
            if kind == "class":
                return T
            return TOP if any(a.kind == "I" for a in argv) else T
        self.ev(f, env)
        return TOP if any(a.kind == "I" for a in argv) else T

    def is_list_recv(self, node, env) -> bool:
        return False

    def total_key(self, keyfn) -> bool:
        """sorted(..., key=lambda k: (k.__class__.__name__, str(k))): keys built from
        str() / names only are totally ordered."""
        if not isinstance(keyfn, ast.Lambda):
            return False
        body = keyfn.body
        elts = body.elts if isinstance(body, ast.Tuple) else [body]
        for x in elts:
            ok = (isinstance(x, ast.Call) and dotted(x.func) in ("str", "repr")) or (isinstance(x, ast.Attribute) and x.attr in ("__name__", "__qualname__")) or isinstance(x, ast.Constant)
            if not ok:
                return False
        return True

    def apply_callable(self, call_node, fn, argv, env) -> Val:
        if isinstance(fn, ast.Name):
            q = self.model.resolve_name(self.fi.module, fn.id)
            if q in self.model.functions and fn.id not in env.vars:
                return self.call_repo(call_node, q, argv, {}, env)
            if fn.id in ("str", "type", "repr", "id"):
                return T
        return TOP if any(a.kind == "I" for a in argv) else T

    def call_repo(self, node, q: str, argv, kwv, env, skip_self=False) -> Val:
        if q in USER_FUNCS or q not in self.model.functions:
            return TOP if any(a.kind == "I" for a in argv) else T
        callee = self.model.functions[q]
        if not any(a.kind == "I" for a in list(argv) + list(kwv.values())):
            # still analyse: hazards may come from attribute overrides; cheap skip
            return T
        params = [p for p in callee.params if not (skip_self and p == "self")]
        if callee.cls is not None and params and params[0] == "self":
            params = params[1:]
        args = {}
        for p, v in zip(params, argv):
            args[p] = v
        if callee.node.args.vararg and len(argv) > len(params):
            args[callee.node.args.vararg.arg] = T
        for k, v in kwv.items():
            if k in params:
                args[k] = v
        ret, escaping, _ = self.an.analyse(callee, args, self.attr_over, self.depth + 1)
        for h in escaping:
            for exc in h.excs:
                self.hz(node, {exc}, f"`{short(node, 50)}` -> {callee.name}: {h.msg}", via=[callee.qualname] + h.via)
        return ret

    # ---------------------------------------------------------------- raise
    def raise_stmt(self, a: ast.Raise, env: Env):
        if a.exc is None:
            return  # re-raise: judged with its handler in resolve_handlers
        exc = a.exc
        self.ev(exc, env)
        if isinstance(exc, ast.Name) and ("none", exc.id) in env.facts:
            self.hz(a, {"TypeError"}, f"`{short(a, 40)}`: `{exc.id}` is None here (asserted / tested just before): `raise None` is a TypeError")
            return
        cls = self.exc_class(exc, env)
        if cls in ("ValidationError", None):
            if cls is None:
                self.hz(a, {"Exception"}, f"`{short(a, 60)}`: raised object cannot be shown to be a ValidationError")
            return
        if cls == "NotImplementedError" and self.unreachable_arm(a):
            return
        self.hz(a, {cls}, f"`{short(a, 60)}` is reachable")

    def exc_class(self, exc, env, depth=0) -> Optional[str]:
        if isinstance(exc, ast.Call):
            name = (dotted(exc.func) or "").split(".")[-1]
            if name in ("bad_type", "merge_errors", "ValidationError", "build_validation_error", "apply_aliaser"):
                return "ValidationError"
            if name in EXC_PARENTS:
                return name
            return None
        if isinstance(exc, ast.Name):
            if exc.id in EXC_PARENTS:
                return exc.id
            kinds = set()
            for n in walk_no_nested(self.fi.node):
                if isinstance(n, ast.Assign) and any(isinstance(t, ast.Name) and t.id == exc.id for t in n.targets):
                    if isinstance(n.value, ast.Constant) and n.value.value is None:
                        continue
                    kinds.add(self.exc_class(n.value, env, depth + 1) if depth < 3 else None)
                elif isinstance(n, ast.AnnAssign) and isinstance(n.target, ast.Name) and n.target.id == exc.id and n.value is not None:
                    if isinstance(n.value, ast.Constant) and n.value.value is None:
                        continue
                    kinds.add(self.exc_class(n.value, env, depth + 1) if depth < 3 else None)
                elif isinstance(n, ast.ExceptHandler) and n.name == exc.id:
                    names = [(dotted(t) or "?").split(".")[-1] for t in (n.type.elts if isinstance(n.type, ast.Tuple) else [n.type])] if n.type is not None else ["BaseException"]
                    kinds.update(names)
            if kinds == {"ValidationError"}:
                return "ValidationError"
            return None if (not kinds or None in kinds or len(kinds) > 1) else kinds.pop()
        return None

    def unreachable_arm(self, a: ast.Raise) -> bool:
        """`else: raise NotImplementedError` after `if x < y ... elif x > y ...` under `x != y`."""
        p = self.parents.get(a)
        if not isinstance(p, ast.If) or a not in p.orelse:
            return False
        t2 = p.test
        chain = [t2]
        q = self.parents.get(p)
        if isinstance(q, ast.If) and p in q.orelse:
            chain.append(q.test)
            outer = self.parents.get(q)
        else:
            return False
        ops = []
        operands = set()
        for t in chain:
            if not (isinstance(t, ast.Compare) and len(t.ops) == 1):
                return False
            ops.append(type(t.ops[0]))
            operands.add((norm(t.left), norm(t.comparators[0])))
        if set(ops) != {ast.Lt, ast.Gt} or len(operands) != 1:
            return False
        if isinstance(outer, ast.If) and isinstance(outer.test, ast.Compare) and isinstance(outer.test.ops[0], ast.NotEq):
            o = (norm(outer.test.left), norm(outer.test.comparators[0]))
            return o in operands
        return False

    # ------------------------------------------------------ handler logic
    def enclosing_tries(self, node) -> List[ast.Try]:
        """try statements (innermost first) whose *body* contains node."""
        out = []
        child = node
        p = self.parents.get(node)
        while p is not None and p is not self.fi.node:
            if isinstance(p, ast.Try):
                # is `child` within p.body ?
                if any(child is s or any(child is x for x in ast.walk(s)) for s in p.body):
                    out.append(p)
            elif isinstance(p, ast.With) and any(isinstance(i.context_expr, ast.Call) and (dotted(i.context_expr.func) or "").endswith("suppress") for i in p.items):
                out.append(p)
            child = p
            p = self.parents.get(p)
        return out

    def handler_classes(self, t) -> List[Tuple[List[str], Optional[ast.ExceptHandler]]]:
        if isinstance(t, ast.With):
            names = []
            for i in t.items:
                if isinstance(i.context_expr, ast.Call):
                    names += [(dotted(a) or "?").split(".")[-1] for a in i.context_expr.args]
            return [(names, None)]
        out = []
        for h in t.handlers:
            if h.type is None:
                out.append((["BaseException"], h))
            else:
                elts = h.type.elts if isinstance(h.type, ast.Tuple) else [h.type]
                out.append(([(dotted(x) or "?").split(".")[-1] for x in elts], h))
        return out

    def resolve_handlers(self):
        escaping: List[Hazard] = []
        caught_by: Dict[int, Set[str]] = {}
        for (nid, exc), h in self.hazards.items():
            caught = False
            for t in self.enclosing_tries(h.node):
                for names, hd in self.handler_classes(t):
                    if any(covers(n, exc) for n in names):
                        caught = True
                        if hd is not None:
                            caught_by.setdefault(id(hd), set()).add(exc)
                        break
                if caught:
                    break
            if not caught:
                escaping.append(h)
        self.an.stats["hazard_sites"] += len(self.hazards)
        # handler precision reports
        reports = []
        for t in ast.walk(self.fi.node):
            if not isinstance(t, ast.Try):
                continue
            body_nodes = [x for s in t.body for x in ast.walk(s)]
            body_ids = {id(x) for x in body_nodes}
            body_hz = [h for h in self.hazards.values() if id(h.node) in body_ids]
            opaque = self.body_opaque_sources(body_nodes)
            for names, hd in self.handler_classes(t):
                useful_excs = caught_by.get(id(hd), set())
                useful = bool(useful_excs) or any(self.opaque_may_raise(src, n) for src in opaque for n in names)
                uncaught = sorted({e for h in body_hz for e in h.excs if h in escaping})
                reports.append({"try": t, "handler": hd, "names": names, "useful": useful, "uncaught_in_body": uncaught, "body_hazards": body_hz})
        return escaping, reports

    def body_opaque_sources(self, nodes) -> List[str]:
        """calls in a try body that may raise things the hazard table does not model:
        'child' (ValidationError), 'user' (anything), 'repo:<name>' (ValidationError)."""
        out = []
        for n in nodes:
            if isinstance(n, ast.Call):
                f = n.func
                if isinstance(f, ast.Attribute):
                    if f.attr == "deserialize":
                        out.append("child")
                    elif f.attr in ("validate",) or norm(f.value).startswith("self.") or isinstance(f.value, ast.Name):
                        out.append("user")
                elif isinstance(f, ast.Name):
                    q = self.model.resolve_name(self.fi.module, f.id)
                    if q in USER_FUNCS:
                        out.append("user")
                    elif q in self.model.functions:
                        out.append("repo")
                    elif f.id in self.args or f.id in ("next",):
                        out.append("user")
            elif isinstance(n, ast.Raise):
                out.append("raise")
        return out

    def opaque_may_raise(self, src: str, handler_cls: str) -> bool:
        if src == "user":
            return True
        if src in ("child", "repo", "raise"):
            return covers(handler_cls, "ValidationError") or handler_cls == "ValidationError"
        return False
