"""Propositional evaluation of boolean expressions read off the source.

An expression of the program (a selection predicate, a constructor flag, the
body of a predicate method) is evaluated under a *valuation* of named atoms.
Sub-expressions are mapped to atoms by an ordered list of recognisers
(normalised text -> atom, or callables); local variables are replaced by their
single definition; calls of package predicates (`field.skippable(a, b)`,
properties) are inlined with parameter substitution. Anything unrecognised
raises AnalysisError: the caller reports exit 2, never a verdict.

This is table evaluation of a finite propositional formula, not solving.
"""
import ast
import itertools
from typing import Callable, Dict, Iterable, List, Optional, Tuple

from .model import AnalysisError
from .util import dotted, norm


class Unknown(AnalysisError):
    pass


# facts established by the entry check of every object node (`if not isinstance(data, dict): raise bad_type`): when that check is
# written as a guard clause it appears in the reach condition of everything after it; the tables describe what happens to a dict
GIVENS = {"isinstance(data, dict)": True}


class BoolEval:
    def __init__(self, atoms: Dict[str, str], locals_: Optional[Dict[str, ast.AST]] = None,
                 inline: Optional[Callable] = None,
                 special: Optional[Callable] = None):
        """atoms: normalised source text -> atom name (prefix `!` negates).
        inline(node, evaluator, None) / special(node, None) return a *closure*
        valuation -> value, or None when they do not recognise the node."""
        self.atoms = atoms
        self.locals = locals_ or {}
        self.inline = inline
        self.special = special

    def ev(self, e, val: Dict[str, bool], depth: int = 0):
        return self.compile(e)(val)

    def compile(self, e, depth: int = 0) -> Callable[[Dict[str, bool]], object]:
        """Expression -> closure over a valuation (compiled once, cached by node)."""
        cache = self.__dict__.setdefault("_cache", {})
        k = id(e)
        if k in cache and cache[k][0] is e:
            return cache[k][1]
        fn = self._compile(e, depth)
        cache[k] = (e, fn)
        return fn

    def _compile(self, e, depth):
        if depth > 40:
            raise Unknown("expression too deep")
        text = norm(e)
        if self.special is not None:
            probe = self.special(e, None)
            if probe is not None:
                return probe
        if text in self.atoms:
            a = self.atoms[text]
            if a.startswith("!"):
                name = a[1:]
                return lambda v: not v[name]
            return lambda v: v[a]
        if text in GIVENS:
            g = GIVENS[text]
            return lambda v: g
        if isinstance(e, ast.Constant):
            c = e.value
            return lambda v: c
        if isinstance(e, ast.BoolOp):
            subs = [self.compile(x, depth + 1) for x in e.values]
            if isinstance(e.op, ast.And):
                def f_and(v):
                    r = True
                    for s_ in subs:
                        r = s_(v)
                        if not r:
                            return r
                    return r
                return f_and

            def f_or(v):
                r = False
                for s_ in subs:
                    r = s_(v)
                    if r:
                        return r
                return r
            return f_or
        if isinstance(e, ast.UnaryOp) and isinstance(e.op, ast.Not):
            sub = self.compile(e.operand, depth + 1)
            return lambda v: not sub(v)
        if isinstance(e, ast.IfExp):
            t, a_, b_ = self.compile(e.test, depth + 1), self.compile(e.body, depth + 1), self.compile(e.orelse, depth + 1)
            return lambda v: a_(v) if t(v) else b_(v)
        if isinstance(e, ast.Name):
            if e.id in self.locals:
                return self.compile(self.locals[e.id], depth + 1)
            raise Unknown(f"unmapped name `{e.id}`")
        if isinstance(e, ast.Compare) and len(e.ops) == 1:
            op = e.ops[0]
            if isinstance(op, (ast.Eq, ast.NotEq)):
                l, r = self.compile(e.left, depth + 1), self.compile(e.comparators[0], depth + 1)
                if isinstance(op, ast.Eq):
                    return lambda v: bool(l(v)) == bool(r(v))
                return lambda v: bool(l(v)) != bool(r(v))
        if isinstance(e, ast.Call):
            fn = dotted(e.func) or ""
            if fn == "bool" and len(e.args) == 1:
                sub = self.compile(e.args[0], depth + 1)
                return lambda v: bool(sub(v))
            if fn in ("all", "any") and len(e.args) == 1 and isinstance(e.args[0], (ast.GeneratorExp, ast.ListComp)):
                # quantification over the elements of a collection: evaluated on a
                # generic element (the atoms describe that element)
                return self.compile(e.args[0].elt, depth + 1)
            if self.inline is not None:
                r = self.inline(e, self, None)
                if r is not None:
                    return r
        if isinstance(e, ast.Attribute) and self.inline is not None:
            r = self.inline(e, self, None)
            if r is not None:
                return r
        raise Unknown(f"cannot map `{text}` to the atoms of the table")


def valuations(atoms: List[str], constraint: Optional[Callable[[Dict[str, bool]], bool]] = None) -> Iterable[Dict[str, bool]]:
    for bits in itertools.product((False, True), repeat=len(atoms)):
        v = dict(zip(atoms, bits))
        if constraint is None or constraint(v):
            yield v


def substitute(node: ast.AST, mapping: Dict[str, ast.AST]) -> ast.AST:
    """copy of `node` with Names replaced (parameter substitution for inlining)."""
    class Sub(ast.NodeTransformer):
        def visit_Name(self, n):
            if n.id in mapping:
                return mapping[n.id]
            return n
    import copy
    return Sub().visit(copy.deepcopy(node))


def single_return_expr(func: ast.FunctionDef) -> ast.AST:
    """The value of a predicate function as one expression. Accepted shapes: a single
    `return e`, or a cascade of guard clauses `if c: return a` (optionally with an
    `else: return b`) ending with `return z`, folded into `a if c else (...)`."""
    body = [s for s in func.body if not (isinstance(s, ast.Expr) and isinstance(s.value, ast.Constant))]

    def fold(stmts):
        if not stmts:
            raise Unknown(f"{func.name} can fall off its end")
        s0 = stmts[0]
        if isinstance(s0, ast.Return) and s0.value is not None:
            return s0.value
        if isinstance(s0, ast.If):
            then = fold(s0.body)
            rest = fold(s0.orelse) if s0.orelse else fold(stmts[1:])
            return ast.IfExp(test=s0.test, body=then, orelse=rest)
        raise Unknown(f"{func.name} is not a predicate made of guard clauses and returns (`{norm(s0)[:40]}`)")

    return fold(body)


def show(val: Dict[str, bool], only_true: bool = True) -> str:
    return ", ".join(k for k, v in sorted(val.items()) if v) or "(all false)"
