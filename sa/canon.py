"""Canonicalisation of the analysed sources (applied by the model loader, before any rule runs).

Rules are written against the spelling of the pinned tree. Behaviour-preserving respellings must not change a
verdict, so the loader first brings every module to a canonical form:

  1. symmetric comparisons (== != is is-not) are oriented: the constant-like operand (literal, None, a class, an
     UPPER_CASE / Capitalised name, a builtin type) goes right; otherwise the operands are ordered by their text;
  2. `if not c: A else: B` (no elif) becomes `if c: B else: A`;
  3. `if a:` whose whole body is `if b: body` (no else on either) becomes `if a and b: body`;
  4. local variables are given back the name they have in the reference table (sa/local_names.json, generated from
     the pinned tree by tools/gen_local_names.py) when their *defining site* is textually the same: a renamed local
     (alpha-equivalent code) is analysed under the name the rules know.

  5. a temporary the reference does not know, assigned once and read once by the next statement (before any other
     call), is inlined again (undoes "extract variable").

All five are semantics-preserving, positions (lineno) are kept for the reports. A definition that changed is not
matched by (4) and is analysed as it is.
"""
import ast
import json
import os
from typing import Dict, List, Optional, Tuple

BUILTIN_CONST = {"None", "True", "False", "Ellipsis", "type", "object", "str", "int", "float", "bool", "list", "dict", "tuple", "set", "frozenset", "bytes", "identity", "Any"}
SYM = (ast.Eq, ast.NotEq, ast.Is, ast.IsNot)


def _constlike(n: ast.AST) -> bool:
    if isinstance(n, ast.Constant):
        return True
    if isinstance(n, ast.Name):
        return n.id in BUILTIN_CONST or n.id[:1].isupper() or n.id.isupper()
    if isinstance(n, ast.Attribute):
        root = n
        while isinstance(root, ast.Attribute):
            root = root.value
        return n.attr.isupper() or (isinstance(root, ast.Name) and (root.id[:1].isupper() or root.id in ("inspect", "dataclasses", "graphql", "object")))
    if isinstance(n, (ast.Tuple, ast.List, ast.Set, ast.Dict)):
        return all(_constlike(e) for e in getattr(n, "elts", [])) if not isinstance(n, ast.Dict) else False
    return False


class _Shape(ast.NodeTransformer):
    def visit_Compare(self, node):
        self.generic_visit(node)
        if len(node.ops) == 1 and isinstance(node.ops[0], SYM):
            l, r = node.left, node.comparators[0]
            cl, cr = _constlike(l), _constlike(r)
            swap = (cl and not cr) or (cl == cr and ast.unparse(l) > ast.unparse(r))
            if swap:
                node.left, node.comparators = r, [l]
        return node

    def visit_Call(self, node):
        self.generic_visit(node)
        # typing.cast(T, e) is e at run time (T is a type expression: evaluating it has no effect)
        if isinstance(node.func, ast.Name) and node.func.id == "cast" and len(node.args) == 2 and not node.keywords:
            return node.args[1]
        return node

    def visit_comprehension(self, node):
        self.generic_visit(node)
        # `for x in xs if a if b` is `for x in xs if a and b`
        if len(node.ifs) > 1:
            vals = []
            for t in node.ifs:
                vals.extend(t.values if isinstance(t, ast.BoolOp) and isinstance(t.op, ast.And) else [t])
            node.ifs = [ast.copy_location(ast.BoolOp(op=ast.And(), values=vals), node.ifs[0])]
        return node

    def visit_BoolOp(self, node):
        self.generic_visit(node)
        flat = []
        for v in node.values:
            if isinstance(v, ast.BoolOp) and type(v.op) is type(node.op):
                flat.extend(v.values)
            else:
                flat.append(v)
        node.values = flat
        return node

    def visit_FunctionDef(self, node):
        self.generic_visit(node)
        # a bare annotation of a local (`x: T`) does nothing at run time
        for blk in ast.walk(node):
            for field in ("body", "orelse", "finalbody"):
                stmts = getattr(blk, field, None)
                if isinstance(stmts, list) and any(isinstance(s, ast.AnnAssign) and s.value is None and isinstance(s.target, ast.Name) for s in stmts) and not isinstance(blk, ast.ClassDef):
                    kept = [s for s in stmts if not (isinstance(s, ast.AnnAssign) and s.value is None and isinstance(s.target, ast.Name))]
                    stmts[:] = kept or [ast.copy_location(ast.Pass(), stmts[0])]
        return node

    visit_AsyncFunctionDef = visit_FunctionDef

    def visit_If(self, node):
        self.generic_visit(node)
        # 2. positive test when there is an else branch
        if node.orelse and not (len(node.orelse) == 1 and isinstance(node.orelse[0], ast.If) and node.orelse[0].col_offset == node.col_offset) \
                and isinstance(node.test, ast.UnaryOp) and isinstance(node.test.op, ast.Not):
            if not (len(node.orelse) == 1 and isinstance(node.orelse[0], ast.If)):
                node.test = node.test.operand
                node.body, node.orelse = node.orelse, node.body
        # 3. nested sole `if` -> conjunction
        if not node.orelse and len(node.body) == 1 and isinstance(node.body[0], ast.If) and not node.body[0].orelse:
            inner = node.body[0]
            a = node.test.values if isinstance(node.test, ast.BoolOp) and isinstance(node.test.op, ast.And) else [node.test]
            b = inner.test.values if isinstance(inner.test, ast.BoolOp) and isinstance(inner.test.op, ast.And) else [inner.test]
            node.test = ast.copy_location(ast.BoolOp(op=ast.And(), values=[*a, *b]), node.test)
            node.body = inner.body
        return node


# ----------------------------------------------------------------------------------------------- local names
def _functions(tree: ast.Module):
    """(qualified path with duplicate index, node) for every function of the module, outermost first."""
    out = []

    def rec(body_owner, prefix):
        seen: Dict[str, int] = {}
        for n in ast.iter_child_nodes(body_owner):
            if isinstance(n, (ast.FunctionDef, ast.AsyncFunctionDef)):
                k = seen.get(n.name, 0)
                seen[n.name] = k + 1
                q = f"{prefix}{n.name}#{k}"
                out.append((q, n))
                rec(n, q + ".")
            elif isinstance(n, ast.ClassDef):
                rec(n, f"{prefix}{n.name}.")
            elif isinstance(n, (ast.If, ast.Try, ast.With, ast.For, ast.While)):
                rec_block(n, prefix, seen)

    def rec_block(n, prefix, seen):
        for c in ast.iter_child_nodes(n):
            if isinstance(c, (ast.FunctionDef, ast.AsyncFunctionDef)):
                k = seen.get(c.name, 0)
                seen[c.name] = k + 1
                q = f"{prefix}{c.name}#{k}"
                out.append((q, c))
                rec(c, q + ".")
            elif isinstance(c, ast.ClassDef):
                rec(c, f"{prefix}{c.name}.")
            elif isinstance(c, (ast.If, ast.Try, ast.With, ast.For, ast.While, ast.ExceptHandler)):
                rec_block(c, prefix, seen)
    rec(tree, "")
    return out


class _Blank(ast.NodeTransformer):
    def __init__(self, names):
        self.names = names

    def visit_Name(self, n):
        if n.id in self.names:
            return ast.copy_location(ast.Name(id=f"_{self.names.index(n.id)}", ctx=n.ctx), n)
        return n


def _key(kind: str, node: ast.AST, names: List[str]) -> str:
    import copy
    return kind + " " + ast.unparse(_Blank(names).visit(copy.deepcopy(node)))


def binding_sites(fn: ast.AST) -> List[Tuple[str, List[str]]]:
    """[(key, [bound names])] for the binding sites of the function's own scope (comprehensions included), in source order."""
    sites = []
    nested = [n for n in ast.walk(fn) if isinstance(n, (ast.FunctionDef, ast.AsyncFunctionDef, ast.Lambda, ast.ClassDef)) and n is not fn]
    inside_nested = {id(x) for n in nested for x in ast.walk(n) if x is not n}

    def tnames(t):
        return [x.id for x in ast.walk(t) if isinstance(x, ast.Name)]
    for n in ast.walk(fn):
        if id(n) in inside_nested or n in nested:
            continue
        if isinstance(n, ast.Assign) and all(isinstance(x, (ast.Name, ast.Tuple, ast.List, ast.Starred)) for t in n.targets for x in ast.walk(t) if not isinstance(x, ast.expr_context)):
            names = [nm for t in n.targets for nm in tnames(t)]
            if names:
                sites.append((n.lineno, n.col_offset, _key("=", n, names), names))
        elif isinstance(n, ast.AnnAssign) and isinstance(n.target, ast.Name) and n.value is not None:
            sites.append((n.lineno, n.col_offset, _key(":=", n, [n.target.id]), [n.target.id]))
        elif isinstance(n, ast.NamedExpr):
            sites.append((n.lineno, n.col_offset, _key("walrus", n, [n.target.id]), [n.target.id]))
        elif isinstance(n, (ast.For, ast.AsyncFor)):
            names = tnames(n.target)
            hdr = ast.For(target=n.target, iter=n.iter, body=[ast.Pass()], orelse=[], lineno=1, col_offset=0)
            sites.append((n.lineno, n.col_offset, _key("for", ast.Tuple(elts=[n.target, n.iter], ctx=ast.Load()), names), names))
        elif isinstance(n, ast.comprehension):
            names = tnames(n.target)
            sites.append((n.target.lineno, n.target.col_offset, _key("comp", ast.Tuple(elts=[n.target, n.iter], ctx=ast.Load()), names), names))
        elif isinstance(n, ast.ExceptHandler) and n.name:
            sites.append((n.lineno, n.col_offset, f"except {ast.unparse(n.type) if n.type is not None else ''} as _0", [n.name]))
        elif isinstance(n, ast.withitem) and n.optional_vars is not None:
            names = tnames(n.optional_vars)
            if names:
                sites.append((n.context_expr.lineno, n.context_expr.col_offset, _key("with", ast.Tuple(elts=[n.context_expr, n.optional_vars], ctx=ast.Load()), names), names))
    sites.sort(key=lambda s: (s[0], s[1]))
    return [(k, names) for _, _, k, names in sites]


def _indexed(sites):
    seen: Dict[str, int] = {}
    out = []
    for k, names in sites:
        i = seen.get(k, 0)
        seen[k] = i + 1
        out.append((f"{k} @{i}", names))
    return out


def reference_table(root: str) -> Dict[str, Dict[str, Dict[str, List[str]]]]:
    """{relpath: {function path: {indexed key: [names]}}} of the tree under root (used by tools/gen_local_names.py)."""
    table: Dict[str, Dict[str, Dict[str, List[str]]]] = {}
    pkg = os.path.join(root, "apischema")
    for dp, dn, fns in os.walk(pkg):
        dn[:] = sorted(d for d in dn if d != "__pycache__")
        for f in sorted(fns):
            if not f.endswith(".py"):
                continue
            path = os.path.join(dp, f)
            rel = os.path.relpath(path, root)
            tree = ast.parse(open(path, encoding="utf8").read())
            _Shape().visit(tree)
            mod: Dict[str, Dict[str, List[str]]] = {}
            for q, fn in _functions(tree):
                sites = _indexed(binding_sites(fn))
                mod[q] = {k: names for k, names in sites}   # also functions without locals: a temporary added to them is "fresh"
            if mod:
                table[rel] = mod
    return table


_REF: Optional[dict] = None


def _ref() -> dict:
    global _REF
    if _REF is None:
        p = os.path.join(os.path.dirname(os.path.abspath(__file__)), "local_names.json")
        _REF = json.load(open(p)) if os.path.exists(p) else {}
    return _REF


def _rename(fn: ast.AST, cur: str, new: str):
    for x in ast.walk(fn):
        if isinstance(x, ast.Name) and x.id == cur:
            x.id = new
        elif isinstance(x, ast.ExceptHandler) and x.name == cur:
            x.name = new
        elif isinstance(x, (ast.Global, ast.Nonlocal)) and cur in x.names:
            x.names = [new if n == cur else n for n in x.names]


def restore_local_names(tree: ast.Module, relpath: str):
    ref = _ref().get(relpath)
    if not ref:
        return
    for q, fn in _functions(tree):
        want = ref.get(q)
        if not want:
            continue
        for _ in range(8):       # a restored name can make further keys match
            changed = False
            params = {a.arg for f_ in ast.walk(fn) if isinstance(f_, (ast.FunctionDef, ast.AsyncFunctionDef, ast.Lambda)) for a in f_.args.args + f_.args.kwonlyargs + f_.args.posonlyargs + ([f_.args.vararg] if f_.args.vararg else []) + ([f_.args.kwarg] if f_.args.kwarg else [])}
            used = {x.id for x in ast.walk(fn) if isinstance(x, ast.Name)} | params
            for k, names in _indexed(binding_sites(fn)):
                exp = want.get(k)
                if exp is None or len(exp) != len(names):
                    continue
                for cur, new in zip(names, exp):
                    if cur != new and new not in used and cur not in params:
                        _rename(fn, cur, new)
                        used.discard(cur)
                        used.add(new)
                        changed = True
                if changed:
                    break
            if not changed:
                break


def restore_comprehension_names(tree: ast.Module, relpath: str):
    """the variables of a comprehension are local to it: they get their reference names back even when that name is used elsewhere in
    the function (another comprehension's `f`), as long as it does not occur inside this comprehension."""
    ref = _ref().get(relpath)
    if not ref:
        return
    for q, fn in _functions(tree):
        want = ref.get(q)
        if not want:
            continue
        seen_keys = {}
        for k, names in want.items():
            if k.startswith("comp "):
                seen_keys.setdefault(k.rsplit(" @", 1)[0], set()).add(tuple(names))
        # only when the reference is unanimous: two comprehensions over the same iterable may well use different names
        by_key = {k: list(next(iter(v))) for k, v in seen_keys.items() if len(v) == 1}
        if not by_key:
            continue
        for comp in ast.walk(fn):
            if not isinstance(comp, (ast.ListComp, ast.SetComp, ast.DictComp, ast.GeneratorExp)):
                continue
            for g in comp.generators:
                cur = [x.id for x in ast.walk(g.target) if isinstance(x, ast.Name)]
                key = _key("comp", ast.Tuple(elts=[g.target, g.iter], ctx=ast.Load()), cur)
                exp = by_key.get(key)
                if not exp or len(exp) != len(cur) or exp == cur:
                    continue
                inside = {x.id for x in ast.walk(comp) if isinstance(x, ast.Name)}
                for c_, n_ in zip(cur, exp):
                    if c_ != n_ and n_ not in inside:
                        for x in ast.walk(comp):
                            if isinstance(x, ast.Name) and x.id == c_:
                                x.id = n_
                        inside.discard(c_)
                        inside.add(n_)


def split_foreign_tuple_assignments(tree: ast.Module, relpath: str):
    """`a, b = (e1, e2)` with independent sides that the reference does not spell that way (a by-product of inlining / joining) is
    analysed as two assignments: the dataflow analyses follow plain assignments."""
    from . import canon_rw as rw
    sh = rw.shapes().get(relpath)
    if not sh:
        return
    for q, fn in _functions(tree):
        ref = sh["functions"].get(q)
        if ref is None:
            continue
        names = rw.local_names(fn)
        ref_texts = {fp.split(":", 1)[1] for fp in ref}
        for owner, field, stmts in rw.blocks(fn):
            i = 0
            while i < len(stmts):
                st = stmts[i]
                if isinstance(st, ast.Assign) and len(st.targets) == 1 and isinstance(st.targets[0], ast.Tuple) and isinstance(st.value, ast.Tuple) \
                        and len(st.targets[0].elts) == len(st.value.elts) and all(isinstance(t, ast.Name) for t in st.targets[0].elts) \
                        and not any(rw.mentions(v, t.id) for v in st.value.elts for t in st.targets[0].elts) and rw._u(st, names) not in ref_texts:
                    parts = [ast.copy_location(ast.Assign(targets=[t], value=v), st) for t, v in zip(st.targets[0].elts, st.value.elts)]
                    stmts[i:i + 1] = parts
                    i += len(parts)
                    continue
                i += 1


def inline_fresh_temporaries(tree: ast.Module, relpath: str):
    """5. `tmp = E` where `tmp` is a local the reference does not know (no defining site with that key in the function),
    assigned once and read once, by the statement that follows, before anything else is called there: E is put back in
    place of the read (undoes an extract-variable refactoring)."""
    ref = _ref().get(relpath)
    if not ref:
        return
    import copy
    for q, fn in _functions(tree):
        want = ref.get(q)
        if want is None:
            continue
        known = set(want)
        known_names = {nm for names in want.values() for nm in names}   # a known name with a new definition is a change, not a temporary
        for _ in range(20):
            done = True
            idx = dict()
            for k, names in _indexed(binding_sites(fn)):
                for nm in names:
                    idx.setdefault(nm, []).append(k)
            for blk in ast.walk(fn):
                for field in ("body", "orelse", "finalbody"):
                    stmts = getattr(blk, field, None)
                    if not isinstance(stmts, list):
                        continue
                    for i, st in enumerate(stmts[:-1]):
                        if not (isinstance(st, ast.Assign) and len(st.targets) == 1 and isinstance(st.targets[0], ast.Name)):
                            continue
                        nm = st.targets[0].id
                        keys = idx.get(nm, [])
                        if len(keys) != 1 or keys[0] in known or nm in known_names:
                            continue
                        reads = [x for x in ast.walk(fn) if isinstance(x, ast.Name) and x.id == nm and isinstance(x.ctx, ast.Load)]
                        nxt = stmts[i + 1]
                        if len(reads) != 1 or not any(x is reads[0] for x in ast.walk(nxt)):
                            continue
                        if any(isinstance(x, (ast.Lambda, ast.FunctionDef, ast.AsyncFunctionDef, ast.ListComp, ast.GeneratorExp, ast.DictComp, ast.SetComp)) and any(y is reads[0] for y in ast.walk(x)) for x in ast.walk(nxt)):
                            continue
                        r = reads[0]
                        # nothing is called in the next statement before the read is evaluated
                        head = nxt.test if isinstance(nxt, (ast.If, ast.While)) else nxt.iter if isinstance(nxt, ast.For) else nxt
                        if not any(x is r for x in ast.walk(head)):
                            continue
                        early = [c for c in ast.walk(head) if isinstance(c, ast.Call) and not any(y is r for y in ast.walk(c))
                                 and (c.end_lineno, c.end_col_offset) <= (r.lineno, r.col_offset)]
                        if early:
                            continue

                        class Put(ast.NodeTransformer):
                            def visit_Name(self, n):
                                return ast.copy_location(copy.deepcopy(st.value), n) if n is r else n
                        stmts[i + 1] = Put().visit(nxt)
                        del stmts[i]
                        done = False
                        break
                    if not done:
                        break
                if not done:
                    break
            if done:
                break


def shape_table(root: str) -> dict:
    """{relpath: {"module_names": [...], "functions": {path: [fingerprints]}, "nested": {path: [nested def names]}}} (tools/gen_local_names.py)."""
    from . import canon_rw as rw
    table = {}
    pure_ctors = set()
    pkg = os.path.join(root, "apischema")
    for dp, dn, fns in os.walk(pkg):
        dn[:] = sorted(d for d in dn if d != "__pycache__")
        for f in sorted(fns):
            if not f.endswith(".py"):
                continue
            path = os.path.join(dp, f)
            rel = os.path.relpath(path, root)
            text = open(path, encoding="utf8").read()
            import hashlib
            sha = hashlib.sha256(text.encode()).hexdigest()[:16]
            tree = ast.parse(text)
            _Shape().visit(tree)
            names = sorted({x.id for st in tree.body for t in (st.targets if isinstance(st, ast.Assign) else [st.target] if isinstance(st, ast.AnnAssign) else [])
                            for x in ast.walk(t) if isinstance(x, ast.Name)})
            funcs, nested, params = {}, {}, {}
            for q, fn in _functions(tree):
                funcs[q] = rw.fingerprints(fn)
                if "#" in q.split(".")[0] and "." in q or q.count("#") > 1:
                    params[q] = [a.arg for a in fn.args.args]
                nd = sorted((n for n in rw.own_walk(fn) if isinstance(n, rw.FUNC)), key=lambda n: (n.lineno, n.col_offset))
                if nd:
                    nested[q] = [n.name for n in nd]
            table[rel] = {"module_names": names, "functions": funcs, "nested": nested, "params": params, "sha": sha}
            for c in ast.walk(tree):
                if isinstance(c, ast.ClassDef):
                    meths = {m.name: m for m in c.body if isinstance(m, ast.FunctionDef)}
                    if "__post_init__" in meths or "__new__" in meths or c.keywords:
                        continue
                    is_dc = any("dataclass" in ast.unparse(d) for d in c.decorator_list)
                    init = meths.get("__init__")
                    trivial = init is not None and all(
                        isinstance(st, ast.Assign) and len(st.targets) == 1 and isinstance(st.targets[0], ast.Attribute) and isinstance(st.targets[0].value, ast.Name)
                        and st.targets[0].value.id == "self" and isinstance(st.value, ast.Name) for st in init.body)
                    plain_bases = all(isinstance(b, ast.Name) and b.id in ("object", "DeserializationMethod", "SerializationMethod", "Constraint") for b in c.bases)
                    if ((is_dc and init is None) or trivial) and plain_bases:
                        pure_ctors.add(c.name)
    table["<global>"] = {"pure_ctors": sorted(pure_ctors)}
    return table


def directed_rewrites(tree: ast.Module, relpath: str):
    """second stage: semantics-preserving rewrites chosen so that each function gets closer to the reference spelling (sa/canon_rw.py)."""
    from . import canon_rw as rw
    sh = rw.shapes().get(relpath)
    if not sh:
        return
    ref_funcs = sh["functions"]
    names_ref = _ref().get(relpath, {})
    funcs = _functions(tree)
    if all(q in ref_funcs for q, _ in funcs) and len(funcs) == len(ref_funcs):
        if all(rw.fingerprints(fn) == ref_funcs[q] for q, fn in funcs):
            return      # the module is spelled like the reference
    rw.inline_module_constants(tree, set(sh["module_names"]))
    if rw.inline_helpers(tree, set(ref_funcs), funcs):
        _Shape().visit(tree)
    for q, fn in _functions(tree):
        if q in ref_funcs and sh["nested"].get(q):
            rw.restore_nested_def_names(fn, sh["nested"][q])
    for q, fn in _functions(tree):
        if q in sh.get("params", {}):
            rw.restore_nested_params(fn, sh["params"][q])

    # functions / methods of the module whose body is one `return <expression>` (unique name, no decorator but staticmethod)
    one, seen_names = {}, {}
    for q, fn in _functions(tree):
        seen_names[fn.name] = seen_names.get(fn.name, 0) + 1
        body = [b for b in fn.body if not (isinstance(b, ast.Expr) and isinstance(b.value, ast.Constant)) and not isinstance(b, (ast.Import, ast.ImportFrom))]
        if len(body) == 1 and isinstance(body[0], ast.Return) and body[0].value is not None and not fn.args.vararg and not fn.args.kwarg and not fn.args.kwonlyargs and not fn.args.defaults \
                and all(isinstance(d, ast.Name) and d.id == "staticmethod" for d in fn.decorator_list) and q.count(".") <= 1 and not isinstance(fn, ast.AsyncFunctionDef) \
                and not any(isinstance(x, (ast.Yield, ast.YieldFrom, ast.Await)) for x in ast.walk(fn)):
            one[fn.name] = fn
    rw.MODULE_ONE_LINERS.clear()
    rw.MODULE_ONE_LINERS.update({k: v for k, v in one.items() if seen_names.get(k) == 1})

    def normalise(fn):
        _Shape().visit(fn)
    # innermost functions first: the text of an outer function does not contain its nested bodies
    for q, fn in sorted(_functions(tree), key=lambda x: -x[0].count(".")):
        ref = ref_funcs.get(q)
        if ref is None:
            continue
        if rw.fingerprints(fn) == ref:
            continue
        known_names = {nm for names in names_ref.get(q, {}).values() for nm in names}
        stored = {x.attr for x in rw.own_walk(fn) if isinstance(x, ast.Attribute) and isinstance(x.ctx, (ast.Store, ast.Del))}
        rw.direct_function(fn, ref, known_names, stored, normalise)


def canonicalise(tree: ast.Module, relpath: str, src: Optional[str] = None) -> ast.Module:
    _Shape().visit(tree)
    if src is not None:
        import hashlib
        from . import canon_rw as rw
        if rw.shapes().get(relpath, {}).get("sha") == hashlib.sha256(src.encode()).hexdigest()[:16]:
            # the module is the reference itself, character for character: nothing to restore
            ast.fix_missing_locations(tree)
            return tree
    # a module that differs from the reference: the search is cached on disk (pure acceleration; key = source + tables + code)
    cache_path = None
    if src is not None and not os.environ.get("CANON_NO_CACHE"):
        import hashlib, pickle, tempfile
        here = os.path.dirname(os.path.abspath(__file__))
        h = hashlib.sha256(src.encode())
        for f in ("canon.py", "canon_rw.py", "ref_shapes.json", "local_names.json"):
            try:
                h.update(open(os.path.join(here, f), "rb").read())
            except OSError:
                pass
        h.update(relpath.encode())
        cache_dir = os.path.join(tempfile.gettempdir(), "verif_canon_cache")
        cache_path = os.path.join(cache_dir, h.hexdigest()[:32] + ".pickle")
        try:
            with open(cache_path, "rb") as fh:
                cached = pickle.load(fh)
            tree.body[:] = cached.body
            return tree
        except Exception:
            pass
    restore_local_names(tree, relpath)
    for _ in range(2):       # a restored name can make a spelling match, a restored spelling can make a defining site match
        before = ast.dump(tree)
        directed_rewrites(tree, relpath)
        restore_local_names(tree, relpath)
        restore_comprehension_names(tree, relpath)
        inline_fresh_temporaries(tree, relpath)
        split_foreign_tuple_assignments(tree, relpath)
        if ast.dump(tree) == before:
            break
    ast.fix_missing_locations(tree)
    if cache_path is not None:
        try:
            os.makedirs(os.path.dirname(cache_path), exist_ok=True)
            tmp = cache_path + f".{os.getpid()}"
            with open(tmp, "wb") as fh:
                pickle.dump(tree, fh)
            os.replace(tmp, cache_path)
            # the cache is bounded: the oldest entries go when it grows (entries of older versions of the code are never hit again)
            names = os.listdir(os.path.dirname(cache_path))
            if len(names) > 400:
                full = sorted((os.path.join(os.path.dirname(cache_path), n) for n in names), key=lambda f: os.path.getmtime(f) if os.path.exists(f) else 0)
                for f in full[:-250]:
                    try:
                        os.remove(f)
                    except OSError:
                        pass
        except Exception:
            pass
    return tree
