"""Reach condition of a statement inside a function, as a boolean AST.

The condition is the conjunction of
  * the tests of the enclosing `if` / `elif` / `else` branches (negated for else),
  * the negated tests of earlier sibling `if`s of every enclosing block whose body
    always leaves the block (`continue` / `break` / `return` / `raise`) - the
    guard-clause idiom,
  * a marker name `__in_handler__` for every enclosing `except` clause.
Loops and try bodies contribute nothing (the condition describes one iteration).
Evaluated with sa.boolx over atoms read off the source; table evaluation, no solving.
"""
import ast
from typing import Dict, List, Optional

HANDLER = "__in_handler__"


def parents_of(fn: ast.AST) -> Dict[ast.AST, ast.AST]:
    return {ch: p for p in ast.walk(fn) for ch in ast.iter_child_nodes(p)}


def _leaves(body: List[ast.stmt]) -> bool:
    """does the block always end by leaving the enclosing block?"""
    if not body:
        return False
    last = body[-1]
    if isinstance(last, (ast.Continue, ast.Break, ast.Return, ast.Raise)):
        return True
    if isinstance(last, ast.If) and last.orelse:
        return _leaves(last.body) and _leaves(last.orelse)
    return False


def _blocks(p: ast.AST):
    for name in ("body", "orelse", "finalbody"):
        b = getattr(p, name, None)
        if isinstance(b, list):
            yield name, b


def path_condition(fn: ast.AST, target: ast.AST, parents: Optional[Dict] = None) -> ast.expr:
    parents = parents or parents_of(fn)
    conj: List[ast.expr] = []
    # climb to the statement containing the target
    child = target
    while child is not fn:
        p = parents.get(child)
        if p is None:
            break
        if isinstance(p, ast.If):
            if child in p.body:
                conj.append(p.test)
            elif child in p.orelse:
                conj.append(ast.UnaryOp(op=ast.Not(), operand=p.test))
        if isinstance(p, ast.IfExp):
            if child is p.body:
                conj.append(p.test)
            elif child is p.orelse:
                conj.append(ast.UnaryOp(op=ast.Not(), operand=p.test))
        if isinstance(p, ast.BoolOp) and child in p.values:
            # short-circuit: a later operand is evaluated only if the earlier ones were true (and) / false (or)
            for earlier in p.values[: p.values.index(child)]:
                conj.append(earlier if isinstance(p.op, ast.And) else ast.UnaryOp(op=ast.Not(), operand=earlier))
        if isinstance(p, ast.ExceptHandler):
            conj.append(ast.Name(id=HANDLER, ctx=ast.Load()))
        if isinstance(p, (ast.comprehension,)):
            pass
        if isinstance(p, (ast.ListComp, ast.SetComp, ast.DictComp, ast.GeneratorExp)) and child is not None:
            for g in p.generators:
                if child is not g:
                    conj.extend(g.ifs)
        # guard clauses among earlier siblings
        if isinstance(child, ast.stmt):
            for _, block in _blocks(p):
                if child in block:
                    for s in block[: block.index(child)]:
                        if isinstance(s, ast.If) and not s.orelse and _leaves(s.body):
                            conj.append(ast.UnaryOp(op=ast.Not(), operand=s.test))
        child = p
    if not conj:
        return ast.Constant(value=True)
    if len(conj) == 1:
        return conj[0]
    return ast.BoolOp(op=ast.And(), values=list(reversed(conj)))


def complements(atoms: Dict[str, str]) -> Dict[str, str]:
    """add the complementary spelling of comparison atoms (`a in b` <-> `a not in b`, ...)."""
    out = dict(atoms)
    pairs = ((" not in ", " in "), (" is not ", " is "), (" != ", " == "))
    for text, name in atoms.items():
        neg = name[1:] if name.startswith("!") else "!" + name
        for a, b in pairs:
            if a in text:
                out.setdefault(text.replace(a, b, 1), neg)
                break
            if b in text:
                out.setdefault(text.replace(b, a, 1), neg)
                break
    return out
