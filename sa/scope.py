"""Name resolution inside a function body, honouring local shadowing."""
import ast
from typing import Optional, Set

from .model import FuncInfo
from .util import dotted, walk_no_nested


def local_bindings(func: ast.AST) -> Set[str]:
    """Names bound locally in a function (params, assignment / for / with / except
    targets, imports, nested defs) - they shadow module-level names."""
    out: Set[str] = set()
    a = func.args
    for x in (*a.posonlyargs, *a.args, *a.kwonlyargs):
        out.add(x.arg)
    if a.vararg:
        out.add(a.vararg.arg)
    if a.kwarg:
        out.add(a.kwarg.arg)
    globals_: Set[str] = set()
    for n in walk_no_nested(func):
        if isinstance(n, ast.Global):
            globals_.update(n.names)
        elif isinstance(n, ast.Name) and isinstance(n.ctx, (ast.Store, ast.Del)):
            out.add(n.id)
        elif isinstance(n, (ast.FunctionDef, ast.AsyncFunctionDef, ast.ClassDef)):
            out.add(n.name)
        elif isinstance(n, ast.ExceptHandler) and n.name:
            out.add(n.name)
        elif isinstance(n, (ast.Import, ast.ImportFrom)):
            for al in n.names:
                out.add((al.asname or al.name).split(".")[0])
    return out - globals_


class Env:
    """Name resolution inside one function, honouring local shadowing up the
    chain of enclosing functions."""

    def __init__(self, model, fi: FuncInfo):
        self.model = model
        self.fi = fi
        self.shadow: Set[str] = set()
        g = fi
        while g is not None:
            self.shadow |= local_bindings(g.node)
            g = g.parent
        # function-level `from apischema import settings` binds locally but still
        # denotes the imported object: do not treat import-bound names as shadowing
        self.import_bound: Set[str] = set()
        g = fi
        while g is not None:
            for n in walk_no_nested(g.node):
                if isinstance(n, (ast.Import, ast.ImportFrom)):
                    for al in n.names:
                        self.import_bound.add((al.asname or al.name).split(".")[0])
            g = g.parent

    def shadowed(self, name: str) -> bool:
        return name in self.shadow and name not in self.import_bound

    def resolve(self, node) -> Optional[str]:
        text = dotted(node)
        if text is None:
            return None
        head = text.split(".")[0]
        if head in self.shadow and head not in self.import_bound:
            return None
        return self.model.resolve_dotted(self.fi.module, text)


