"""C15 - field-set tracking reflects the input and drives exclude_unset.

What the tracked set *contains* after a history of wrapped dunder calls on user
classes is a runtime quantity and is not decided. Decided are four structural
necessary conditions: the serializer consults the tracked set exactly when
exclude_unset applies and then emits exactly the tracked names (R1); the three
tracking wrappers and the four API functions update the set monotonically as
documented (R2, R3); the deserializer hands the constructor only the keys that
were present and can never take the constructor bypass for a tracked class (R4).
"""
import ast

from ..model import AnalysisError
from ..nodes import DESER_MOD, SER_MOD
from ..util import canon, dotted, norm, short, walk_no_nested
from .c11 import bind_args, init_params
from .common_fields import FieldModel

F = "apischema.fields"
SVIS = "apischema.serialization.SerializationMethodVisitor"


def check(ctx):
    model = ctx.model
    ctx.explanations.append(
        "C15 (partial): decided - exclude_unset reaches the field strategy only as `self.exclude_unset and support_fields_set(cls)`, "
        "forces the omitting strategy, and ComplexField emits a non-TypedDict field iff `not exclude_unset or name in <tracked set>` "
        "(R1); with_fields_set wraps exactly __new__ / __init__ / __setattr__ once, __new__ creates an empty set, __init__ "
        "stores previous | arguments (minus InitVars) | (init=False and default_as_set fields), __setattr__ adds the attribute "
        "before delegating (R2); set_fields / unset_fields / fields_set / dataclasses.replace update the very set object as "
        "documented (R3); ObjectMethod only stores a field in `values` under its presence test and the __dict__-filling "
        "constructor bypass is unreachable for tracked classes because is_raw_dataclass tests the two dunders the decorator "
        "replaces (R4). Not decided: the contents of the set after an arbitrary history, inheritance chains of user classes."
    )
    # ---------------- R1
    ctx.rule("C15.R1", "the serializer consults the tracked set exactly when exclude_unset applies", floor=4)
    fm = FieldModel(model)
    obj = fm.obj
    eu = [n for n in walk_no_nested(obj.node) if isinstance(n, ast.Assign) and isinstance(n.targets[0], ast.Name) and n.targets[0].id == "exclude_unset"]
    ok = len(eu) == 1 and norm(eu[0].value) in ("self.exclude_unset and support_fields_set(cls)", "support_fields_set(cls) and self.exclude_unset")
    ctx.check(ok, "C15.R1", f"{obj.qualname}:exclude_unset", eu[0] if eu else obj.node.body[0],
              "exclude_unset must reach the field strategies only as `self.exclude_unset and support_fields_set(cls)`: for an untracked class the serializer would read a set that does not exist, or ignore the option for a tracked one", obj, obj.node, detail="self.exclude_unset and support_fields_set(cls)")
    ctx.check(norm(fm.args["exclude_unset"]) == "exclude_unset", "C15.R1", f"{obj.qualname}:ComplexField.exclude_unset", fm.complex_call, "ComplexField.exclude_unset does not receive the computed flag", obj, fm.complex_call, detail="exclude_unset=exclude_unset")
    sel = [norm(c) for c in (fm.selection.test.values if isinstance(fm.selection.test, ast.BoolOp) and isinstance(fm.selection.test.op, ast.Or) else [fm.selection.test])]
    ctx.check("exclude_unset" in sel, "C15.R1", f"{obj.qualname}:selection", fm.selection.test, "exclude_unset alone does not select the omitting strategy: unset fields would always be emitted", obj, fm.selection, detail="exclude_unset is a disjunct of the ComplexField selection")
    ur = model.func(f"{SER_MOD}.ComplexField.update_result")
    t = norm(ur.node)
    ok = "not self.exclude_unset or self.name in getattr(obj, FIELDS_SET_ATTR)" in t
    ctx.check(ok, "C15.R1", ur.qualname, ur.node.body[0], "ComplexField must emit a field iff `not self.exclude_unset or self.name in getattr(obj, FIELDS_SET_ATTR)`", ur, ur.node, detail="membership of the Python name in the tracked set")
    sfs = model.func(f"{F}.support_fields_set")
    ctx.check("cls.__mro__" in norm(sfs.node) and "_fields_set_classes" in norm(sfs.node), "C15.R1", sfs.qualname, sfs.node.body[0], "support_fields_set must hold for subclasses of a decorated class", sfs, sfs.node, detail="any(base in _fields_set_classes for base in cls.__mro__)")

    # ---------------- R2
    ctx.rule("C15.R2", "with_fields_set wraps __new__ / __init__ / __setattr__ once and each wrapper updates the set as documented", floor=6)
    w = model.func(f"{F}.with_fields_set")
    t = norm(w.node)
    for dunder in ("__new__", "__init__", "__setattr__"):
        ctx.check(f"('{dunder}', old_" in t, "C15.R2", f"{w.qualname}:{dunder}", w.node.body[0], f"with_fields_set no longer replaces {dunder}", w, w.node, detail=f"setattr(cls, {dunder!r}, wrapper)")
    ctx.check("if hasattr(old, _ALREADY_SET)" in t and "setattr(new, _ALREADY_SET, True)" in t, "C15.R2", f"{w.qualname}:once", w.node.body[0], "wrappers are no longer guarded against double wrapping in subclasses", w, w.node, detail="_ALREADY_SET guard")
    nn = w.nested.get("new_new")
    ni = w.nested.get("new_init")
    ns = w.nested.get("new_setattr")
    ctx.require(nn is not None and ni is not None and ns is not None, "with_fields_set wrappers renamed")
    ctx.check("obj.__dict__[FIELDS_SET_ATTR] = set()" in norm(nn.node), "C15.R2", nn.qualname, nn.node.body[0], "__new__ wrapper must create an empty tracked set", nn, nn.node, detail="__dict__[FIELDS_SET_ATTR] = set()")
    # the last store into the tracked set, with locals inlined and `|` operands sorted (renaming or
    # re-ordering does not matter)
    stores = sorted((n for n in walk_no_nested(ni.node) if isinstance(n, ast.Assign) and norm(n.targets[0]) == "self.__dict__[FIELDS_SET_ATTR]"), key=lambda n: n.lineno)
    ctx.require(len(stores) >= 2, "__init__ wrapper no longer assigns the tracked set (reset + final value)")
    final = canon(ni.node, stores[-1].value)
    want = {"self.__dict__.get(FIELDS_SET_ATTR, set()).copy()", "{*params[:len(args)], *kwargs} - init_fields", "post_init_fields"}
    ok = set(final.split(" | ")) == want
    ctx.check(ok, "C15.R2", ni.qualname, ni.node.body[-1], "__init__ wrapper must set previous | constructor arguments (minus InitVars) | init=False / default_as_set fields", ni, ni.node, detail="prev | arg_fields | post_init_fields")
    # the set is reset *before* the original __init__ runs so that its own assignments are not counted
    body = ni.node.body
    idx_reset = [i for i, s in enumerate(body) if norm(s) == "self.__dict__[FIELDS_SET_ATTR] = set()"]
    idx_call = [i for i, s in enumerate(body) if isinstance(s, ast.Try) and "old_init(self, *args, **kwargs)" in norm(s)]
    ctx.check(bool(idx_reset) and bool(idx_call) and idx_reset[0] < idx_call[0], "C15.R2", ni.qualname + ":reset-before-init", body[0], "the tracked set must be reset before the original __init__ runs (its own attribute assignments are not user-set fields)", ni, ni.node, detail="reset; old_init; recompute")
    # the attribute is recorded only once the original __setattr__ has succeeded (it raises for a frozen class):
    # position of the two statements in the wrapper's body
    i_add = [i for i, s_ in enumerate(ns.node.body) if any(isinstance(c_, ast.Call) and isinstance(c_.func, ast.Attribute) and c_.func.attr == "add" and [norm(a_) for a_ in c_.args] == ["attr"] for c_ in ast.walk(s_))]
    i_set = [i for i, s_ in enumerate(ns.node.body) if any(isinstance(c_, ast.Call) and norm(c_.func) == "old_setattr" and [norm(a_) for a_ in c_.args] == ["self", "attr", "value"] for c_ in ast.walk(s_))]
    ok = len(i_add) == 1 and len(i_set) == 1 and i_set[0] < i_add[0]
    ctx.check(ok, "C15.R2", ns.qualname, ns.node.body[0], "__setattr__ wrapper must delegate to the original __setattr__ and then add the attribute to the tracked set: recorded first, a refused assignment (frozen dataclass) still marks the field as set and exclude_unset emits it", ns, ns.node, detail="old_setattr(self, attr, value); then add(attr)")
    # typing assigns __orig_class__ on instances created through a parametrised alias (G[int](...)): special attributes are no fields
    from ..pathcond import parents_of as _po2, path_condition as _pc2
    adds2 = [c_ for c_ in ast.walk(ns.node) if isinstance(c_, ast.Call) and isinstance(c_.func, ast.Attribute) and c_.func.attr == "add" and [norm(a_) for a_ in c_.args] == ["attr"]]
    cond2 = norm(_pc2(ns.node, adds2[0], _po2(ns.node))) if adds2 else ""
    ctx.check(bool(adds2) and "attr.startswith('__')" in cond2 and "attr.endswith('__')" in cond2 and cond2.startswith("not"), "C15.R2", ns.qualname + ":special-attributes", None,
              "every assigned attribute is recorded, special ones included: fields_set(G[int](1)) for a generic class contains '__orig_class__' (set by typing on the new instance), which is no field of the class",
              ns, adds2[0] if adds2 else ns.node, detail="dunder attributes are not recorded")
    ctx.check("FIELDS_SET_ATTR" in norm(ns.node) and "dataclass_before_error" in norm(ns.node), "C15.R2", ns.qualname + ":live-set", ns.node.body[0], "__setattr__ wrapper no longer updates the instance's own tracked set", ns, ns.node, detail="self.__dict__[FIELDS_SET_ATTR]")
    ctx.check("post_init_fields.add(field.name)" in t and "DEFAULT_AS_SET_METADATA" in t and "not field.init" in t and "_FIELD_INITVAR" in t, "C15.R2", f"{w.qualname}:field-classes", w.node.body[0],
              "with_fields_set no longer classifies init=False / default_as_set fields (always set) and InitVars (never set)", w, w.node, detail="post_init_fields / init_fields")

    # ---------------- R3
    ctx.rule("C15.R3", "set_fields / unset_fields / fields_set / replace operate on the live set as documented", floor=4)
    sf = model.func(f"{F}.set_fields")
    t = norm(sf.node)
    # receivers: `_fields_set(obj)` itself or a local bound to it
    live = {"_fields_set(obj)"} | {norm(a.targets[0]) for a in ast.walk(sf.node) if isinstance(a, ast.Assign) and norm(a.value) == "_fields_set(obj)"}
    clears = [c for i_ in ast.walk(sf.node) if isinstance(i_, ast.If) and norm(i_.test) == "overwrite" for b_ in i_.body for c in ast.walk(b_)
              if isinstance(c, ast.Call) and isinstance(c.func, ast.Attribute) and c.func.attr == "clear" and norm(c.func.value) in live]
    updates = [c for c in ast.walk(sf.node) if isinstance(c, ast.Call) and isinstance(c.func, ast.Attribute) and c.func.attr == "update" and norm(c.func.value) in live and len(c.args) == 1
               and norm(c.args[0]) in ("map(get_field_name, fields)", "(get_field_name(field) for field in fields)", "(get_field_name(f) for f in fields)", "[get_field_name(f) for f in fields]", "[get_field_name(field) for field in fields]")]
    ok = len(clears) == 1 and len(updates) == 1 and clears[0].lineno < updates[0].lineno
    ctx.check(ok, "C15.R3", sf.qualname, sf.node.body[0], "set_fields must (clear when overwrite, then) add the given field names", sf, sf.node, detail="[clear]; update(names)")
    uf = model.func(f"{F}.unset_fields")
    ctx.check("_fields_set(obj).difference_update(map(get_field_name, fields))" in norm(uf.node), "C15.R3", uf.qualname, uf.node.body[0], "unset_fields must remove the given field names", uf, uf.node, detail="difference_update(names)")
    fs = model.func(f"{F}._fields_set")
    ctx.check("return getattr(obj, FIELDS_SET_ATTR)" in norm(fs.node), "C15.R3", fs.qualname, fs.node.body[0], "_fields_set must return the live set object (not a copy): set_fields / unset_fields mutate it", fs, fs.node, detail="the live set")
    rp = model.func("apischema.dataclasses._replace")
    t = norm(rp.node)
    calls = [c_ for c_ in ast.walk(rp.node) if isinstance(c_, ast.Call) and norm(c_.func) == "set_fields"]
    ok = len(calls) == 1 and "hasattr(__obj, FIELDS_SET_ATTR)" in t
    if ok:
        c_ = calls[0]
        stars = [norm(a_.value) for a_ in c_.args if isinstance(a_, ast.Starred)]
        kws = {k_.arg: norm(k_.value) for k_ in c_.keywords}
        ok = norm(c_.args[0]) == "result" and "fields_set(__obj)" in stars and kws.get("overwrite") == "True"
        changed = [x for x in stars if "changes" in x]
        # InitVar pseudo-fields (added to `changes` to work around bpo-36470, or given by the caller) are not fields
        excl = bool(changed) and any(" - " in x for x in changed) and "_FIELD_INITVAR" in t
        ctx.check(ok and excl, "C15.R3", rp.qualname, c_, "dataclasses.replace must give the copy the original's set plus the changed *fields*: the names of InitVar pseudo-fields, which replace adds to `changes` itself, must be excluded like the constructor wrapper does", rp, c_, detail="set_fields(result, *fields_set(obj), *(changes - init vars), overwrite=True)")
    else:
        ctx.fail("C15.R3", rp.qualname, None, "dataclasses.replace no longer transfers the fields set to the copy", rp.module.relpath, rp.node.lineno)

    # ---------------- R4
    ctx.rule("C15.R4", "deserialization constructs tracked classes through their (wrapped) constructor with the present keys only", floor=4)
    om = model.func(f"{DESER_MOD}.ObjectMethod.deserialize")
    parents = {c: p for p in ast.walk(om.node) for c in ast.iter_child_nodes(p)}
    for n in walk_no_nested(om.node):
        if isinstance(n, ast.Subscript) and isinstance(n.ctx, ast.Store) and norm(n.value) == "values" and norm(n.slice) == "field.name":
            p = parents.get(n)
            child = n
            guarded = False
            while p is not None:
                if isinstance(p, ast.If) and norm(p.test) == "field.alias in data" and any(child is s or any(child is x for x in ast.walk(s)) for s in p.body):
                    guarded = True
                child = p
                p = parents.get(p)
            ctx.check(guarded, "C15.R4", f"{om.qualname}:values[field.name]", n, "a field value is stored for construction outside its presence test: absent keys would be passed to the constructor and counted as set", om, n, detail="only under `field.alias in data`")
    ctx.check("default_factory()" not in norm(ast.Module(body=[s for s in om.node.body], type_ignores=[])).replace("init[name] = default_factory()", ""), "C15.R4", f"{om.qualname}:no-defaults-in-values", om.node.body[0],
              "defaults are materialised into the constructor arguments: every defaulted field would be counted as set", om, om.node, detail="defaults only feed the validators' `init` dict")
    ird = norm(model.func("apischema.deserialization.is_raw_dataclass").node)
    ctx.check("cls.__new__ is object.__new__" in ird and "cls.__setattr__ is object.__setattr__" in ird, "C15.R4", "is_raw_dataclass:tracked-classes", None,
              "is_raw_dataclass no longer tests __new__ / __setattr__ identity: a with_fields_set class (which replaces both) could be built by filling __dict__, leaving its tracked set empty", None, None, detail="with_fields_set replaces __new__ and __setattr__, which is_raw_dataclass requires untouched")
    for cname in ("RawConstructor", "RawConstructorCopy"):
        c = model.func(f"{DESER_MOD}.{cname}.construct")
        t = norm(c.node)
        ctx.check("self.cls" in t and "fields" in t and "__dict__" not in t, "C15.R4", c.qualname, c.node.body[0], f"{cname} must call the class (so that the wrapped __init__ records the keyword arguments)", c, c.node, detail="cls(**fields)")


    # ---------------- flag metadata: producers and consumers agree
    ctx.rule("C15.R5", "flag metadata (default_as_set, flatten, required, ...): a consumer testing the truth of the stored value agrees with the placeholder stored by simple_metadata", floor=1)
    from .common_flags import flag_metadata_rule
    flag_metadata_rule(ctx, "C15.R5")

    # ---------------- R6: init-only pseudo-fields are classified alike by the tracker and by the object model
    ctx.rule("C15.R6", "with_fields_set recognises InitVar pseudo-fields by the dataclass machinery (_FIELD_INITVAR) and the object model by the resolved hint being an InitVar: resolve_type_hints keeps the InitVar wrapper of the hints it rewrites, otherwise an init variable becomes a regular field for serialization (emitted with exclude_unset=False) while the tracker still excludes it", floor=2)
    rth = model.func("apischema.typing.resolve_type_hints")
    unwrap = [n for n in ast.walk(rth.node) if isinstance(n, ast.Attribute) and n.attr == "type" and isinstance(n.value, ast.Name) and n.value.id in ("hint", "param")]
    stores = [a for a in ast.walk(rth.node) if isinstance(a, ast.Assign) and isinstance(a.targets[0], ast.Subscript) and norm(a.targets[0].value) == "hints"]
    ctx.require(len(stores) >= 3, "resolve_type_hints: stores into `hints` not found")
    bad = None
    if unwrap:
        aliases = {norm(a.targets[0]) for a in ast.walk(rth.node) if isinstance(a, ast.Assign) and any(u in list(ast.walk(a.value)) for u in unwrap)}
        for a in stores:
            uses_alias = any(isinstance(x, ast.Name) and x.id in aliases for x in ast.walk(a.value)) or any(u in list(ast.walk(a.value)) for u in unwrap)
            rewrapped = any(isinstance(c, ast.Call) and (dotted(c.func) or "").endswith("InitVar") for c in ast.walk(a.value))
            if uses_alias and not rewrapped:
                bad = a
    ctx.check(bad is None, "C15.R6", f"{rth.qualname}:InitVar-kept", None,
              f"`{short(bad, 70) if bad is not None else ''}` stores a hint rebuilt from the inside of an InitVar without wrapping it again: dataclass_types_and_fields then takes `x: InitVar[T]` for a regular field - serialize(..., exclude_unset=False) emits it (class default) or raises AttributeError, while fields_set never contains it",
              rth, bad if bad is not None else rth.node, detail="hints rebuilt from `hint` itself, or re-wrapped in InitVar(...)")
    dtf = model.func("apischema.visitor.dataclass_types_and_fields")
    ctx.check("isinstance(field_type, InitVar)" in norm(dtf.node), "C15.R6", f"{dtf.qualname}:classifier", None, "dataclass_types_and_fields no longer classifies init variables by their resolved hint (rule to be re-derived)", dtf, dtf.node, detail="isinstance(field_type, InitVar)", nontrivial=False)

def mutants(mb):
    mb.add_text("special-attributes-recorded", "apischema/fields.py", "        if not (attr.startswith(\"__\") and attr.endswith(\"__\")):\n            fields_set.add(attr)\n", "        fields_set.add(attr)\n", "C15.R2", "special-attributes")
    mb.add_text("generic-initvar-unwrapped", "apischema/typing.py", "                if isinstance(hint, TypeVar):\n                    hints[name] = substitution.get(hint, hint)\n", "                if isinstance(getattr(hint, \"type\", None), TypeVar) and type(hint).__name__ == \"InitVar\":\n                    hints[name] = substitution.get(hint.type, hint.type)\n                elif isinstance(hint, TypeVar):\n                    hints[name] = substitution.get(hint, hint)\n", "C15.R6", "InitVar-kept")
    mb.add_text("flag-placeholder-none", "apischema/metadata/implem.py", "    return MetadataImplem({key: ...})\n", "    return MetadataImplem({key: None})\n", "C15.R5", "DEFAULT_AS_SET_METADATA")
    mb.add_text("neg-flag-placeholder-true", "apischema/metadata/implem.py", "    return MetadataImplem({key: ...})\n", "    return MetadataImplem({key: True})\n", negative=True)
    mb.add_text("neg-flag-tested-by-presence", "apischema/fields.py", "            if field.metadata.get(DEFAULT_AS_SET_METADATA):\n", "            if DEFAULT_AS_SET_METADATA in field.metadata:\n", negative=True)
    Fp = "apischema/fields.py"
    S = "apischema/serialization/__init__.py"
    SM = "apischema/serialization/methods.py"
    D = "apischema/deserialization/__init__.py"
    DM = "apischema/deserialization/methods.py"
    mb.add_text("exclude-unset-untracked", S, "exclude_unset = self.exclude_unset and support_fields_set(cls)", "exclude_unset = self.exclude_unset", "C15.R1", "exclude_unset")
    mb.add_text("selection-without-unset", S, "                typed_dict\n                or exclude_unset\n                or field_alias is None", "                typed_dict\n                or field_alias is None", "C15.R1", "selection")
    mb.add_text("emit-when-unset", SM, "else (not self.exclude_unset or self.name in getattr(obj, FIELDS_SET_ATTR))", "else (self.exclude_unset or self.name in getattr(obj, FIELDS_SET_ATTR))", "C15.R1", "update_result")
    mb.add_text("setattr-not-tracked", Fp, "        if not (attr.startswith(\"__\") and attr.endswith(\"__\")):\n            fields_set.add(attr)\n", "", "C15.R2", "new_setattr")
    mb.add_text("setattr-tracked-before-assignment", Fp, "        old_setattr(self, attr, value)  # type: ignore\n", "        if not (attr.startswith(\"__\") and attr.endswith(\"__\")):\n            fields_set.add(attr)\n        old_setattr(self, attr, value)  # type: ignore\n", "C15.R2", "new_setattr")
    mb.add_text("init-drops-prev", Fp, "self.__dict__[FIELDS_SET_ATTR] = prev_fields_set | arg_fields | post_init_fields", "self.__dict__[FIELDS_SET_ATTR] = arg_fields | post_init_fields", "C15.R2", "new_init")
    mb.add_text("init-counts-initvars", Fp, "arg_fields = {*params[: len(args)], *kwargs} - init_fields", "arg_fields = {*params[: len(args)], *kwargs}", "C15.R2", "new_init")
    mb.add_text("unset-clears", Fp, "    _fields_set(obj).difference_update(map(get_field_name, fields))", "    _fields_set(obj).intersection_update(map(get_field_name, fields))", "C15.R3", "unset_fields")
    mb.add_text("fields-set-copy", Fp, "        return getattr(obj, FIELDS_SET_ATTR)\n", "        return set(getattr(obj, FIELDS_SET_ATTR))\n", "C15.R3", "_fields_set")
    mb.add_text("replace-loses-set", "apischema/dataclasses.py", "            result, *fields_set(__obj), *(changes.keys() - init_vars), overwrite=True\n", "            result, *(changes.keys() - init_vars), overwrite=True\n", "C15.R3", "_replace")
    mb.add_text("replace-marks-initvars", "apischema/dataclasses.py", "            result, *fields_set(__obj), *(changes.keys() - init_vars), overwrite=True\n", "            result, *fields_set(__obj), *changes, overwrite=True\n", "C15.R3", "_replace")
    mb.add_text("raw-ignores-new", D, "        and cls.__new__ is object.__new__\n", "", "C15.R4", "is_raw_dataclass")
    mb.add_text("values-default-filled", DM, "            elif field.required:\n                field_errors = set_child_error(\n                    field_errors, field.alias, ValidationError(self.missing)\n                )\n            elif field.required_by is not None", "            elif field.required:\n                field_errors = set_child_error(\n                    field_errors, field.alias, ValidationError(self.missing)\n                )\n            elif field.name in dict(self.init_defaults):\n                values[field.name] = None\n            elif field.required_by is not None", "C15.R4", "values[field.name]")
    mb.add_text("neg-init-renamed-locals", Fp, "        arg_fields = {*params[: len(args)], *kwargs} - init_fields\n        self.__dict__[FIELDS_SET_ATTR] = prev_fields_set | arg_fields | post_init_fields",
                "        given = {*params[: len(args)], *kwargs} - init_fields\n        self.__dict__[FIELDS_SET_ATTR] = post_init_fields | given | prev_fields_set", negative=True)
    mb.add_text("neg-and-order", S, "exclude_unset = self.exclude_unset and support_fields_set(cls)", "exclude_unset = support_fields_set(cls) and self.exclude_unset", negative=True)
