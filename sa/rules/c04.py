"""C04 - serialization yields the JSON image prescribed by the type.

Decides: compiler totality on the serialization side; soundness and completeness
of the field-strategy selection and of the ComplexField omission flags w.r.t. the
documented omission causes (propositional table over atoms read off the source);
serialize(v) == serialize(type(v), v) wiring; key discipline of update_result.
"""
import ast

from ..boolx import BoolEval, Unknown, show, valuations
from ..model import AnalysisError
from ..util import flatten_boolop, dotted, norm, short, walk_no_nested
from ..visitors import totality
from .common_children import children_rule
from .common_fields import ATOMS, SER_VISITOR, SMETH, FieldModel, consistent

SER = "apischema.serialization"


def check(ctx):
    model = ctx.model
    ctx.explanations.append(
        "C04: decided - SerializationMethodVisitor implements every hook it can dispatch to (R1); over all consistent "
        "valuations of 14 atoms read off SerializationMethodVisitor.object, ObjectField.skippable and the ComplexField "
        "arguments: every flag that can effectively omit a field implies the omitting strategy is selected (R2a), every "
        "documented omission cause (value Undefined possible; None with exclude_none / none_as_undefined; default with "
        "exclude_defaults / skip metadata; skip-if condition) sets the flag that implements it (R2b), the non-selected "
        "strategies always emit and ComplexField tests each flag against the right value (R2c); serialize(v) is wired to "
        "serialize(type(v), v) (R3); every emitted key is the strategy's alias (R4). Not decided: equality of the output with "
        "the documented image, JSON-closedness, conversions, flattened merge, check_type."
    )
    ctx.rule("C04.R1", "SerializationMethodVisitor: every dispatchable hook is implemented", floor=15)
    totality(ctx, "C04.R1", SER_VISITOR)

    fm = FieldModel(model)
    obj = fm.obj
    ctx.rule("C04.R2a", "an effectively omitting flag implies the omitting strategy (ComplexField) is selected", floor=1)
    ctx.rule("C04.R2b", "every documented omission cause sets the flag implementing it", floor=4)
    ctx.rule("C04.R2c", "non-omitting strategies always emit; ComplexField tests each flag against the right value", floor=6)
    try:
        vals = list(valuations(ATOMS, consistent))
        n_bad_a = None
        causes = {
            "value may be Undefined (annotation or default) => `undefined`": lambda v, f: (not (v["type_undef"] or v["dflt_undef"])) or f["undefined"],
            "None excluded (exclude_none on Optional, or none_as_undefined) => `skip_none`": lambda v, f: (not ((v["type_none"] and v["exclude_none"]) or v["nau"])) or f["skip_none"],
            "default excluded (exclude_defaults or skip(serialization_default)) => `skip_default` (or the None / Undefined flag when that is the default)":
                lambda v, f: (not ((v["skip_default_meta"] or v["exclude_defaults"]) and not v["required"])) or f["skip_default"] or (v["dflt_none"] and f["skip_none"]) or (v["dflt_undef"] and f["undefined"]),
            "skip(serialization_if=...) => `skip_if`": lambda v, f: (not v["skip_if"]) or f["skip_if"],
        }
        bad_cause = {k: None for k in causes}
        for v in vals:
            flags = fm.flags(v)
            eff = fm.effective(flags, v)
            sel = fm.complex_selected(v)
            if any(eff.values()) and not sel and n_bad_a is None:
                n_bad_a = (v, [k for k, x in eff.items() if x])
            for name, pred in causes.items():
                if bad_cause[name] is None and not pred(v, flags):
                    bad_cause[name] = v
                # a cause must also select the omitting strategy
            any_cause = (v["type_undef"] or v["dflt_undef"]) or ((v["type_none"] and v["exclude_none"]) or v["nau"]) or ((v["skip_default_meta"] or v["exclude_defaults"]) and not v["required"] and v["has_factory"]) or v["skip_if"]
            if any_cause and not sel and n_bad_a is None:
                n_bad_a = (v, ["(omission cause present)"])
        ctx.extra["valuations"] = len(vals)
        ctx.check(n_bad_a is None, "C04.R2a", f"{obj.qualname}:selection", fm.selection.test,
                  (f"for a field with [{show(n_bad_a[0])}] the flag(s) {n_bad_a[1]} can omit the field, but the selection `{short(fm.selection.test, 120)}` is false: "
                   f"the field is compiled to a non-omitting strategy ({sorted(fm.else_classes)}) and is always emitted (e.g. the Undefined object itself)") if n_bad_a else "",
                  obj, fm.selection, detail=f"{len(vals)} consistent valuations of {len(ATOMS)} atoms enumerated")
        for name, v in bad_cause.items():
            flag = name.split("`")[1]
            ctx.check(v is None, "C04.R2b", f"{obj.qualname}:{flag}", fm.args[flag],
                      (f"omission cause [{name.split(' =>')[0]}] holds for a field with [{show(v)}] but ComplexField's `{flag}` argument `{short(fm.args[flag], 90)}` is false: the value is emitted although it must be omitted") if v else "",
                      obj, fm.args[flag], detail=name)
    except Unknown as err:
        raise AnalysisError(f"C04 table: {err}")

    # R2c
    ok_else = fm.else_classes <= {"IdentityField", "SimpleField"} and fm.else_classes
    ctx.check(bool(ok_else), "C04.R2c", f"{obj.qualname}:else-strategies", fm.selection, f"unexpected strategies in the non-omitting branch: {sorted(fm.else_classes)}", obj, fm.selection, detail=str(sorted(fm.else_classes)))
    for cname in ("IdentityField", "SimpleField"):
        c = model.cls(f"{SMETH}.{cname}")
        ur = c.methods.get("update_result")
        ctx.require(ur is not None, f"{cname}.update_result vanished")
        body = ur.node.body
        always = len(body) == 1 and isinstance(body[0], ast.Assign) and isinstance(body[0].targets[0], ast.Subscript)
        ctx.check(always, "C04.R2c", f"{cname}.update_result", body[0], f"{cname} is selected when no omission applies and must emit unconditionally", ur, ur.node, detail="single unconditional store")
    cf = model.cls(f"{SMETH}.ComplexField")
    ur = cf.methods["update_result"]
    text = norm(ur.node)
    pairs = {
        "skip_if": "self.skip_if is not None and self.skip_if(value)",
        "undefined": "self.undefined and value is Undefined",
        "skip_none": "self.skip_none and value is None",
        "skip_default": "self.skip_default and self.default_value == value",  # canonical operand order (sa/canon.py)
    }
    for flag, frag in pairs.items():
        ctx.check(frag in text, "C04.R2c", f"ComplexField.update_result:{flag}", ur.node.body[0],
                  f"ComplexField.update_result no longer omits on `{frag}`: the `{flag}` flag is tested against the wrong value or not at all", ur, ur.node, detail=frag)
    # truth tables of the emission sites (form-independent)
    from ..pathcond import complements, parents_of, path_condition
    atoms_e = complements({
        "self.typed_dict": "typed_dict", "self.required": "required", "self.name in obj": "in_obj", "self.exclude_unset": "exclude_unset",
        "self.name in getattr(obj, FIELDS_SET_ATTR)": "in_fields_set", "self.skippable": "skippable", "self.skip_if is not None": "skip_if_set", "self.skip_if": "skip_if_set",
        "self.skip_if(value)": "skip_if_true", "self.undefined": "undefined", "value is Undefined": "is_undef", "self.skip_none": "skip_none", "value is None": "is_none",
        "self.skip_default": "skip_default", "value == self.default_value": "eq_default", "self.default_value == value": "eq_default", "self.alias is not None": "alias_set"})
    names_e = ["typed_dict", "required", "in_obj", "exclude_unset", "in_fields_set", "skippable", "skip_if_set", "skip_if_true", "undefined", "is_undef", "skip_none", "is_none", "skip_default", "eq_default", "alias_set"]

    def emission_sites(fn):
        out = []
        for n in ast.walk(fn):
            if isinstance(n, ast.Assign) and isinstance(n.targets[0], ast.Subscript) and norm(n.targets[0].value) == "result":
                out.append(n)
            if isinstance(n, ast.Expr) and isinstance(n.value, ast.Call) and norm(n.value.func) == "result.update":
                out.append(n)
        return out

    def table(fi_, want, dom, what):
        sites = emission_sites(fi_.node)
        pm_ = parents_of(fi_.node)
        ev_ = BoolEval(atoms_e)
        try:
            fs = [ev_.compile(path_condition(fi_.node, s_, pm_)) for s_ in sites]
            bad = next((v for v in valuations(names_e, dom) if any(bool(f(v)) for f in fs) != bool(want(v))), None)
        except Unknown as err:
            ctx.undecided("C04.R2c", f"{fi_.qualname}: {err}")
            return
        ctx.check(bool(sites) and bad is None, "C04.R2c", f"{fi_.qualname}:emission", sites[0] if sites else fi_.node.body[0],
                  f"{what}: under [{show(bad) if bad else ''}] the field is " + ("emitted although it must be omitted" if bad and any(f(bad) for f in fs) else "omitted although it must be emitted"), fi_, sites[0] if sites else fi_.node,
                  detail=f"{len(sites)} emission site(s); truth table over {len(names_e)} atoms")

    flags_any = lambda v: v["skip_if_set"] or v["undefined"] or v["skip_none"] or v["skip_default"]
    omit = lambda v: (v["skip_if_set"] and v["skip_if_true"]) or (v["undefined"] and v["is_undef"]) or (v["skip_none"] and v["is_none"]) or (v["skip_default"] and v["eq_default"])
    present = lambda v: (v["required"] or v["in_obj"]) if v["typed_dict"] else (not v["exclude_unset"] or v["in_fields_set"])
    table(ur, lambda v: present(v) and not omit(v), lambda v: v["skippable"] == bool(flags_any(v)) and not (v["is_undef"] and v["is_none"]),
          "ComplexField emits a present field unless one of its set flags matches the value")
    sf = model.cls(f"{SMETH}.SerializedField").methods["update_result"]
    table(sf, lambda v: not (v["undefined"] and v["is_undef"]) and not (v["skip_none"] and v["is_none"]), lambda v: not (v["is_undef"] and v["is_none"]),
          "SerializedField emits the method's result unless it is Undefined (undefined flag) or None (skip_none flag)")
    pi = cf.methods.get("__post_init__")
    ok = pi is not None and all(f"self.{f}" in norm(pi.node) for f in pairs)
    ctx.check(ok, "C04.R2c", "ComplexField.__post_init__", pi.node.body[0] if pi else None, "ComplexField.skippable is not the disjunction of the four flags: a set flag would be short-circuited", pi, pi.node if pi else None, detail="skippable = any flag")
    # default_value passed is the field default
    dv = fm.args.get("default_value")
    ctx.check(dv is not None and norm(dv) == "field_default", "C04.R2c", f"{obj.qualname}:default_value", fm.complex_call, "ComplexField.default_value is not the field default", obj, fm.complex_call, detail="default_value=field_default")

    # ---------------- R3
    ctx.rule("C04.R3", "serialize(v) is serialize(Any, v) and Any dispatches on the runtime class through the same factory", floor=2)
    se = model.func(f"{SER}.serialize")
    def _rebinds(body) -> bool:
        """(type, obj) <- (Any, type): one tuple assignment (either order of the pairs), or `obj = type` followed by `type = Any`"""
        texts = [norm(s_) for s_ in body]
        if any(t_ in ("type, obj = (Any, type)", "obj, type = (type, Any)") for t_ in texts):
            return True
        return "obj = type" in texts and "type = Any" in texts and texts.index("obj = type") < texts.index("type = Any")
    ok = any(isinstance(n, ast.If) and norm(n.test) == "obj is NO_OBJ" and _rebinds(n.body) for n in walk_no_nested(se.node))
    ctx.check(ok, "C04.R3", se.qualname, se.node.body[0], "serialize(obj) no longer rebinds (type, obj) = (Any, type)", se, se.node, detail="type, obj = Any, type")
    am = model.func(f"{SMETH}.AnyMethod.serialize")
    ok = any(isinstance(n, ast.Call) and norm(n.func) == "self.factory" and n.args and norm(n.args[0]) == "obj.__class__" for n in walk_no_nested(am.node))
    ctx.check(ok, "C04.R3", am.qualname, am.node.body[0], "AnyMethod no longer dispatches on obj.__class__ through the visitor's factory", am, am.node, detail="self.factory(obj.__class__)")
    anyhook = model.func(f"{SER_VISITOR}.any")
    ok = any(isinstance(n, ast.Call) and (dotted(n.func) or "").endswith("AnyMethod") and n.args and norm(n.args[0]) == "self._factory" for n in walk_no_nested(anyhook.node))
    ctx.check(ok, "C04.R3", anyhook.qualname, anyhook.node.body[0], "any() does not build AnyMethod from the visitor's own factory (same options)", anyhook, anyhook.node, detail="AnyMethod(self._factory)")

    # ---------------- R4
    ctx.rule("C04.R4", "every key stored by a field strategy is its alias; result.update only for aggregate fields", floor=5)
    base = f"{SMETH}.BaseField"
    for q in model.subclasses(base, strict=True):
        c = model.classes[q]
        ur = c.methods.get("update_result")
        if ur is None:
            continue
        parents = {ch: p for p in ast.walk(ur.node) for ch in ast.iter_child_nodes(p)}
        for n in walk_no_nested(ur.node):
            if isinstance(n, ast.Subscript) and isinstance(n.ctx, ast.Store) and isinstance(n.value, ast.Name) and n.value.id == "result":
                ctx.check(norm(n.slice) == "self.alias", "C04.R4", f"{c.name}.update_result:key", n, f"{c.name} stores its value under `{norm(n.slice)}` instead of its alias", ur, n, detail="result[self.alias]")
            if isinstance(n, ast.Call) and isinstance(n.func, ast.Attribute) and n.func.attr == "update" and isinstance(n.func.value, ast.Name) and n.func.value.id == "result":
                p = parents.get(n)
                guarded = False
                child = n
                while p is not None:
                    if isinstance(p, ast.If) and norm(p.test) == "self.alias is not None" and child in p.orelse:
                        guarded = True
                    child = p
                    p = parents.get(p)
                ctx.check(guarded, "C04.R4", f"{c.name}.update_result:update", n, "result.update(...) outside the `alias is None` (aggregate) branch merges a value's keys into the parent", ur, n, detail="only under alias is None")

    # attribute reads use the Python name; additional keys of mapping-like objects
    for q in model.subclasses(base, strict=True):
        c = model.classes[q]
        ur = c.methods.get("update_result")
        if ur is None:
            continue
        for n in ast.walk(ur.node):
            if isinstance(n, ast.Call) and dotted(n.func) == "getattr" and len(n.args) >= 2 and norm(n.args[0]) == "obj" and norm(n.args[1]) != "FIELDS_SET_ATTR":
                ctx.check(norm(n.args[1]) == "self.name", "C04.R4", f"{c.name}.update_result:getattr", n, f"`{norm(n)}` reads the attribute under `{norm(n.args[1])}`: objects are read by their Python field name, the alias is the output key", ur, n, detail="getattr(obj, self.name)")
            if isinstance(n, ast.Subscript) and isinstance(n.ctx, ast.Load) and norm(n.value) == "obj":
                ctx.check(norm(n.slice) == "self.name", "C04.R4", f"{c.name}.update_result:obj[]", n, f"`{norm(n)}`: TypedDict items are read by their declared key (self.name)", ur, n, detail="obj[self.name]")
    oam = model.func(f"{SMETH}.ObjectAdditionalMethod.serialize")
    pm_a = parents_of(oam.node)
    ev_a = BoolEval(complements({"isinstance(key, str)": "is_str", "key in self.field_names": "declared", "key in result": "emitted"}))
    st_a = [n for n in ast.walk(oam.node) if isinstance(n, ast.Assign) and isinstance(n.targets[0], ast.Subscript) and norm(n.targets[0].value) == "result"]
    try:
        fs = [ev_a.compile(path_condition(oam.node, n, pm_a)) for n in st_a]
        bad = next((v for v in valuations(["is_str", "declared", "emitted"]) if any(bool(f(v)) for f in fs) != (v["is_str"] and not v["declared"] and not v["emitted"])), None)
        ctx.check(bool(st_a) and bad is None, "C04.R4", f"{oam.qualname}:additional", st_a[0] if st_a else oam.node.body[0],
                  f"additional keys of a mapping-like object are emitted under the wrong condition ([{show(bad) if bad else ''}]): a key must be a str, not a declared field and not already emitted", oam, st_a[0] if st_a else oam.node, detail="str key, undeclared, not yet in result")
        ctx.check(all(norm(n.targets[0].slice) == "key" for n in st_a), "C04.R4", f"{oam.qualname}:additional-key", st_a[0] if st_a else oam.node.body[0], "an additional key is stored under another name than itself", oam, oam.node, detail="result[key]")
    except Unknown as err:
        ctx.undecided("C04.R4", f"{oam.qualname}: {err}")

    # ---------------- R5
    ctx.rule("C04.R5", "every child method held by a node / field strategy is applied to the matching part of the object", floor=40)
    children_rule(ctx, "C04.R5", "ser")

    # ---------------- R6
    ctx.rule("C04.R6", "a container is returned as is only when its static class guarantees a JSON builtin (list / dict) or the matching pass_through option is set", floor=4)
    passthrough_rule(ctx)

    # ---------------- R7
    ctx.rule("C04.R7", "a method / property registered as serialized method or serializer is invoked through the instance, by name: an override in a subclass is what gets serialized", floor=3)
    late_binding_rule(ctx, "C04.R7")

    # ---------------- R11: every declaration form of a serialized method reaches the registry
    ctx.rule("C04.R11", "method_registerer (behind @serialized, @resolver, ...): a method declared in a class body is registered when the class is created (descriptor __set_name__), any other function is registered at once under the owner given explicitly, else the class of the method, else the class of its first parameter - on every non-raising path", floor=3)
    mr = model.func("apischema.methods.method_registerer")
    dec = mr.nested.get("decorator")
    ctx.require(dec is not None, "method_registerer.decorator vanished")
    regs11 = [c for c in ast.walk(dec.node) if isinstance(c, ast.Call) and isinstance(c.func, ast.Name) and c.func.id == mr.params[2]]
    in_set_name = [c for c in regs11 if any(isinstance(f_, ast.FunctionDef) and f_.name == "__set_name__" and any(x is c for x in ast.walk(f_)) for f_ in ast.walk(dec.node))]
    direct = [c for c in regs11 if c not in in_set_name]
    ctx.check(len(in_set_name) == 1 and norm(in_set_name[0].args[0]) == f"method_wrapper({dec.params[0]})" and [norm(a) for a in in_set_name[0].args[1:]] == ["owner", "name"], "C04.R11", f"{mr.qualname}:class-body", None,
              "a method decorated inside a class body is no longer registered by the descriptor's __set_name__ with (wrapped method, owner class, attribute name)", mr, in_set_name[0] if in_set_name else dec.node, detail="register(method_wrapper(method), owner, name) in __set_name__")
    ctx.check(len(direct) == 1, "C04.R11", f"{mr.qualname}:function-form", None,
              "a function decorated outside a class body (`@serialized def area(r: Rectangle)`, `serialized(owner=Cls)(f)`) is not registered: it silently never appears in the serialized object nor in the schema",
              mr, dec.node, detail="register(method, owner2, method.__name__)")
    if len(direct) == 1:
        from ..visitors import falls_off
        # the direct registration is reached on every non-raising path of the else branch: it is a top-level statement of that branch
        par11 = {c_: p_ for p_ in ast.walk(dec.node) for c_ in ast.iter_child_nodes(p_)}
        st11 = direct[0]
        while not isinstance(st11, ast.stmt):
            st11 = par11[st11]
        holder = par11.get(st11)
        ctx.check(isinstance(holder, ast.If) and st11 in holder.orelse, "C04.R11", f"{mr.qualname}:unconditional", None, "the registration of the function form is conditional inside its branch", mr, st11, detail="top-level statement of the non-class-body branch")
        owners = [norm(a.value) for a in ast.walk(dec.node) if isinstance(a, ast.Assign) and norm(a.targets[0]) == norm(direct[0].args[1])]
        ctx.check(any(v == "owner" for v in owners) and any("method_class(" in v for v in owners) and any("hints[" in v for v in owners), "C04.R11", f"{mr.qualname}:owner", None,
                  f"the owner of a function-form method is resolved from {owners}: expected the explicit owner, then the class defining the method, then the class of the first parameter", mr, direct[0], detail="owner -> method_class(method) -> type of the first parameter")

    # ---------------- R10: every method converter is late-bound, whatever the way it was declared
    ctx.rule("C04.R10", "resolve_conversion wraps every converter that is a method with method_wrapper (lookup of the method on the instance, by name) - also when the conversion states its source explicitly: an override of the method in a subclass is what serializes the subclass", floor=1)
    rc10 = model.func("apischema.conversions.conversions.resolve_conversion")
    from ..pathcond import parents_of as _po10, path_condition as _pc10
    pm10 = _po10(rc10.node)
    wraps10 = [c for c in ast.walk(rc10.node) if isinstance(c, ast.Call) and dotted(c.func) == "method_wrapper"]
    ctx.require(len(wraps10) == 1, "resolve_conversion: method_wrapper(...) not found")
    stmt10 = wraps10[0]
    while not isinstance(stmt10, ast.stmt):
        stmt10 = pm10[stmt10]
    cond10 = _pc10(rc10.node, stmt10, pm10)
    from ..util import canon as _canon10
    conj10 = [_canon10(rc10.node, x) for x in flatten_boolop(cond10, ast.And)] if cond10 is not None else []
    extra10 = [c for c in conj10 if c not in ("is_method(conversion.converter)", "True") and "is_method(" not in c and "isinstance(converter, property)" not in c]
    disj = any(" or " in c for c in conj10)
    ctx.check("is_method(conversion.converter)" in conj10 and not extra10 and not disj, "C04.R10", f"{rc10.qualname}:wrap", None,
              f"method_wrapper is applied under `{norm(cond10) if cond10 is not None else 'no condition'}`: a method converter given with an explicit source (`Conversion(Shape.dump, source=Shape)`) keeps the raw base-class function, which is called on the instances of the subclasses whatever they override",
              rc10, stmt10, detail="if is_method(conversion.converter): ... converter=method_wrapper(conversion.converter)")

    # ---------------- R8: metadata given through Annotated
    ctx.rule("C04.R8", "field metadata can be given through Annotated[...]: a key that ObjectField reads from the field's own `metadata` only must be one the visitors consume when they visit the Annotated type itself (conversion, schema, validators); every other key (skip, ...) is read through `full_metadata`, or it is silently ignored when written in Annotated", floor=3)
    consumed = set()
    for fi in model.functions.values():
        if fi.name != "annotated" or fi.cls is None:
            continue
        for n in ast.walk(fi.node):
            if isinstance(n, ast.Name) and n.id.endswith("_METADATA"):
                consumed.add(n.id)
    ctx.require(len(consumed) >= 3, f"metadata keys consumed by the annotated() hooks: {sorted(consumed)}")
    of_cls = model.cls("apischema.objects.fields.ObjectField")
    own_only = {}
    for m in of_cls.methods.values():
        for n in ast.walk(m.node):
            key = None
            if isinstance(n, ast.Call) and isinstance(n.func, ast.Attribute) and n.func.attr == "get" and norm(n.func.value) == "self.metadata" and n.args and isinstance(n.args[0], ast.Name):
                key = n.args[0].id
            elif isinstance(n, ast.Subscript) and norm(n.value) == "self.metadata" and isinstance(n.slice, ast.Name):
                key = n.slice.id
            elif isinstance(n, ast.Compare) and len(n.ops) == 1 and isinstance(n.ops[0], (ast.In, ast.NotIn)) and isinstance(n.left, ast.Name) and norm(n.comparators[0]) == "self.metadata":
                key = n.left.id
            if key and key.endswith("_METADATA"):
                own_only.setdefault(key, (m, n))
    ctx.require(len(own_only) >= 2, "ObjectField: keys read from self.metadata not found")
    for key, (m, n) in sorted(own_only.items()):
        ctx.check(key in consumed, "C04.R8", f"{of_cls.qualname}:{key}", None,
                  f"`{short(n, 60)}` ({m.name}) reads {key} from the field's own metadata, and no annotated() hook consumes that key: `x: Annotated[int, skip(serialization_default=True)] = 0` is accepted and ignored - the default is serialized although its omission was asked for",
                  m, n, detail=f"{key} consumed by annotated() hooks" )


    # ---------------- helpers applied to raw annotations look through Annotated
    ctx.rule("C04.R9", "is_union_of (nullability of GraphQL arguments, Undefined / None omission of fields and serialized methods) looks through Annotated[...]: raw field / parameter / return annotations reach it", floor=5)
    from .common_annotated import annotated_transparency_rule
    annotated_transparency_rule(ctx, "C04.R9")

def late_binding_rule(ctx, rule):
    """apischema.methods.method_wrapper: each wrapper returns `getattr(self, name)` (called for methods), `name` being the
    registered attribute name; nothing bound at decoration time (method, method.fget, a local built from them) is called."""
    model = ctx.model
    mw = model.func("apischema.methods.method_wrapper")
    class _W:
        def __init__(self, node):
            self.node, self.name, self.params = node, node.name, [a.arg for a in node.args.args]
    wrappers = [_W(n) for n in ast.walk(mw.node) if isinstance(n, ast.FunctionDef) and n is not mw.node and n.args.args]
    ctx.require(len(wrappers) >= 3, "method_wrapper: wrapper functions not found")
    meth = mw.params[0]
    # locals of method_wrapper derived from the decorated object (early bound)
    early = {meth}
    changed = True
    while changed:
        changed = False
        for n in walk_no_nested(mw.node):
            if isinstance(n, ast.Assign) and len(n.targets) == 1 and isinstance(n.targets[0], ast.Name) and n.targets[0].id not in early and n.targets[0].id != mw.params[1]:
                v = n.value
                # `name = name or method.__name__` is a string, not a callable: only attribute chains ending in a function count
                if isinstance(v, ast.BoolOp) and all(isinstance(x, ast.Name) or (isinstance(x, ast.Attribute) and x.attr == "__name__") for x in v.values):
                    continue
                if any(isinstance(x, ast.Name) and x.id in early for x in ast.walk(v)) and not (isinstance(v, ast.Attribute) and v.attr == "__name__"):
                    early.add(n.targets[0].id)
                    changed = True
    name_defs = [n for n in walk_no_nested(mw.node) if isinstance(n, ast.Assign) and norm(n.targets[0]) == mw.params[1]]
    for w in wrappers:
        self_p = w.params[0]
        rets = [n for n in walk_no_nested(w.node) if isinstance(n, ast.Return)]
        ok = len(rets) == 1 and rets[0].value is not None
        why = "the wrapper has no single return"
        if ok:
            v = rets[0].value
            core = v.func if isinstance(v, ast.Call) and not (isinstance(v.func, ast.Name) and v.func.id == "getattr") else v
            ok = isinstance(core, ast.Call) and isinstance(core.func, ast.Name) and core.func.id == "getattr" and len(core.args) == 2 \
                and norm(core.args[0]) == self_p and norm(core.args[1]) == mw.params[1]
            why = f"`{short(v, 60)}` does not look `{mw.params[1]}` up on the instance"
            used_early = sorted({x.id for x in ast.walk(w.node) if isinstance(x, ast.Name) and isinstance(x.ctx, ast.Load) and x.id in early
                                 and not any(x in list(ast.walk(d)) for d in w.node.decorator_list)})
            if used_early:
                ok = False
                why = f"the wrapper calls `{used_early[0]}`, bound when the base class was decorated"
        ctx.check(ok, rule, f"{mw.qualname}:{w.name}#{wrappers.index(w)}", None,
                  f"{why}: a subclass overriding the serialized method / property (without decorating it again) is serialized with the base class implementation", mw, w.node,
                  detail=f"return getattr({self_p}, {mw.params[1]})[(...)]")
    def name_ok(v):
        if isinstance(v, ast.BoolOp) and isinstance(v.op, ast.Or):
            return norm(v.values[0]) == mw.params[1] and name_ok(v.values[-1])
        if isinstance(v, ast.IfExp):
            return all(norm(x) == mw.params[1] or name_ok(x) for x in (v.body, v.orelse))
        return isinstance(v, ast.Attribute) and v.attr == "__name__"
    for d in name_defs:
        ctx.check(name_ok(d.value), rule, f"{mw.qualname}:name", d, "the looked-up name is no longer the explicit name or the function's own __name__", mw, d, detail="name = name or <function>.__name__")


def passthrough_rule(ctx):
    model = ctx.model
    expected = {
        "collection": (lambda v: (v["no_copy"] and v["is_list"]) or (v["pt_tuple"] and v["is_tuple"]) or (v["pt_coll"] and not v["is_set"]), "list"),
        "mapping": (lambda v: (v["no_copy"] and v["is_dict"]) or v["pt_coll"], "dict"),
    }
    names = ["no_copy", "pt_tuple", "pt_coll", "is_list", "is_tuple", "is_set", "is_dict"]
    classes = {"list": "is_list", "tuple": "is_tuple", "collections.abc.Set": "is_set", "Set": "is_set", "AbstractSet": "is_set", "dict": "is_dict"}
    for hook, (want, builtin) in expected.items():
        fi = model.func(f"{SER_VISITOR}.{hook}")
        wrong_direction = []

        def special(e, _):
            if isinstance(e, ast.Call) and dotted(e.func) == "issubclass" and len(e.args) == 2:
                a, b = e.args
                if norm(a) == "cls" and (dotted(b) or "") in classes:
                    atom = classes[dotted(b)]
                    return lambda v: v[atom]
                if norm(b) == "cls":
                    wrong_direction.append(e)
                    return lambda v: True
            return None

        ev = BoolEval({"self.no_copy": "no_copy", "self.pass_through_options.tuple": "pt_tuple", "self.pass_through_options.collections": "pt_coll"}, special=special)
        pdef = [n for n in walk_no_nested(fi.node) if isinstance(n, ast.Assign) and norm(n.targets[0]) == "passthrough"]
        if len(pdef) != 1:
            ctx.fail("C04.R6", f"{fi.qualname}:passthrough", None, f"{hook}() no longer computes a single `passthrough` predicate", fi.module.relpath, fi.node.lineno)
            continue
        try:
            got = ev.compile(pdef[0].value)
            bad = None
            for v in valuations(names, lambda v: sum((v["is_list"], v["is_tuple"], v["is_set"], v["is_dict"])) <= 1):
                if bool(got(v)) != bool(want(v)):
                    bad = v
                    break
        except Unknown as err:
            ctx.undecided("C04.R6", f"{fi.qualname}: {err}")
            continue
        for e in wrong_direction:
            ctx.fail("C04.R6", f"{fi.qualname}:direction", e, f"`{norm(e)}` tests that the annotation is a supertype of the builtin: an abstract annotation (Mapping, Sequence) then lets any runtime value through unchanged, e.g. a MappingProxyType, which is not JSON data", fi.module.relpath, e.lineno)
        ctx.check(bad is None, "C04.R6", f"{fi.qualname}:passthrough", pdef[0],
                  f"pass-through predicate differs from the documented one under [{show(bad) if bad else ''}]: the value is " + ("returned as is although nothing guarantees a builtin container" if bad and got(bad) else "copied although pass-through was requested"),
                  fi, pdef[0], detail="truth table over no_copy / pass_through options / static class")
        # IDENTITY only under the predicate; otherwise the builtin constructor
        for n in walk_no_nested(fi.node):
            if isinstance(n, ast.IfExp) and "IDENTITY_METHOD" in norm(n):
                ok = norm(n.test) == "passthrough" and norm(n.body) == "IDENTITY_METHOD" and norm(n.orelse) == f"METHODS[{builtin}]"
                ctx.check(ok, "C04.R6", f"{fi.qualname}:identity", n, f"`{short(n, 70)}`: identity is selected outside the pass-through predicate, or the copy is not METHODS[{builtin}]", fi, n, detail=f"IDENTITY_METHOD if passthrough else METHODS[{builtin}]")


def mutants(mb):
    mb.add_text("neg-resolve-conversion-local", "apischema/conversions/conversions.py", "    if is_method(conversion.converter):\n        if conversion.source is None:\n            conversion = replace(conversion, source=method_class(conversion.converter))\n        conversion = replace(conversion, converter=method_wrapper(conversion.converter))\n", "    converter = conversion.converter\n    if is_method(converter):\n        if conversion.source is None:\n            conversion = replace(conversion, source=method_class(converter))\n        conversion = replace(conversion, converter=method_wrapper(converter))\n", negative=True)
    mb.add_text("function-form-not-registered", "apischema/methods.py", "            register(method, owner2, method.__name__)\n", "", "C04.R11", "function-form")
    mb.add_text("function-form-owner-not-inferred", "apischema/methods.py", "                    owner2 = get_origin_or_type2(hints[next(iter(hints))])\n", "                    owner2 = None\n", "C04.R11", "owner")
    mb.add_text("method-converter-wrapped-only-without-source", "apischema/conversions/conversions.py", "        if conversion.source is None:\n            conversion = replace(conversion, source=method_class(conversion.converter))\n        conversion = replace(conversion, converter=method_wrapper(conversion.converter))\n", "        if conversion.source is None:\n            conversion = replace(conversion, source=method_class(conversion.converter))\n            conversion = replace(conversion, converter=method_wrapper(conversion.converter))\n", "C04.R10", "wrap")
    mb.add_text("is-union-of-not-annotated-transparent", "apischema/utils.py", "    return tp == of or (is_union(get_origin_or_type2(tp)) and of in get_args2(tp))\n", "    return tp == of or (is_union(get_origin_or_type(tp)) and of in get_args(tp))\n", "C04.R9", "is_union_of")
    mb.add_text("skip-own-metadata-only", "apischema/objects/fields.py", "        return self.full_metadata.get(SKIP_METADATA, SkipMetadata())\n", "        return self.metadata.get(SKIP_METADATA, SkipMetadata())\n", "C04.R8", "SKIP_METADATA")
    MW = "apischema/methods.py"
    mb.add_text("wrapper-calls-fget", MW, "            assert name is not None\n            return getattr(self, name)\n", "            return method.fget(self)\n", "C04.R7", "wrapper#0")
    mb.add_text("wrapper-calls-method", MW, "                assert name is not None\n                return getattr(self, name)(*args, **kwargs)\n", "                return method(self, *args, **kwargs)\n", "C04.R7", "wrapper#2")
    mb.add_text("wrapper-looks-up-on-class", MW, "                assert name is not None\n                return getattr(self, name)()\n", "                return getattr(method_class(method), name)(self)\n", "C04.R7", "wrapper#1")
    mb.add_text("neg-wrapper-self-renamed", MW, "        def wrapper(self):\n            assert name is not None\n            return getattr(self, name)\n\n    else:", "        def wrapper(obj):\n            assert name is not None\n            return getattr(obj, name)\n\n    else:", negative=True)
    mb.add_text("neg-name-if-none", MW, "        name = name or method.fget.__name__\n", "        name = method.fget.__name__ if name is None else name\n", negative=True)
    S = "apischema/serialization/__init__.py"
    M = "apischema/serialization/methods.py"
    F = "apischema/objects/fields.py"
    mb.add_text("undefined-flag-annotation-only", S, "                    is_union_of(field.type, UndefinedType)\n                    or field_default is Undefined,\n", "                    field.undefined,\n", "C04.R2b", "undefined")
    mb.add_text("skippable-no-undefined-default", F, "            or (not self.required and self.get_default() is Undefined)\n", "", "C04.R2a", "selection")
    mb.add_text("skip-none-no-nau", S, "                    or field.none_as_undefined\n", "", "C04.R2b", "skip_none")
    mb.add_text("skip-none-no-exclude-none", S, "                    (is_union_of(field.type, NoneType) and self.exclude_none)\n                    or field.none_as_undefined", "                    field.none_as_undefined", "C04.R2b", "skip_none")
    mb.add_text("skip-default-meta-only", S, "                    (field.skip.serialization_default or self.exclude_defaults)\n                    and field_default not in (None, Undefined),", "                    field.skip.serialization_default\n                    and field_default not in (None, Undefined),", "C04.R2b", "skip_default")
    mb.add_text("none-default-meta-ignored", S, "                        and (field.skip.serialization_default or self.exclude_defaults)\n", "                        and self.exclude_defaults\n", "C04.R2b", "skip_default")
    mb.add_text("selection-drops-skippable", S, "                or field_alias is None\n                or field.skippable(self.exclude_defaults, self.exclude_none)\n            ):", "                or field_alias is None\n                or field.skip.serialization_if\n            ):", "C04.R2a", "selection")
    mb.add_text("skippable-none-args-crossed", S, "field.skippable(self.exclude_defaults, self.exclude_none)", "field.skippable(self.exclude_none, self.exclude_defaults)", "C04.R2", "")
    mb.add_text("skip-if-dropped", S, "                    field.skip.serialization_if,\n", "                    None,\n", "C04.R2b", "skip_if")
    mb.add_text("complex-undefined-vs-none", M, "or (self.undefined and value is Undefined)", "or (self.undefined and value is None)", "C04.R2c", "undefined")
    mb.add_text("complex-default-identity", M, "or (self.skip_default and value == self.default_value)", "or (self.skip_default and value is self.default_value)", "C04.R2c", "skip_default")
    mb.add_text("identity-field-conditional", M, "    def update_result(self, obj: Any, result: dict):\n        result[self.alias] = getattr(obj, self.name)\n", "    def update_result(self, obj: Any, result: dict):\n        value = getattr(obj, self.name)\n        if value is not None:\n            result[self.alias] = value\n", "C04.R2c", "IdentityField")
    mb.add_text("key-name", M, "        result[self.alias] = self.method.serialize(getattr(obj, self.name), self.alias)", "        result[self.name] = self.method.serialize(getattr(obj, self.name), self.alias)", "C04.R4", "SimpleField")
    mb.add_text("serialized-key-name", M, "            result[self.alias] = self.method.serialize(value, self.alias)\n\n\n@dataclass\nclass SimpleObjectMethod", "            result[self.name] = self.method.serialize(value, self.alias)\n\n\n@dataclass\nclass SimpleObjectMethod", "C04.R4", "SerializedField")
    mb.add_text("no-obj-not-rebound", S, "        type, obj = Any, type\n", "        obj = type\n", "C04.R3", "serialize")
    mb.add_text("hook-missing", S, "    def enum(self, cls: Type[Enum]) -> SerializationMethod:", "    def enum_(self, cls: Type[Enum]) -> SerializationMethod:", "C04.R1", "enum")
    mb.add_text("collection-elt-raw", M, "        return [self.value_method.serialize(elt, i) for i, elt in enumerate(obj)]", "        return [elt for i, elt in enumerate(obj)]", "C04.R5", "CollectionMethod.value_method")
    mb.add_text("collection-elt-index", M, "        return [self.value_method.serialize(elt, i) for i, elt in enumerate(obj)]", "        return [self.value_method.serialize(i, i) for i, elt in enumerate(obj)]", "C04.R5", "CollectionMethod.value_method:part")
    mb.add_text("mapping-key-raw", M, "            self.key_method.serialize(key, key): self.value_method.serialize(value, key)", "            key: self.value_method.serialize(value, key)", "C04.R5", "MappingMethod.key_method")
    mb.add_text("simple-field-raw", M, "        result[self.alias] = self.method.serialize(getattr(obj, self.name), self.alias)", "        result[self.alias] = getattr(obj, self.name)", "C04.R5", "SimpleField.method")
    mb.add_text("object-fields-skipped", M, "            field.update_result(obj, result)", "            pass", "C04.R5", "fields")
    mb.add_text("mapping-passthrough-supertype", S, "            issubclass(cls, dict) and self.no_copy\n", "            self.no_copy and issubclass(dict, cls)\n", "C04.R6", "mapping")
    mb.add_text("collection-passthrough-any-nocopy", S, "            (self.no_copy and issubclass(cls, list))\n", "            self.no_copy\n", "C04.R6", "collection:passthrough")
    mb.add_text("collection-set-passthrough", S, "                and not issubclass(cls, collections.abc.Set)\n", "", "C04.R6", "collection:passthrough")
    mb.add_text("discriminate-falls-off", S, "            # TypedDict instances cannot be told apart without their discriminator field\n            raise TypeError(f\"{Union[tuple(types)]} can't be discriminated\")\n", "", "C04.R1", "discriminate:returns")
    mb.add_text("serialized-field-flags-or", M, "        if not (self.undefined and value is Undefined) and not (\n            self.skip_none and value is None\n        ):", "        if not (self.undefined and value is Undefined) or not (\n            self.skip_none and value is None\n        ):", "C04.R2c", "SerializedField")
    mb.add_text("complex-presence-typed-dict-and", M, "            (self.required or self.name in obj)\n", "            (self.required and self.name in obj)\n", "C04.R2c", "ComplexField")
    mb.add_text("complex-exclude-unset-flipped", M, "            else (not self.exclude_unset or self.name in getattr(obj, FIELDS_SET_ATTR))", "            else (self.exclude_unset or self.name in getattr(obj, FIELDS_SET_ATTR))", "C04.R2c", "ComplexField")
    mb.add_text("identity-field-reads-alias", M, "        result[self.alias] = getattr(obj, self.name)\n", "        result[self.alias] = getattr(obj, self.alias)\n", "C04.R4", "IdentityField")
    mb.add_text("additional-keys-or", M, "            if isinstance(key, str) and not (key in self.field_names or key in result):", "            if isinstance(key, str) or not (key in self.field_names or key in result):", "C04.R4", "additional")
    mb.add_text("additional-keys-and", M, "            if isinstance(key, str) and not (key in self.field_names or key in result):", "            if isinstance(key, str) and not (key in self.field_names and key in result):", "C04.R4", "additional")
    mb.add_text("neg-passthrough-reordered", S, "            issubclass(cls, dict) and self.no_copy\n", "            self.no_copy and issubclass(cls, dict)\n", negative=True)
    mb.add_text("neg-flag-reordered", S, "                    is_union_of(field.type, UndefinedType)\n                    or field_default is Undefined,\n", "                    field_default is Undefined\n                    or is_union_of(field.type, UndefinedType),\n", negative=True)
    mb.add_text("neg-property-instead-of-call", S, "                    is_union_of(field.type, UndefinedType)\n                    or field_default is Undefined,\n", "                    field.undefined or field_default is Undefined,\n", negative=True)
