"""C02 - rejections report every violation once, at its location.

Decides (typestate over accumulator variables, per node method CFG): no child
error is lost, no normal exit / construction with an error pending, error keys are
the loop's own key or the field alias, message order independent of set iteration.
"""
import ast
from typing import Dict, List, Optional, Set

from ..cfg import CFG, describe_path
from ..model import AnalysisError, FuncInfo
from ..nodes import DESER_MOD, deser_nodes, is_ve, own_methods
from ..util import dotted, names_in, norm, short, walk_no_nested
from .common_object import object_protocol_rule
from .common_counter import check_counters, counter_mutants

ERRORS_MOD = "apischema.validation.errors"
VALIDATORS_MOD = "apischema.validation.validators"


def discover_helpers(model) -> Dict[str, FuncInfo]:
    """Accumulation helpers: functions that return their first parameter, or a
    fresh value when that parameter is None."""
    out = {}
    for modname in (DESER_MOD, ERRORS_MOD):
        for fi in model.funcs_in_module(modname):
            if fi.cls is not None or fi.parent is not None or len(fi.params) < 2:
                continue
            p0 = fi.params[0]
            tests_none = any(
                isinstance(n, ast.Compare) and isinstance(n.left, ast.Name) and n.left.id == p0
                and isinstance(n.ops[0], (ast.Is, ast.IsNot)) and isinstance(n.comparators[0], ast.Constant) and n.comparators[0].value is None
                for n in walk_no_nested(fi.node)
            )
            returns_p0 = any(isinstance(n, ast.Return) and isinstance(n.value, ast.Name) and n.value.id == p0 for n in walk_no_nested(fi.node))
            if (tests_none and returns_p0) or fi.name in ("set_child_error", "extend_errors", "update_children_errors"):
                out[fi.name] = fi
    return out


def _ends_with_raise(fn, node, par) -> bool:
    """every block from `node` up to the function body is followed (eventually) by an unconditional raise"""
    from ..visitors import _always_exits
    cur = node
    while cur is not None and cur is not fn:
        p = par.get(cur)
        if p is None:
            break
        for name in ("body", "orelse", "finalbody"):
            blk = getattr(p, name, None)
            if isinstance(blk, list) and cur in blk:
                rest = blk[blk.index(cur) + 1:]
                if rest and _always_exits(rest) and isinstance(rest[-1], ast.Raise):
                    return True
        if isinstance(p, ast.ExceptHandler):
            pass
        cur = p
    return False


def constraints_loop_rule(ctx, vc):
    """validate_constraints: each constraint of the tuple is evaluated exactly once, each failure formatted."""
    from ..pathcond import parents_of, path_condition
    fn = vc.node
    cp = vc.params[1]
    parents = parents_of(fn)
    loops = []
    for n in ast.walk(fn):
        if isinstance(n, ast.For):
            it = n.iter
            if isinstance(it, ast.Name) and it.id == cp:
                loops.append((n, "direct"))
            elif isinstance(it, ast.Call) and dotted(it.func) == "range" and it.args and norm(it.args[-1] if len(it.args) <= 2 else it.args[1]) == f"len({cp})":
                loops.append((n, "range"))
    ctx.check(bool(loops), "C02.R9", f"{vc.qualname}:loops", fn.body[0], f"no loop over `{cp}` found in validate_constraints", vc, fn)

    def enclosing_loop(node):
        p = parents.get(node)
        while p is not None:
            for l, k in loops:
                if l is p:
                    return l, k
            p = parents.get(p)
        return None, None

    for l, kind in loops:
        if kind != "range":
            continue
        outer, _ = enclosing_loop(l)
        args = l.iter.args
        start = norm(args[0]) if len(args) >= 2 else "0"
        if outer is None:
            ctx.check(start == "0" and len(args) <= 2, "C02.R9", f"{vc.qualname}:range:outer", l, f"`{short(l, 60)}` does not start at the first constraint", vc, l, detail="range(len(constraints))")
        else:
            ov = norm(outer.target)
            ctx.check(start in (f"{ov} + 1", f"1 + {ov}") and len(args) == 2, "C02.R9", f"{vc.qualname}:range:inner", l,
                      f"`{short(l, 60)}`: the continuation loop must resume right after the first failing constraint ({ov} + 1): starting at {start} " + ("re-reports it" if start == ov else "skips constraints"), vc, l, detail=f"range({ov} + 1, len(constraints))")
            # the outer loop must be left once the continuation loop has run
            blk = next((b for b in (getattr(parents[l], "body", []), getattr(parents[l], "orelse", [])) if l in b), [])
            after = blk[blk.index(l) + 1:] if l in blk else []
            ctx.check(bool(after) and isinstance(after[-1], (ast.Raise, ast.Return, ast.Break)), "C02.R9", f"{vc.qualname}:range:exit", l,
                      "the outer loop continues after the continuation loop: later constraints are evaluated and reported twice", vc, l, detail="raise after the inner loop")
    fmt_order = sorted((c for c in ast.walk(fn) if isinstance(c, ast.Call) and dotted(c.func) == "format_error"), key=lambda c: (c.lineno, c.col_offset))
    for c in ast.walk(fn):
        if isinstance(c, ast.Call) and isinstance(c.func, ast.Attribute) and c.func.attr == "validate" and isinstance(c.func.value, ast.Name):
            recv = c.func.value.id
            l, kind = enclosing_loop(c)
            construct = f"{vc.qualname}:validate@{'inner' if l is not None and enclosing_loop(l)[0] is not None else 'outer'}"
            if l is None:
                ctx.fail("C02.R9", construct, c, "constraint.validate() outside any loop over the constraints", vc.module.relpath, c.lineno)
                continue
            if kind == "direct":
                ok = norm(l.target) == recv
            else:
                best = None
                for a in ast.walk(l):
                    if isinstance(a, (ast.Assign, ast.AnnAssign)) and a.value is not None:
                        t = a.targets[0] if isinstance(a, ast.Assign) else a.target
                        if isinstance(t, ast.Name) and t.id == recv and a.lineno <= c.lineno and enclosing_loop(a)[0] is l:
                            if best is None or a.lineno > best.lineno:
                                best = a
                ok = best is not None and norm(best.value) == f"{cp}[{norm(l.target)}]"
            ctx.check(ok, "C02.R9", construct, c, f"`{short(c, 50)}`: `{recv}` is not the constraint selected by the enclosing loop (the same constraint is evaluated again, or a stale one)", vc, c, detail=f"{recv} = {cp}[<loop var>]")
            # a failing constraint produces a message
            guard = parents.get(c)
            while guard is not None and not isinstance(guard, ast.If):
                guard = parents.get(guard)
            has_msg = guard is not None and isinstance(guard.test, ast.UnaryOp) and isinstance(guard.test.op, ast.Not) and any(
                isinstance(x, ast.Call) and dotted(x.func) == "format_error" and x.args and norm(x.args[0]) == f"{recv}.error" for st_ in guard.body for x in ast.walk(st_))
            ctx.check(has_msg, "C02.R9", construct + ":message", c, f"the failure of `{short(c, 40)}` produces no message: the violated constraint is not reported", vc, c, detail="format_error(c.error, data) under `if not c.validate(data)`")
        if isinstance(c, ast.Call) and dotted(c.func) == "format_error":
            cond = path_condition(fn, c, parents)
            conj = cond.values if isinstance(cond, ast.BoolOp) else [cond]
            last = conj[-1]
            ok = isinstance(last, ast.UnaryOp) and isinstance(last.op, ast.Not) and isinstance(last.operand, ast.Call) and isinstance(last.operand.func, ast.Attribute) and last.operand.func.attr == "validate" \
                and c.args and norm(c.args[0]) == f"{norm(last.operand.func.value)}.error"
            ctx.check(ok, "C02.R9", f"{vc.qualname}:format#{fmt_order.index(c)}", c, f"`{short(c, 60)}` is not guarded by the failure of the same constraint (`not <c>.validate(data)`)", vc, c, detail="under `not c.validate(data)`, formats c.error")
            # the message must land in the raised list
            st = c
            while st is not None and not isinstance(st, ast.stmt):
                st = parents.get(st)
            lands = isinstance(st, (ast.Assign, ast.AnnAssign)) or (isinstance(st, ast.Expr) and isinstance(st.value, ast.Call) and isinstance(st.value.func, ast.Attribute) and st.value.func.attr in ("append", "extend"))
            ctx.check(lands, "C02.R9", f"{vc.qualname}:format-kept#{fmt_order.index(c)}", c, "the formatted message is not added to the error list", vc, c, detail="errors = [...] / errors.append(...)")


def helper_contract(ctx, fns):
    from ..boolx import BoolEval, Unknown
    from ..pathcond import _leaves, complements, parents_of, path_condition
    for fi in fns:
        acc, items = fi.params[0], set(fi.params[1:])
        ev = BoolEval(complements({f"{acc} is None": "none"}))
        parents = parents_of(fi.node)
        body = [s_ for s_ in fi.node.body if not (isinstance(s_, ast.Expr) and isinstance(s_.value, ast.Constant))]
        ctx.check(_leaves(body), "C02.R8", f"{fi.name}:total", fi.node.body[-1], f"{fi.name} can fall off its end and return None: the accumulated errors are lost", fi, fi.node, detail="every path returns")
        for r in walk_no_nested(fi.node):
            if not isinstance(r, ast.Return):
                continue
            try:
                cond = ev.compile(path_condition(fi.node, r, parents))
                when_none, when_some = bool(cond({"none": True})), bool(cond({"none": False}))
            except Unknown as err:
                ctx.undecided("C02.R8", f"{fi.name}: {err}")
                continue
            if isinstance(r.value, ast.Name) and r.value.id == acc:
                # returns the accumulator: only when it is not None, and after a store of all items in the same block
                block = next(b for _, b in ((n_, getattr(parents[r], n_, None)) for n_ in ("body", "orelse")) if isinstance(b, list) and r in b)
                stored = set()
                for s_ in block[: block.index(r)]:
                    if isinstance(s_, ast.Assign) and isinstance(s_.targets[0], ast.Subscript) and norm(s_.targets[0].value) == acc:
                        stored |= names_in(s_.targets[0].slice) | names_in(s_.value)
                    if isinstance(s_, ast.Expr) and isinstance(s_.value, ast.Call) and isinstance(s_.value.func, ast.Attribute) and norm(s_.value.func.value) == acc and s_.value.func.attr in ("extend", "update", "append"):
                        for a in s_.value.args:
                            stored |= names_in(a)
                ctx.check(not when_none and items <= stored, "C02.R8", f"{fi.name}:return-acc", r,
                          f"{fi.name} returns `{acc}` " + ("on the None path" if when_none else f"without storing {sorted(items - stored)} into it") + ": the new error is lost", fi, r, detail=f"stores {sorted(items)} then returns {acc}")
            else:
                got = names_in(r.value) if r.value is not None else set()
                ctx.check(not when_some and items <= got, "C02.R8", f"{fi.name}:return-fresh", r,
                          f"{fi.name} returns a fresh container " + (f"while `{acc}` is not None: the errors accumulated so far are dropped" if when_some else f"that ignores {sorted(items - got)}"), fi, r, detail=f"only when {acc} is None, built from {sorted(items)}")


def scope_functions(ctx) -> List[FuncInfo]:
    model = ctx.model
    fns = own_methods(deser_nodes(model))
    fns.append(model.func(f"{DESER_MOD}.validate_constraints"))
    fns.append(model.func(f"{VALIDATORS_MOD}.validate"))
    if ctx.tier == "thorough":
        seen = {f.qualname for f in fns}
        for modname in (DESER_MOD, ERRORS_MOD, VALIDATORS_MOD, "apischema.graphql.resolvers", "apischema.deserialization.coercion"):
            for f in model.funcs_in_module(modname):
                if f.qualname not in seen:
                    fns.append(f)
                    seen.add(f.qualname)
    return fns


def stmt_parent_map(fn):
    par = {}
    for p in ast.walk(fn):
        for c in ast.iter_child_nodes(p):
            par[c] = p
    return par


def enclosing_stmt(par, node):
    while node is not None and not isinstance(node, ast.stmt):
        node = par.get(node)
    return node


def pending_rule(ctx, rule, fi, accs, cfg=None):
    """R3 for one function: no path from a pending accumulator to a return /
    construct() that avoids a raising consumer."""
    fn = fi.node
    if accs:
        if cfg is None:
            cfg = CFG(fn, exc_edges=True)
        for acc in sorted(accs):
            pend_nodes = []
            for nd in cfg.nodes:
                a = nd.ast
                if nd.kind != "stmt" or not isinstance(a, (ast.Assign, ast.AnnAssign)):
                    continue
                tg = a.targets[0] if isinstance(a, ast.Assign) else a.target
                if isinstance(tg, ast.Name) and tg.id == acc and a.value is not None:
                    v = a.value
                    empty = (isinstance(v, ast.Constant) and v.value is None) or (isinstance(v, (ast.Dict, ast.List)) and not getattr(v, "keys", getattr(v, "elts", None)))
                    if not empty:
                        pend_nodes.append(nd)
            if not pend_nodes:
                continue

            def consumer(nd, acc=acc):
                a = nd.ast
                if a is None or nd.kind not in ("stmt",):
                    return False
                for x in ast.walk(a):
                    if isinstance(x, ast.Call) and (dotted(x.func) or "").endswith("validate_constraints") and len(x.args) >= 3 and acc in names_in(x.args[2]):
                        return True
                    if isinstance(a, ast.Raise) and acc in names_in(a):
                        return True
                return False

            def bad_target(nd):
                a = nd.ast
                if nd.kind == "stmt" and isinstance(a, ast.Return):
                    return True
                if nd.kind == "stmt" and a is not None and not isinstance(a, ast.Raise):
                    for x in ast.walk(a):
                        if isinstance(x, ast.Call) and isinstance(x.func, ast.Attribute) and x.func.attr == "construct":
                            return True
                return False

            def pending_value(t, acc=acc):
                """truth value of a test while `acc` is pending (non-empty), None if unknown"""
                if isinstance(t, ast.Name) and t.id == acc:
                    return True
                if isinstance(t, ast.Compare) and len(t.ops) == 1 and isinstance(t.left, ast.Name) and t.left.id == acc and isinstance(t.comparators[0], ast.Constant) and t.comparators[0].value is None:
                    if isinstance(t.ops[0], ast.IsNot):
                        return True
                    if isinstance(t.ops[0], ast.Is):
                        return False
                if isinstance(t, ast.UnaryOp) and isinstance(t.op, ast.Not):
                    v = pending_value(t.operand)
                    return None if v is None else (not v)
                if isinstance(t, ast.BoolOp):
                    vals = [pending_value(v) for v in t.values]
                    if isinstance(t.op, ast.Or):
                        if any(v is True for v in vals):
                            return True
                        if all(v is False for v in vals):
                            return False
                    else:
                        if any(v is False for v in vals):
                            return False
                        if all(v is True for v in vals):
                            return True
                return None

            def infeasible(nd, lab):
                if nd.kind != "test":
                    return False
                v = pending_value(nd.ast)
                return (v is True and lab == "false") or (v is False and lab == "true")

            for pn in pend_nodes:
                construct = f"{fi.qualname}:{acc}"
                prev = {pn: None}
                queue = [pn]
                bad = None
                while queue and bad is None:
                    cur = queue.pop(0)
                    for s, lab in cur.succs:
                        if lab == "exc" and cur is not pn:
                            # an exception leaving here is not a normal exit; handlers of the
                            # same function are still explored (they may return)
                            if s.kind != "handler":
                                continue
                        if lab == "exc" and cur is pn:
                            continue
                        if infeasible(cur, lab):
                            continue
                        if s in prev:
                            continue
                        prev[s] = cur
                        if consumer(s):
                            continue
                        # re-assignment to a non-pending value kills the state
                        if bad_target(s):
                            chain, x = [], s
                            while x is not None:
                                chain.append(x)
                                x = prev[x]
                            bad = list(reversed(chain))
                            break
                        queue.append(s)
                ctx.check(bad is None, rule, construct, pn.ast,
                          f"after `{short(pn.ast, 70)}` a path reaches a return / construct() while `{acc}` holds errors, without validate_constraints(..., {acc}) or `if {acc}: raise`",
                          fi, pn.ast, path=describe_path(bad, 12) if bad else None, detail="every path passes a raising consumer")



def check(ctx):
    model = ctx.model
    ctx.explanations.append(
        "C02: accumulator typestate on each node method's CFG. Decided: results of the accumulation helpers are bound (R1), "
        "no `except ValidationError` swallows the child error outside the documented opt-outs (R2), no path from a pending "
        "accumulator reaches a return / construct() without a raising consumer (R3), error keys are the loop's key / index "
        "or `.alias` (R4), no set-ordered sequence feeds messages (R5), the unexpected-key shortcut cannot hide sibling "
        "violations (R6). Not decided: that each loc is the path in the datum for composed nodes; exactly-one-entry-per-rule."
    )
    helpers = discover_helpers(model)
    ctx.require({"set_child_error", "extend_errors", "update_children_errors"} <= set(helpers), f"accumulation helpers not found (got {sorted(helpers)})")
    helper_names = set(helpers) | {"merge_errors"}
    fns = scope_functions(ctx)

    ctx.rule("C02.R1", "the result of an accumulation helper is bound to its accumulator (or raised / returned)", floor=18)
    ctx.rule("C02.R2", "`except ValidationError as e`: e reaches an accumulator / merge / raise on every path out of the handler (opt-outs: fall_back_on_default, coercion retry)", floor=14)
    ctx.rule("C02.R3", "no path from a pending accumulator to a return / construct() avoiding a raising consumer", floor=10)
    ctx.rule("C02.R4", "set_child_error keys are the loop's own key / index or a `.alias` attribute", floor=14)
    ctx.rule("C02.R5", "no set-ordered sequence reaches error messages", floor=3)
    ctx.rule("C02.R9", "a raised ValidationError carries the accumulators (`acc or <empty>`); validate_constraints evaluates every constraint once and reports each failing one", floor=8)

    for fi in fns:
        fn = fi.node
        par = stmt_parent_map(fn)
        cfg = None
        calls = [n for n in walk_no_nested(fn, include_lambda=True) if isinstance(n, ast.Call)]
        accs: Set[str] = set()
        # ---------------- R1
        for c in calls:
            name = (dotted(c.func) or "").split(".")[-1]
            if name not in helper_names or not c.args:
                continue
            st = enclosing_stmt(par, c)
            a0 = c.args[0]
            construct = f"{fi.qualname}:{name}({norm(a0)})"
            if name != "merge_errors" and isinstance(a0, ast.Name):
                accs.add(a0.id)
            if isinstance(st, ast.Expr) and st.value is c:
                ctx.fail("C02.R1", construct, st,
                         f"result of {name}(...) is discarded: when `{norm(a0)}` is None the helper returns a fresh container, so the error is lost",
                         fi.module.relpath, st.lineno)
                continue
            ok = True
            why = ""
            if isinstance(st, (ast.Assign, ast.AnnAssign)) and name != "merge_errors" and isinstance(a0, ast.Name):
                tg = st.targets[0] if isinstance(st, ast.Assign) else st.target
                if not (isinstance(tg, ast.Name) and tg.id == a0.id):
                    # allowed: nested inside another helper / raise expression
                    direct = st.value is c
                    if direct:
                        ok = False
                        why = f"result of {name}({a0.id}, ...) bound to `{norm(tg)}`, not to `{a0.id}`: `{a0.id}` stays None on the first error"
            ctx.check(ok, "C02.R1", construct, st, why or "bound", fi, st, detail=short(st, 100))

        # ---------------- R2
        for n in walk_no_nested(fn):
            if not isinstance(n, ast.Try):
                continue
            for h in n.handlers:
                if not is_ve(model, fi, h.type):
                    continue
                construct = f"{fi.qualname}:except@{short(n.body[0], 50)}"
                if h.name is None:
                    # no binding: the error cannot be recorded at all
                    only_pass = all(isinstance(s, (ast.Pass, ast.Continue)) for s in h.body)
                    # coercion retry: the try body applies the coercer (whose refusal is a ValidationError) and no child method
                    child_calls = [c_ for s_ in n.body for c_ in ast.walk(s_) if isinstance(c_, ast.Call) and isinstance(c_.func, ast.Attribute) and c_.func.attr == "deserialize"]
                    coercer_calls = [c_ for s_ in n.body for c_ in ast.walk(s_) if isinstance(c_, ast.Call) and norm(c_.func) == "self.coercer"]
                    if only_pass and coercer_calls and not child_calls:
                        ctx.ok("C02.R2", construct, "coercion retry: the refusal of the coercer for one target type is not a violation of the datum (documented opt-out)", where=f"{fi.module.relpath}:{h.lineno}")
                        continue
                    ctx.check(not only_pass, "C02.R2", construct, h, "ValidationError caught without a name and dropped", fi, h)
                    continue
                if cfg is None:
                    cfg = CFG(fn, exc_edges=True)
                hn = cfg.stmt_node.get(h)
                if hn is None:
                    raise AnalysisError(f"handler not in CFG: {fi.qualname}")
                ename = h.name
                handler_stmts = set()
                for s in h.body:
                    for x in ast.walk(s):
                        handler_stmts.add(id(x))

                def uses(nd, ename=ename):
                    a = nd.ast
                    if a is None:
                        return False
                    roots = [a] if nd.kind not in ("iter",) else [a.iter]
                    if nd.kind == "handler":
                        return False
                    for r in roots:
                        for x in ast.walk(r):
                            if isinstance(x, ast.Name) and x.id == ename and isinstance(x.ctx, ast.Load):
                                return True
                    return False

                def in_handler(nd):
                    return nd.ast is not None and id(nd.ast) in handler_stmts

                # search a path from handler entry that leaves the handler body without using e
                bad = None
                seen = {hn: None}
                queue = [hn]
                optout = None
                while queue and bad is None:
                    cur = queue.pop(0)
                    for s, lab in cur.succs:
                        if lab == "exc":
                            continue
                        if s in seen:
                            continue
                        seen[s] = cur
                        if in_handler(s):
                            if uses(s) and s.kind != "test":
                                continue  # consumed on this path
                            if s.kind == "test" and uses(s):
                                continue
                            queue.append(s)
                        else:
                            # left the handler without using e: allowed only through an opt-out test
                            chain, x = [], cur
                            while x is not None:
                                chain.append(x)
                                x = seen[x]
                            tests = [c for c in chain if c.kind == "test"]
                            if any("fall_back_on_default" in norm(t.ast) or "coercer" in norm(t.ast) for t in tests):
                                optout = "opt-out"
                                continue
                            bad = list(reversed(chain)) + [s]
                            break
                ctx.check(bad is None, "C02.R2", construct, h.body[0],
                          f"a path leaves `except ValidationError as {ename}` without `{ename}` reaching an accumulator, merge_errors or raise: the child's error is swallowed",
                          fi, h, path=describe_path(bad) if bad else None, detail=("recorded on all paths" + (" (opt-out branch present)" if optout else "")))

        # ---------------- R3
        pending_rule(ctx, "C02.R3", fi, accs, cfg)

        # ---------------- R9: what a raised error carries
        for c in calls:
            if not (dotted(c.func) or "").endswith("ValidationError"):
                continue
            for a in c.args:
                if not isinstance(a, ast.BoolOp):
                    continue
                nm = [v for v in a.values if isinstance(v, ast.Name)]
                if not nm:
                    continue
                first = a.values[0]
                rest_empty = all((isinstance(v, (ast.List, ast.Dict, ast.Tuple)) and not (getattr(v, "elts", None) or getattr(v, "keys", None))) for v in a.values[1:])
                ok = isinstance(a.op, ast.Or) and isinstance(first, ast.Name) and rest_empty
                ctx.check(ok, "C02.R9", f"{fi.qualname}:carry:{norm(nm[0])}", c,
                          f"`{short(a, 50)}` passed to ValidationError: the accumulated `{nm[0].id}` must be carried as `{nm[0].id} or <empty>`; this form drops it when it is non-empty", fi, c, detail=f"`{norm(a)}`")

        # ---------------- R4
        keyed = [(c, c.args[1]) for c in calls if (dotted(c.func) or "").split(".")[-1] == "set_child_error" and len(c.args) >= 2]
        # a direct store `errors[key] = <error>` (the dict is known to exist) locates an error like set_child_error does
        handler_names = {h.name for h in ast.walk(fn) if isinstance(h, ast.ExceptHandler) and h.name}
        for a in (walk_no_nested(fn) if fi.module.name == DESER_MOD else ()):
            if isinstance(a, ast.Assign) and len(a.targets) == 1 and isinstance(a.targets[0], ast.Subscript) and isinstance(a.targets[0].value, ast.Name) \
                    and ((isinstance(a.value, ast.Name) and a.value.id in handler_names) or (isinstance(a.value, ast.Call) and (dotted(a.value.func) or "").split(".")[-1] == "ValidationError")):
                keyed.append((a, a.targets[0].slice))
        for c, key in keyed:
            construct = f"{fi.qualname}:key({norm(key)})"
            loop_keys = set()
            p = par.get(c)
            while p is not None and p is not fn:
                if isinstance(p, (ast.For, ast.AsyncFor)):
                    t = p.target
                    it = p.iter
                    itn = dotted(it.func) if isinstance(it, ast.Call) else None
                    if isinstance(t, ast.Tuple) and t.elts and isinstance(t.elts[0], ast.Name) and (itn == "enumerate" or (itn or "").endswith(".items")):
                        loop_keys.add(t.elts[0].id)
                    elif isinstance(t, ast.Name) and not (itn == "enumerate"):
                        loop_keys.add(t.id)
                p = par.get(p)
            if isinstance(key, ast.Name):
                ok = key.id in loop_keys
                msg = f"key `{key.id}` is not the key / index variable of an enclosing loop ({sorted(loop_keys)})"
            elif isinstance(key, ast.Attribute):
                ok = key.attr == "alias"
                msg = f"key `{norm(key)}`: errors must be located at the external name (`.alias`), not `.{key.attr}`"
            else:
                ok = False
                msg = f"key `{norm(key)}` is neither a loop key nor a `.alias` attribute"
            ctx.check(ok, "C02.R4", construct, enclosing_stmt(par, c), msg, fi, c, detail="loop key / alias")

    # ---------------- R3b: validate_constraints raises when children errors are given
    vc = model.func(f"{DESER_MOD}.validate_constraints")
    ctx.require(len(vc.params) >= 3, "validate_constraints signature changed")
    p2 = vc.params[2]
    cfg = CFG(vc.node, exc_edges=False)

    def vc_false_blocked(nd, lab):
        t = nd.ast
        return nd.kind == "test" and isinstance(t, ast.Name) and t.id == p2 and lab == "false"
    prev = {cfg.entry: None}
    queue = [cfg.entry]
    bad = None
    while queue and bad is None:
        cur = queue.pop(0)
        for s, lab in cur.succs:
            if vc_false_blocked(cur, lab) or s in prev:
                continue
            prev[s] = cur
            if s.kind == "stmt" and isinstance(s.ast, ast.Return):
                chain, x = [], s
                while x is not None:
                    chain.append(x)
                    x = prev[x]
                bad = list(reversed(chain))
                break
            queue.append(s)
    ctx.check(bad is None, "C02.R3", f"{vc.qualname}:{p2}", vc.node.body[-1],
              f"validate_constraints can return normally while `{p2}` holds children errors", vc, vc.node, path=describe_path(bad) if bad else None)
    for n in walk_no_nested(vc.node):
        if isinstance(n, ast.Raise):
            ctx.check(p2 in names_in(n), "C02.R3", f"{vc.qualname}:raise", n,
                      "a constraint failure is raised without the pending children errors: sibling violations are hidden", vc, n)

    constraints_loop_rule(ctx, vc)
    # ---------------- R11: handlers of other exception classes never swallow
    ctx.rule("C02.R11", "in a node method, a handler of TypeError / KeyError / ValueError / OverflowError raises a ValidationError, records one, or falls through to the function's final raise: it never lets the element be dropped silently", floor=8)
    from ..visitors import _always_exits
    for fi in own_methods(deser_nodes(model)):
        fn = fi.node
        par = stmt_parent_map(fn)
        for n in walk_no_nested(fn):
            if not isinstance(n, ast.Try):
                continue
            for h in n.handlers:
                if h.type is None or is_ve(model, fi, h.type):
                    continue
                names = norm(h.type)
                construct = f"{fi.qualname}:except {names}@{short(n.body[0], 40)}"
                raises = _always_exits(h.body) and (isinstance(h.body[-1], ast.Raise) or not any(isinstance(x, ast.Return) for s_ in h.body for x in ast.walk(s_)))
                records = any(
                    (isinstance(x, ast.Assign) and isinstance(x.value, ast.Call) and (dotted(x.value.func) or "").split(".")[-1] in (helper_names | {"merge_errors"}))
                    or (isinstance(x, ast.Assign) and isinstance(x.targets[0], ast.Subscript) and isinstance(x.value, ast.Call) and (dotted(x.value.func) or "").endswith("ValidationError"))
                    for s_ in h.body for x in ast.walk(s_))
                falls_to_raise = all(isinstance(s_, (ast.Pass, ast.Continue)) for s_ in h.body) and _ends_with_raise(fn, n, par)
                ctx.check(raises or records or falls_to_raise, "C02.R11", construct, h.body[0],
                          f"`except {names}` neither raises nor records an error: the offending element is silently dropped and the node returns a value for non-conforming data", fi, h, detail="raise / record / fall through to the final raise")
    # ---------------- R12: one try per child
    ctx.rule("C02.R12", "two children applied to different parts of one item are not guarded by a single try: when the first one fails the second is not evaluated and its violation is not reported", floor=10)
    from .c08 import eval_order
    for fi in own_methods(deser_nodes(model)):
        for t_ in walk_no_nested(fi.node):
            if not isinstance(t_, ast.Try) or not any(is_ve(model, fi, h.type) for h in t_.handlers):
                continue
            class _B:  # statement list wrapper for eval_order
                body = t_.body
            kids = eval_order(_B)
            construct = f"{fi.qualname}:try({','.join(kids) or '-'})"
            ctx.check(len(set(kids)) <= 1, "C02.R12", construct, None,
                      f"the try block invokes {kids} under one `except ValidationError`: for an item whose key and value are both invalid only the first violation is reported (the other one appears once the first is fixed)", fi, t_, detail=f"children: {kids or 'none / loop-selected'}")
    # ---------------- R13: a caught child error is not displaced by another raising call
    ctx.rule("C02.R13", "inside `except ValidationError as err`, a call that can itself raise ValidationError (the coercer, a child) is guarded by its own try: otherwise its error propagates *instead of* `err` and the violations already collected are lost", floor=1)
    n13 = 0
    for fi in own_methods(deser_nodes(model)):
        for t_ in walk_no_nested(fi.node):
            if not isinstance(t_, ast.Try):
                continue
            for h in t_.handlers:
                if h.type is None or not is_ve(model, fi, h.type) or h.name is None:
                    continue
                uses_err = any(isinstance(x, ast.Name) and x.id == h.name for s_ in h.body for x in ast.walk(s_))
                if not uses_err:
                    continue
                hpar = {c_: p_ for s_ in h.body for p_ in ast.walk(s_) for c_ in ast.iter_child_nodes(p_)}
                for s_ in h.body:
                    for c in ast.walk(s_):
                        if not (isinstance(c, ast.Call) and (norm(c.func) == "self.coercer" or (isinstance(c.func, ast.Attribute) and c.func.attr == "deserialize"))):
                            continue
                        n13 += 1
                        p_ = hpar.get(c)
                        guarded = False
                        while p_ is not None:
                            if isinstance(p_, ast.Try) and any(x is c for b in p_.body for x in ast.walk(b)) and any(hh.type is None or is_ve(model, fi, hh.type) for hh in p_.handlers):
                                guarded = True
                                break
                            p_ = hpar.get(p_)
                        ctx.check(guarded, "C02.R13", f"{fi.qualname}:except {norm(h.type)}:{norm(c.func)}", None,
                                  f"`{short(c, 50)}` is called while `{h.name}` (the errors of the value) is pending and can raise a ValidationError of its own (a datum the coercer refuses): that error is raised instead, e.g. deserialize(Optional[List[int]], [1, 'a'], coerce=True) reports only 'expected type null' and not the error at [1]",
                                  fi, c, detail="own try / except ValidationError around the call")
    ctx.require(n13 >= 1, "no raising call inside an `except ValidationError as err` handler found (OptionalMethod changed?)")

    # ---------------- R10: order of the flattened errors
    ctx.rule("C02.R10", "ValidationError.errors lists children in natural key order (indices numerically); the stringifying sort key is only the fallback for incomparable keys", floor=2)
    em = model.func(f"{ERRORS_MOD}.ValidationError._errors")
    epar = stmt_parent_map(em.node)
    sorts = [c for c in ast.walk(em.node) if isinstance(c, ast.Call) and dotted(c.func) == "sorted" and c.args and "children" in norm(c.args[0])]
    natural = [c for c in sorts if not c.keywords]
    ctx.check(bool(natural), "C02.R10", f"{em.qualname}:natural", em.node.body[0],
              "children keys are never sorted in their natural order: indices are reported in dict / string order (10 before 2)", em, em.node, detail="sorted(self.children)")
    for c in sorts:
        if not c.keywords:
            continue
        h = c
        while h is not None and not isinstance(h, ast.ExceptHandler):
            h = epar.get(h)
        ok = False
        if h is not None and h.type is not None and "TypeError" in norm(h.type):
            tr = epar.get(h)
            ok = isinstance(tr, ast.Try) and any(n_ in natural for s_ in tr.body for n_ in ast.walk(s_))
        ctx.check(ok, "C02.R10", f"{em.qualname}:keyed-sort", c,
                  f"`{short(c, 60)}`: a sort key is applied to the children keys outside the `except TypeError` fallback of the natural sort: integer indices are then ordered as strings", em, c, detail="only as the fallback of sorted(self.children)")
    # ---------------- R5: set order
    r5(ctx)
    # ---------------- R6
    check_counters(ctx, "C02.R6")
    ctx.rule("C02.R7", "object nodes keep a failed field's error exactly when the field is required or does not fall back on its default (aggregate fields: both messages and children)", floor=10)
    object_protocol_rule(ctx, "C02.R7", ["child"])
    # ---------------- R8: contract of the accumulation helpers
    ctx.rule("C02.R8", "accumulation helpers: a fresh container only when the accumulator is None, otherwise the accumulator after storing every item; no path drops the item", floor=6)
    helper_contract(ctx, [helpers[n] for n in ("set_child_error", "extend_errors", "update_children_errors")])


    # ---------------- R14: the mock on which the remaining validators run when a sibling field is invalid
    ctx.rule("C02.R14", "when a field is invalid the validators whose own fields are valid still run, on a mock of the object: the mock returns every deserialized value as it is (None included), so that their violations are reported next to the field's one", floor=1)
    from .c10 import mock_presence_rule
    mock_presence_rule(ctx, "C02.R14")

def _is_set_expr(e) -> bool:
    if isinstance(e, (ast.Set, ast.SetComp)):
        return True
    if isinstance(e, ast.Call):
        n = dotted(e.func) or ""
        if n in ("set", "frozenset"):
            return True
        if n in ("tuple", "list", "iter", "map", "filter") and e.args:
            return any(_is_set_expr(a) for a in e.args)
    if isinstance(e, ast.BinOp) and isinstance(e.op, (ast.BitAnd, ast.BitOr, ast.Sub, ast.BitXor)):
        def keysish(x):
            return (isinstance(x, ast.Call) and isinstance(x.func, ast.Attribute) and x.func.attr == "keys") or _is_set_expr(x) or (
                isinstance(x, ast.Attribute) and x.attr in ("required_by", "all_aliases", "post_init_modified", "dependencies"))
        return keysish(e.left) or keysish(e.right)
    return False


def r5(ctx):
    model = ctx.model
    nodes = deser_nodes(model)
    # (1) attributes of node classes that are splatted / iterated into messages
    msg_attrs = {}
    for cls, m in nodes:
        for n in walk_no_nested(m.node):
            if isinstance(n, ast.Call) and (dotted(n.func) or "").split(".")[-1] in ("bad_type", "ValidationError", "format_error"):
                for a in n.args:
                    inner = a.value if isinstance(a, ast.Starred) else a
                    if isinstance(inner, ast.Attribute) and isinstance(inner.value, ast.Name) and inner.value.id == "self" and isinstance(a, ast.Starred):
                        msg_attrs.setdefault(m.cls.qualname, set()).add(inner.attr)
    # (2) the constructor argument feeding such an attribute must not be set-ordered
    dm = model.mod("apischema.deserialization")
    for clsq, attrs in sorted(msg_attrs.items()):
        cls = model.classes[clsq]
        order = [f for f in cls.field_order if f in cls.annotations]
        for fi in model.funcs_in_module("apischema.deserialization"):
            for c in model.calls_in(fi):
                if model.resolve_dotted(fi.module, dotted(c.func) or "") != clsq:
                    continue
                for attr in attrs:
                    arg = None
                    if attr in order and order.index(attr) < len(c.args):
                        arg = c.args[order.index(attr)]
                    for kw in c.keywords:
                        if kw.arg == attr:
                            arg = kw.value
                    if arg is None:
                        continue
                    construct = f"{clsq.split('.')[-1]}.{attr}"
                    if isinstance(arg, ast.Dict) or (isinstance(arg, ast.Name)):
                        ctx.ok("C02.R5", construct, f"built from `{short(arg, 50)}` (insertion-ordered)", where=fi.loc)
                        continue
                    setty = _is_set_expr(arg) and not (isinstance(arg, ast.Call) and dotted(arg.func) == "sorted")
                    ctx.check(not setty, "C02.R5", construct, arg,
                              f"`{norm(arg)}` is ordered by set iteration (hash of type objects = their address) and is splatted into error messages by {clsq.split('.')[-1]}: message order changes between runs",
                              fi, c, detail=f"`{short(arg, 60)}` is not set-ordered")
    # (3) inside node methods: set expressions formatted into messages must be sorted
    for m in own_methods(nodes):
        for n in walk_no_nested(m.node):
            if isinstance(n, ast.Assign) and _is_set_expr(n.value) and isinstance(n.targets[0], ast.Name):
                var = n.targets[0].id
                for x in walk_no_nested(m.node):
                    if isinstance(x, ast.JoinedStr) and var in names_in(x):
                        ctx.fail("C02.R5", f"{m.qualname}:{var}", n, f"set-valued `{var}` formatted into an error message without sorted()", m.module.relpath, n.lineno)
            if isinstance(n, ast.Assign) and isinstance(n.value, ast.Call) and dotted(n.value.func) == "sorted" and n.value.args and _is_set_expr(n.value.args[0]):
                ctx.ok("C02.R5", f"{m.qualname}:{norm(n.targets[0])}", "sorted(set expression) before formatting", where=m.loc)
    # (4) children are emitted in sorted key order
    ve = model.cls("apischema.validation.errors.ValidationError")
    er = ve.methods.get("_errors")
    ctx.require(er is not None, "ValidationError._errors vanished")
    loops = [n for n in walk_no_nested(er.node) if isinstance(n, ast.For)]
    child_loops = [l for l in loops if "children" in norm(l.iter) or any(isinstance(a, ast.Assign) and isinstance(a.value, ast.Call) and dotted(a.value.func) == "sorted" and isinstance(a.targets[0], ast.Name) and a.targets[0].id == (l.iter.id if isinstance(l.iter, ast.Name) else None) for a in ast.walk(er.node))]
    ok = False
    for l in child_loops:
        it = l.iter
        if isinstance(it, ast.Call) and dotted(it.func) == "sorted":
            ok = True
        elif isinstance(it, ast.Name):
            assigns = [a for a in ast.walk(er.node) if isinstance(a, ast.Assign) and isinstance(a.targets[0], ast.Name) and a.targets[0].id == it.id]
            ok = bool(assigns) and all(isinstance(a.value, ast.Call) and dotted(a.value.func) == "sorted" for a in assigns)
    ctx.check(ok, "C02.R5", f"{er.qualname}", er.node.body[-1], "children errors are not iterated in sorted key order", er, er.node, detail="children iterated through sorted(...)")


def fixtures(ctx):
    src = '''
def deserialize(self, data):
    errs = None
    for i, x in enumerate(data):
        try:
            self.m.deserialize(x)
        except ValidationError as err:
            set_child_error(errs, i, err)
    validate_constraints(data, self.constraints, errs)
    return data
'''
    fn = ast.parse(src).body[0]
    dropped = [n for n in ast.walk(fn) if isinstance(n, ast.Expr) and isinstance(n.value, ast.Call) and dotted(n.value.func) == "set_child_error"]
    if len(dropped) != 1:
        raise AnalysisError("C02 positive fixture: discarded-result pattern not recognised")


def mutants(mb):
    mb.add_text("mock-none-is-absent", "apischema/validation/mock.py", "        if name in values:\n            return values[name]\n", "        value = values.get(name)\n        if value is not None:\n            return value\n", "C02.R14", "presence")
    mb.add_text("optional-coercer-unguarded", "apischema/deserialization/methods.py", "            if self.coercer is not None:\n                try:\n                    if self.coercer(NoneType, data) is None:\n                        return None\n                except ValidationError:\n                    pass  # not coercible to None: the errors of the value are reported\n            raise merge_errors(err, bad_type(data, NoneType))\n",
                "            if self.coercer is not None and self.coercer(NoneType, data) is None:\n                return None\n            raise merge_errors(err, bad_type(data, NoneType))\n", "C02.R13", "OptionalMethod")
    P = "apischema/deserialization/methods.py"
    # R1: drop the assignment at several sites
    mb.add_text("tuple-drop-assign", P, "                elt_errors = set_child_error(elt_errors, i, err)\n        validate_constraints(data, self.constraints, elt_errors)\n        return tuple(elts)",
                "                set_child_error(elt_errors, i, err)\n        validate_constraints(data, self.constraints, elt_errors)\n        return tuple(elts)", "C02.R1", "TupleMethod")
    mb.add_text("mapping-drop-assign", P, "                item_errors = set_child_error(item_errors, key, err)\n        validate_constraints(data, self.constraints, item_errors)\n        return items",
                "                set_child_error(item_errors, key, err)\n        validate_constraints(data, self.constraints, item_errors)\n        return items", "C02.R1", "MappingMethod")
    mb.add_text("object-extend-drop", P, "                    if not pattern_field.fall_back_on_default:\n                        errors = extend_errors(errors, err.messages)", "                    if not pattern_field.fall_back_on_default:\n                        extend_errors(errors, err.messages)", "C02.R1", "ObjectMethod")
    mb.add_text("union-merge-drop", P, "            except ValidationError as err:\n                error = merge_errors(error, err)\n        assert error is not None\n        raise error\n\n\n@dataclass\nclass ConversionMethod",
                "            except ValidationError as err:\n                merge_errors(error, err)\n        assert error is not None\n        raise error\n\n\n@dataclass\nclass ConversionMethod", "C02.R1", "UnionMethod")
    # R2: swallow
    mb.add_text("list-swallow", P, "            except ValidationError as err:\n                elt_errors = set_child_error(elt_errors, i, err)\n        validate_constraints(data, self.constraints, elt_errors)\n        return values\n\n\n@dataclass\nclass SetMethod",
                "            except ValidationError as err:\n                pass\n        validate_constraints(data, self.constraints, elt_errors)\n        return values\n\n\n@dataclass\nclass SetMethod", "C02.R2", "ListMethod")
    mb.add_text("object-swallow-optional", P, "                except ValidationError as err:\n                    if field.required or not field.fall_back_on_default:\n                        field_errors = set_child_error(field_errors, field.alias, err)\n            elif field.required:\n                field_errors = set_child_error(\n                    field_errors, field.alias, ValidationError(self.missing)\n                )\n            elif field.required_by",
                "                except ValidationError as err:\n                    if field.required:\n                        field_errors = set_child_error(field_errors, field.alias, err)\n            elif field.required:\n                field_errors = set_child_error(\n                    field_errors, field.alias, ValidationError(self.missing)\n                )\n            elif field.required_by", "C02.R2", "ObjectMethod")
    # R3: remove consumer
    mb.add_text("list-no-consumer", P, "        validate_constraints(data, self.constraints, elt_errors)\n        return values\n\n\n@dataclass\nclass SetMethod", "        validate_constraints(data, self.constraints, None)\n        return values\n\n\n@dataclass\nclass SetMethod", "C02.R3", "ListMethod")
    mb.add_text("simpleobject-no-raise", P, "        if field_errors:\n            raise ValidationError([], field_errors)\n        if has_discriminator:", "        if has_discriminator:", "C02.R3", "SimpleObjectMethod")
    mb.add_text("object-construct-before-check", P, "        elif field_errors or errors:\n            raise ValidationError(errors or [], field_errors or {})\n        return self.constructor.construct(values)", "        elif errors:\n            raise ValidationError(errors or [], field_errors or {})\n        return self.constructor.construct(values)", "C02.R3", "ObjectMethod")
    mb.add_text("vc-drops-children", P, "            raise ValidationError(errors, children_errors or {})", "            raise ValidationError(errors)", "C02.R3", "validate_constraints")
    mb.add_text("vc-no-children-raise", P, "    if children_errors:\n        raise ValidationError([], children_errors)\n    return data", "    return data", "C02.R3", "validate_constraints")
    # R4: keys
    mb.add_text("key-name-not-alias", P, "                        field_errors = set_child_error(field_errors, field.alias, err)\n            elif field.required:\n                field_errors = set_child_error(\n                    field_errors, field.alias, ValidationError(self.missing)\n                )\n            elif field.required_by",
                "                        field_errors = set_child_error(field_errors, field.name, err)\n            elif field.required:\n                field_errors = set_child_error(\n                    field_errors, field.alias, ValidationError(self.missing)\n                )\n            elif field.required_by", "C02.R4", "ObjectMethod")
    mb.add_text("key-const", P, "                elt_errors = set_child_error(elt_errors, i, err)\n        validate_constraints(data, self.constraints, elt_errors)\n        return values\n\n\n@dataclass\nclass SetMethod",
                "                elt_errors = set_child_error(elt_errors, 0, err)\n        validate_constraints(data, self.constraints, elt_errors)\n        return values\n\n\n@dataclass\nclass SetMethod", "C02.R4", "ListMethod")
    mb.add_text("key-elt-not-index", P, "                elt_errors = set_child_error(elt_errors, i, err)\n        validate_constraints(data, self.constraints, elt_errors)\n        return data\n", "                elt_errors = set_child_error(elt_errors, elt, err)\n        validate_constraints(data, self.constraints, elt_errors)\n        return data\n", "C02.R4", "ListCheckOnlyMethod")
    # R5
    mb.add_text("literal-types-set", "apischema/deserialization/__init__.py", "tuple(dict.fromkeys(map(type, keys)))", "tuple(set(map(type, value_map)))", "C02.R5", "LiteralMethod.types")
    mb.add_text("requiring-unsorted", P, "                requiring = sorted(field.required_by & data.keys())", "                requiring = field.required_by & data.keys()", "C02.R5", "ObjectMethod")
    mb.add_text("errors-unsorted", "apischema/validation/errors.py", "            child_keys = sorted(self.children)\n", "            child_keys = list(self.children)\n", "C02.R5", "_errors")
    counter_mutants(mb, "C02.R6")
    mb.add_text("optout-and", P, "                    if field.required or not field.fall_back_on_default:\n                        field_errors = set_child_error(field_errors, field.alias, err)\n            elif field.required:\n                field_errors = set_child_error(\n                    field_errors, field.alias, ValidationError(self.missing)\n                )\n            elif field.required_by", "                    if field.required and not field.fall_back_on_default:\n                        field_errors = set_child_error(field_errors, field.alias, err)\n            elif field.required:\n                field_errors = set_child_error(\n                    field_errors, field.alias, ValidationError(self.missing)\n                )\n            elif field.required_by", "C02.R7", "ObjectMethod:child")
    mb.add_text("helper-store-dropped", P, "        errors[key] = error\n        return errors", "        return errors", "C02.R8", "set_child_error:return-acc")
    mb.add_text("helper-none-test-flipped", P, "    if errors is None:\n        return list(messages)\n    else:\n        errors.extend(messages)\n        return errors", "    if errors is not None:\n        return list(messages)\n    else:\n        errors.extend(messages)\n        return errors", "C02.R8", "extend_errors")
    mb.add_text("helper-fresh-ignores-item", P, "        return dict(children)", "        return {}", "C02.R8", "update_children_errors:return-fresh")
    mb.add_text("helper-no-return", P, "        errors.update(children)\n        return errors", "        errors.update(children)", "C02.R8", "update_children_errors:total")
    mb.add_text("neg-helper-guard-form", P, "    if errors is None:\n        return {key: error}\n    else:\n        errors[key] = error\n        return errors", "    if errors is not None:\n        errors[key] = error\n        return errors\n    return {key: error}", negative=True)
    mb.add_text("vc-stale-constraint", P, "                constraint = constraints[j]\n", "", "C02.R9", "validate@inner")
    mb.add_text("vc-inner-negated", P, "                if not constraint.validate(data):\n                    errors.append(", "                if constraint.validate(data):\n                    errors.append(", "C02.R9", "format#1")
    mb.add_text("vc-inner-from-i", P, "            for j in range(i + 1, len(constraints)):", "            for j in range(i, len(constraints)):", "C02.R9", "range:inner")
    mb.add_text("vc-message-deleted", P, "                    errors.append(format_error(constraint.error, data))", "                    pass", "C02.R9", "validate@inner:message")
    mb.add_text("vc-message-dropped", P, "                    errors.append(format_error(constraint.error, data))", "                    format_error(constraint.error, data)", "C02.R9", "format-kept#1")
    mb.add_text("carry-and", P, "            raise ValidationError(errors, children_errors or {})", "            raise ValidationError(errors, children_errors and {})", "C02.R9", "carry:children_errors")
    mb.add_text("carry-and-object", P, "        elif field_errors or errors:\n            raise ValidationError(errors or [], field_errors or {})", "        elif field_errors or errors:\n            raise ValidationError(errors and [], field_errors or {})", "C02.R9", "carry:errors")
    mb.add_text("neg-vc-simple-loop", P, "    for i in range(len(constraints)):\n        constraint: Constraint = constraints[i]\n        if not constraint.validate(data):\n            errors: List[str] = [format_error(constraint.error, data)]\n            for j in range(i + 1, len(constraints)):\n                constraint = constraints[j]\n                if not constraint.validate(data):\n                    errors.append(format_error(constraint.error, data))\n            raise ValidationError(errors, children_errors or {})\n",
                "    errors: List[str] = []\n    for constraint in constraints:\n        if not constraint.validate(data):\n            errors.append(format_error(constraint.error, data))\n    if errors:\n        raise ValidationError(errors, children_errors or {})\n", negative=True)
    mb.add_text("errors-always-keyed-sort", "apischema/validation/errors.py", "        try:\n            child_keys = sorted(self.children)\n        except TypeError:  # keys of different types, e.g. str and int\n            child_keys = sorted(\n                self.children, key=lambda key: (key.__class__.__name__, str(key))\n            )\n", "        child_keys = sorted(\n            self.children, key=lambda key: (key.__class__.__name__, str(key))\n        )\n", "C02.R10", "_errors")
    mb.add_text("errors-unsorted", "apischema/validation/errors.py", "        try:\n            child_keys = sorted(self.children)\n        except TypeError:  # keys of different types, e.g. str and int\n            child_keys = sorted(\n                self.children, key=lambda key: (key.__class__.__name__, str(key))\n            )\n", "        child_keys = list(self.children)\n", "C02.R10", "_errors")
    mb.add_text("set-unhashable-swallowed", P, "            except TypeError:\n                elt_errors = set_child_error(\n                    elt_errors, i, ValidationError(\"unhashable set element\")\n                )\n", "            except TypeError:\n                pass\n", "C02.R11", "SetMethod")
    mb.add_text("conversion-union-error-dropped", P, "                error = merge_errors(error, ValidationError(str(err)))\n", "                pass\n", "C02.R11", "ConversionUnionMethod")
    mb.add_text("flattened-fbd-polarity", P, "                    if not flattened_field.fall_back_on_default:", "                    if flattened_field.fall_back_on_default:", "C02.R7", "ObjectMethod:aggregate")
    mb.add_text("pattern-children-dropped", P, "                    if not pattern_field.fall_back_on_default:\n                        errors = extend_errors(errors, err.messages)\n                        field_errors = update_children_errors(\n                            field_errors, err.children\n                        )", "                    if not pattern_field.fall_back_on_default:\n                        errors = extend_errors(errors, err.messages)", "C02.R7", "ObjectMethod:aggregate:halves")
    mb.add_text("optout-polarity", P, "                    if field.required or not field.fall_back_on_default:\n                        field_errors = set_child_error(field_errors, field.alias, err)\n            elif field.required:\n                field_errors = set_child_error(\n                    field_errors, field.alias, ValidationError(self.missing)\n                )\n        has_discriminator", "                    if field.required or field.fall_back_on_default:\n                        field_errors = set_child_error(field_errors, field.alias, err)\n            elif field.required:\n                field_errors = set_child_error(\n                    field_errors, field.alias, ValidationError(self.missing)\n                )\n        has_discriminator", "C02.R7", "SimpleObjectMethod:child")
    # negatives
    mb.add_text("neg-if-else-swap", P, "        if field_errors:\n            raise ValidationError([], field_errors)\n        if has_discriminator:", "        if not field_errors:\n            pass\n        else:\n            raise ValidationError([], field_errors)\n        if has_discriminator:", negative=True)
    mb.add_text("neg-rename-acc", P, "        elt_errors: Optional[ErrorDict] = None\n        values: list = [None] * len(data)\n        for i, elt in enumerate(data):\n            try:\n                values[i] = self.value_method.deserialize(elt)\n            except ValidationError as err:\n                elt_errors = set_child_error(elt_errors, i, err)\n        validate_constraints(data, self.constraints, elt_errors)",
                "        errs: Optional[ErrorDict] = None\n        values: list = [None] * len(data)\n        for idx, elt in enumerate(data):\n            try:\n                values[idx] = self.value_method.deserialize(elt)\n            except ValidationError as exc:\n                errs = set_child_error(errs, idx, exc)\n        validate_constraints(data, self.constraints, errs)", negative=True)
