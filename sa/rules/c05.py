"""C05 - round trip.

Decides only that the two directions are built as mirrors: standard conversions
come in inverse pairs (the deserializer's source is the serializer's target), the
direction-specific visitor hooks differ exactly by the mirror map, and both method
visitors take their fields from the same ObjectVisitor._object list and build the
external key with the same expression. Round-trip equality of values is a relation
over runtime values and is not decided.
"""
import ast
import re
from typing import Dict, List, Optional, Tuple

from ..model import AnalysisError
from ..util import dotted, norm, short, walk_no_nested

STD = "apischema.std_types"
OV = "apischema.objects.visitor"
CV = "apischema.conversions.visitor"

BUILTIN_NORM = {"List": "list", "Sequence": "list", "Deque": "deque", "Dict": "dict", "Set": "set", "Tuple": "tuple", "Collection": "list"}


def tnorm(e) -> str:
    """type expression -> text normalised the way utils.replace_builtins does"""
    t = norm(e)
    for k, v in BUILTIN_NORM.items():
        t = re.sub(rf"\b(typing\.)?{k}\b", v, t)
    return t


def registrations(model, mod, body, ctxname="") -> List[Tuple[str, str, str, str, int]]:
    """(direction, converted type, json-side type, context, line)"""
    out = []
    for st in body:
        if isinstance(st, ast.For):
            out += registrations(model, mod, st.body, ctxname + f"for {norm(st.target)} in ...:")
            continue
        if isinstance(st, ast.If):
            out += registrations(model, mod, st.body, ctxname + f"if {short(st.test, 30)}:")
            out += registrations(model, mod, st.orelse, ctxname + f"if not {short(st.test, 30)}:")
            continue
        if isinstance(st, (ast.FunctionDef,)):
            decos = [dotted(d) for d in st.decorator_list]
            ret = st.returns
            arg0 = st.args.args[0].annotation if st.args.args else None
            if "serializer" in decos and ret is not None and arg0 is not None:
                out.append(("ser", tnorm(arg0), tnorm(ret), ctxname, st.lineno))
            if "deserializer" in decos and ret is not None and arg0 is not None:
                out.append(("deser", tnorm(ret), tnorm(arg0), ctxname, st.lineno))
            continue
        if not (isinstance(st, ast.Expr) and isinstance(st.value, ast.Call)):
            continue
        c = st.value
        fn = dotted(c.func)
        if fn == "as_str" and c.args:
            out.append(("deser", tnorm(c.args[0]), "str", ctxname, st.lineno))
            out.append(("ser", tnorm(c.args[0]), "str", ctxname, st.lineno))
        elif fn in ("deserializer", "serializer") and c.args and isinstance(c.args[0], ast.Call) and dotted(c.args[0].func) == "Conversion":
            kw = {k.arg: k.value for k in c.args[0].keywords}
            if "source" not in kw or "target" not in kw:
                if fn == "serializer" and "source" in kw:
                    # target inferred from the converter (e.g. `str`, `float`, `list`)
                    conv = c.args[0].args[0] if c.args[0].args else None
                    out.append(("ser", tnorm(kw["source"]), tnorm(conv) if conv is not None else "?", ctxname, st.lineno))
                    continue
                raise AnalysisError(f"{mod.relpath}:{st.lineno}: Conversion without explicit source/target cannot be paired statically")
            if fn == "deserializer":
                out.append(("deser", tnorm(kw["target"]), tnorm(kw["source"]), ctxname, st.lineno))
            else:
                out.append(("ser", tnorm(kw["source"]), tnorm(kw["target"]), ctxname, st.lineno))
    return out


def mirror(text: str) -> str:
    swaps = [("READ_ONLY", "WRITE_ONLY"), ("deserialization", "serialization"), ("Deserialization", "Serialization")]
    out = text
    for a, b in swaps:
        out = out.replace(a, "\0").replace(b, a).replace("\0", b)
    return out


def check(ctx):
    model = ctx.model
    ctx.explanations.append(
        "C05: decided - every standard conversion registered in std_types.py / apischema/__init__.py has its inverse: for each "
        "converted type T there is a deserializer S -> T and a serializer T -> S' with S == S' after the container "
        "normalisation the library itself applies (R1); DeserializationObjectVisitor / SerializationObjectVisitor and "
        "DeserializationVisitor / SerializationVisitor differ exactly by the mirror map READ_ONLY<->WRITE_ONLY, "
        "deserialization<->serialization (R2); both method visitors iterate the `fields` they receive from "
        "ObjectVisitor._object and build the external key as self.aliaser(field.alias) (R3). Round-trip *equality* of values "
        "is not decided."
    )
    ctx.rule("C05.R1", "standard conversions come in inverse pairs (deserializer source == serializer target)", floor=8)
    mod = model.mod(STD)
    regs = registrations(model, mod, mod.tree.body)
    ctx.require(len(regs) >= 14, f"only {len(regs)} standard registrations parsed")
    by_key: Dict[Tuple[str, str], Dict[str, List]] = {}
    for d, t, j, cx, line in regs:
        by_key.setdefault((cx, t), {}).setdefault(d, []).append((j, line))
    for (cx, t), dd in sorted(by_key.items()):
        construct = f"{t}" + (f" [{cx}]" if cx else "")
        des, ser = dd.get("deser", []), dd.get("ser", [])
        if not des or not ser:
            have = "deserializer" if des else "serializer"
            line = (des or ser)[0][1]
            ctx.fail("C05.R1", construct, f"{have} of {t}", f"`{t}` has a standard {have} but no {'serializer' if des else 'deserializer'}: values of this type cannot round-trip", mod.relpath, line)
            continue
        ok = des[0][0] == ser[0][0]
        ctx.check(ok, "C05.R1", construct, f"{t}: {des[0][0]} vs {ser[0][0]}",
                  f"`{t}` is deserialized from `{des[0][0]}` but serialized to `{ser[0][0]}`: serialize output is not what deserialize consumes", None, None, detail=f"{des[0][0]} <-> {t}")
        if not ok:
            ctx.findings[-1].file, ctx.findings[-1].line = mod.relpath, des[0][1]
    # ValidationError <-> errors
    init = model.mod("apischema")
    fn = None
    for st in init.tree.body:
        if isinstance(st, ast.FunctionDef) and st.name == "register_default_conversions":
            fn = st
    ctx.require(fn is not None, "register_default_conversions vanished")
    t = norm(fn)
    ve = model.cls("apischema.validation.errors.ValidationError")
    fe, er = ve.methods.get("from_errors"), ve.methods.get("errors")
    ok = "deserializer(ValidationError.from_errors)" in t and "serializer(ValidationError.errors)" in t and fe is not None and er is not None
    if ok:
        src = tnorm(fe.node.args.args[0].annotation)
        tgt = tnorm(er.node.returns)
        ok = src == tgt
    ctx.check(ok, "C05.R1", "ValidationError", fn, "ValidationError.from_errors / .errors are not registered as an inverse pair over the same list type", None, None, detail="list[LocalizedError] <-> ValidationError")

    # ---------------- R2
    ctx.rule("C05.R2", "direction-specific hooks are mirrors of each other", floor=5)
    pairs = [
        (f"{OV}.DeserializationObjectVisitor", f"{OV}.SerializationObjectVisitor", ["_field_conversion", "_skip_field"]),
        (f"{CV}.DeserializationVisitor", f"{CV}.SerializationVisitor", ["_annotated_conversion"]),
    ]
    for dq, sq, names in pairs:
        dc, sc = model.cls(dq), model.cls(sq)
        for nme in names:
            dm, sm = dc.methods.get(nme), sc.methods.get(nme)
            ctx.require(dm is not None and sm is not None, f"{nme} missing in {dq} / {sq}")
            a = mirror(norm(ast.Module(body=dm.node.body, type_ignores=[])))
            b = norm(ast.Module(body=sm.node.body, type_ignores=[]))
            ctx.check(a == b, "C05.R2", f"{dc.name}.{nme}<->{sc.name}.{nme}", sm.node.body[0],
                      f"`{norm(dm.node.body[-1])}` (deserialization) and `{norm(sm.node.body[-1])}` (serialization) are not mirrors: one direction uses the other's metadata", sm, sm.node, detail="mirror images")
    dk, sk = model.cls(pairs[0][0]).attrs.get("_field_kind_filtered"), model.cls(pairs[0][1]).attrs.get("_field_kind_filtered")
    ok = dk is not None and sk is not None and norm(dk) == "FieldKind.READ_ONLY" and norm(sk) == "FieldKind.WRITE_ONLY"
    ctx.check(ok, "C05.R2", "_field_kind_filtered", sk, "deserialization must filter READ_ONLY (init=False) fields and serialization WRITE_ONLY (InitVar) ones", None, None, detail="READ_ONLY <-> WRITE_ONLY")
    dvc = model.cls(f"{CV}.DeserializationVisitor").methods["_visit_conversion"]
    svc = model.cls(f"{CV}.SerializationVisitor").methods["_visit_conversion"]
    ctx.check("conv.source" in norm(dvc.node) and "conversion.target" in norm(svc.node), "C05.R2", "_visit_conversion:direction", svc.node.body[0],
              "deserialization must traverse conv.source and serialization conversion.target", svc, svc.node, detail="source <-> target")

    # ---------------- R3
    ctx.rule("C05.R3", "both method visitors use the field list given by ObjectVisitor._object and the same external-key expression", floor=4)
    for q in ("apischema.deserialization.DeserializationMethodVisitor.object", "apischema.serialization.SerializationMethodVisitor.object"):
        fi = model.func(q)
        loops = []
        nodes = list(ast.walk(fi.node))
        for n in nodes:
            if isinstance(n, (ast.For,)) and norm(n.iter) in ("fields", "zip(fields, field_factories)"):
                loops.append(n)
            if isinstance(n, ast.comprehension) and norm(n.iter) == "fields":
                loops.append(n)
        rebound = any(isinstance(n, ast.Name) and n.id == "fields" and isinstance(n.ctx, ast.Store) for n in nodes)
        ctx.check(bool(loops) and not rebound, "C05.R3", q + ":fields", fi.node.body[0], "object() does not iterate the `fields` it was given (or rebinds it): the two directions could see different field lists", fi, fi.node, detail=f"{len(loops)} iteration(s) over the parameter")
        keyexpr = [norm(c) for c in nodes if isinstance(c, ast.Call) and norm(c.func) == "self.aliaser" and c.args and norm(c.args[0]) == "field.alias"]
        ctx.check(bool(keyexpr), "C05.R3", q + ":key", fi.node.body[0], "external key is not built as self.aliaser(field.alias)", fi, fi.node, detail="self.aliaser(field.alias)")
    # discriminated unions: the key written by serialization is the key read by deserialization
    from ..rules.c11 import bind_args, init_params
    keys = {}
    for q, cname, mod in (("apischema.deserialization.DeserializationMethodVisitor.discriminate", "DiscriminatorMethod", "apischema.deserialization.methods"),
                          ("apischema.serialization.SerializationMethodVisitor.discriminate", "DiscriminatedAlternative", "apischema.serialization.methods")):
        fi = model.func(q)
        calls = [c for c in ast.walk(fi.node) if isinstance(c, ast.Call) and dotted(c.func) == cname]
        ctx.require(calls, f"{cname} construction not found in {q}")
        bound = bind_args(init_params(model, model.cls(f"{mod}.{cname}")), calls[0])
        e = bound.get("alias")
        # follow one local
        if isinstance(e, ast.Name):
            name = e.id
            for n in ast.walk(fi.node):
                if isinstance(n, ast.Assign) and isinstance(n.targets[0], ast.Name) and n.targets[0].id == name:
                    e = n.value
                    break
        keys[q] = norm(e) if e is not None else None
    vals = list(keys.values())
    ctx.check(vals[0] == vals[1] and vals[0] is not None, "C05.R3", "discriminator-key", f"{vals[0]} vs {vals[1]}",
              f"deserialization reads the discriminator under `{vals[0]}` but serialization writes it under `{vals[1]}`: a serialized discriminated value cannot be deserialized back", None, None, detail=f"both `{vals[0]}`")
    if vals[0] != vals[1]:
        ctx.findings[-1].file = "apischema/serialization/__init__.py"
    from .c13 import discriminator_key_if_absent
    discriminator_key_if_absent(ctx, "C05.R3")
    ob = model.func(f"{OV}.ObjectVisitor._object")
    ctx.check("return self.object(tp, fields)" in norm(ob.node), "C05.R3", ob.qualname, ob.node.body[-1], "_object no longer hands the filtered / aliased field list to object()", ob, ob.node, detail="self.object(tp, fields)")

    # ---------------- R4: one reading per metadata key
    ctx.rule("C05.R4", "ObjectField reads each metadata key through one mapping only (full_metadata = field metadata + Annotated metadata, or metadata): both directions classify a field (flattened / properties / alias / none_as_undefined ...) from the same source", floor=8)
    of = model.cls("apischema.objects.fields.ObjectField")
    reads = {}
    for name, m in of.methods.items():
        for n in ast.walk(m.node):
            key = mapping = None
            if isinstance(n, ast.Compare) and len(n.ops) == 1 and isinstance(n.ops[0], (ast.In, ast.NotIn)) and isinstance(n.left, ast.Name) and n.left.id.endswith("_METADATA") and norm(n.comparators[0]) in ("self.metadata", "self.full_metadata"):
                key, mapping = n.left.id, norm(n.comparators[0])
            elif isinstance(n, ast.Call) and isinstance(n.func, ast.Attribute) and n.func.attr == "get" and norm(n.func.value) in ("self.metadata", "self.full_metadata") and n.args and isinstance(n.args[0], ast.Name) and n.args[0].id.endswith("_METADATA"):
                key, mapping = n.args[0].id, norm(n.func.value)
            elif isinstance(n, ast.Subscript) and norm(n.value) in ("self.metadata", "self.full_metadata") and isinstance(n.slice, ast.Name) and n.slice.id.endswith("_METADATA"):
                key, mapping = n.slice.id, norm(n.value)
            if key:
                reads.setdefault(key, []).append((mapping, m, n))
    ctx.require(len(reads) >= 8, f"only {len(reads)} metadata keys read by ObjectField")
    for key, sites in sorted(reads.items()):
        mappings = {mp for mp, _, _ in sites}
        minority = sites[-1]
        if len(mappings) > 1:
            from collections import Counter
            cnt = Counter(mp for mp, _, _ in sites)
            least = min(cnt, key=cnt.get)
            minority = next(x for x in sites if x[0] == least)
        ctx.check(len(mappings) == 1, "C05.R4", f"ObjectField:{key}", minority[2],
                  f"{key} is read through {sorted(mappings)}: `{minority[1].name}` uses {minority[0]} while the other accessors of the same key use the other mapping; a field declared through Annotated[...] metadata is then classified differently by the code paths of the two directions (serialization nests what deserialization expects flattened)",
                  minority[1], minority[2], detail=f"{len(sites)} read(s) through {sorted(mappings)[0]}")
    # the aggregate classification is the disjunction of the three accessors deserialization dispatches on
    ia = of.methods.get("is_aggregate")
    ctx.check(ia is not None and all(f in norm(ia.node) for f in ("self.flattened", "self.additional_properties", "self.pattern_properties is not None")), "C05.R4", "ObjectField.is_aggregate", ia.node.body[0] if ia else None,
              "is_aggregate is no longer `flattened or additional_properties or pattern_properties is not None`: serialization (which dispatches on is_aggregate) and deserialization (which dispatches on the three accessors) can disagree on the layout of a field", ia, ia.node if ia else None, detail="derived from the three accessors")

    # ---------------- R5: as_names registers an inverse pair
    ctx.rule("C05.R5", "as_names: deserializer and serializer are inverse of each other: both go through the member *name* (the name-enum's value is the aliased name)", floor=2)
    an = model.func("apischema.conversions.converters.as_names")
    regs = {}
    for c in ast.walk(an.node):
        if isinstance(c, ast.Call) and dotted(c.func) in ("deserializer", "serializer") and c.args and isinstance(c.args[0], ast.Call) and (dotted(c.args[0].func) or "").endswith("Conversion"):
            regs[dotted(c.func)] = c.args[0]
    ctx.require(set(regs) == {"deserializer", "serializer"}, "as_names no longer registers a deserializer and a serializer")
    def conv_body(conv):
        f = conv.args[0]
        if isinstance(f, ast.Name) and f.id in an.nested:
            return norm(an.nested[f.id].node.body[-1])
        return norm(f)
    sb, db = conv_body(regs["serializer"]), conv_body(regs["deserializer"])
    ctx.check("getattr(name_cls, obj.name)" in sb or "name_cls[obj.name]" in sb, "C05.R5", f"{an.qualname}:serializer", regs["serializer"], "the serializer of as_names no longer maps a member to the name-enum member of the same name", an, regs["serializer"], detail="getattr(name_cls, obj.name)")
    ctx.check(".name" in db and ("getattr(cls," in db or "cls[" in db) and "partial(getattr, cls)" not in db, "C05.R5", f"{an.qualname}:deserializer", regs["deserializer"],
              f"the deserializer of as_names is `{db[:60]}`: it must look the member up by the *name* of the name-enum member; looking it up by the member itself uses its str value, the aliased name, and fails (AttributeError) as soon as the aliaser is not the identity", an, regs["deserializer"], detail="getattr(cls, name_elt.name)")
    kw = {d: {k.arg: norm(k.value) for k in c.keywords} for d, c in regs.items()}
    ctx.check(kw["deserializer"].get("source") == kw["serializer"].get("target") and kw["deserializer"].get("target") == kw["serializer"].get("source"), "C05.R5", f"{an.qualname}:types", regs["deserializer"], "source / target of the two conversions are not swapped", an, an.node, detail="deserializer(source=name_cls, target=cls) / serializer(source=cls, target=name_cls)")


    # ---------------- flag metadata: producers and consumers agree
    ctx.rule("C05.R6", "flag metadata (default_as_set, flatten, required, ...): a consumer testing the truth of the stored value agrees with the placeholder stored by simple_metadata", floor=1)
    from .common_flags import flag_metadata_rule
    flag_metadata_rule(ctx, "C05.R6")

    # ---------------- generic inheritance (shared with C01.R12)
    from .c01 import generic_substitution_rule
    generic_substitution_rule(ctx, "C05.R7")

def mutants(mb):
    mb.add_text("generic-base-top-level-substitution", "apischema/typing.py", "            base_parameters = getattr(base, \"__parameters__\", ())\n            if base_parameters:\n                base = base[tuple(substitution.get(p, p) for p in base_parameters)]\n", "            if getattr(base, \"__parameters__\", ()):\n                base = get_origin(base)[tuple(substitution.get(a, a) for a in get_args(base))]\n", "C05.R7", "base-substitution")
    mb.add_text("flag-placeholder-none", "apischema/metadata/implem.py", "    return MetadataImplem({key: ...})\n", "    return MetadataImplem({key: None})\n", "C05.R6", "DEFAULT_AS_SET_METADATA")
    mb.add_text("neg-flag-placeholder-true", "apischema/metadata/implem.py", "    return MetadataImplem({key: ...})\n", "    return MetadataImplem({key: True})\n", negative=True)
    mb.add_text("neg-flag-tested-by-presence", "apischema/fields.py", "            if field.metadata.get(DEFAULT_AS_SET_METADATA):\n", "            if DEFAULT_AS_SET_METADATA in field.metadata:\n", negative=True)
    mb.add_text("as-names-by-value", "apischema/conversions/converters.py", "        return getattr(cls, name_elt.name)\n", "        return getattr(cls, name_elt)\n", "C05.R5", "deserializer")
    mb.add_text("is-aggregate-own-metadata", "apischema/objects/fields.py", "        return (\n            self.flattened\n            or self.additional_properties\n            or self.pattern_properties is not None\n        )", "        return FLATTEN_METADATA in self.metadata or PROPERTIES_METADATA in self.metadata", "C05.R4", "ObjectField")
    S = "apischema/std_types.py"
    OVp = "apischema/objects/visitor.py"
    mb.add_text("decimal-ser-str", S, "serializer(Conversion(float, source=Decimal, target=float))", "serializer(Conversion(str, source=Decimal, target=str))", "C05.R1", "Decimal")
    mb.add_text("bytes-no-serializer", S, "@serializer\ndef to_base64(b: bytes) -> str:", "def to_base64(b: bytes) -> str:", "C05.R1", "bytes")
    mb.add_text("pattern-no-deserializer", S, "@deserializer\ndef _compile(pattern: str) -> re.Pattern:", "def _compile(pattern: str) -> re.Pattern:", "C05.R1", "re.Pattern")
    mb.add_text("datetime-ser-int", S, "    serializer(Conversion(cls.isoformat, source=cls, target=str))  # type: ignore", "    serializer(Conversion(cls.toordinal, source=cls, target=int))  # type: ignore", "C05.R1", "cls")
    mb.add_text("deque-ser-tuple", S, "    serializer(Conversion(list, source=deque[T], target=list[T]))  # type: ignore", "    serializer(Conversion(tuple, source=deque[T], target=tuple[T, ...]))  # type: ignore", "C05.R1", "deque")
    mb.add_text("skip-field-crossed", OVp, "    @staticmethod\n    def _skip_field(field: ObjectField) -> bool:\n        return field.skip.serialization", "    @staticmethod\n    def _skip_field(field: ObjectField) -> bool:\n        return field.skip.deserialization", "C05.R2", "_skip_field")
    mb.add_text("kind-filter-same", OVp, "class SerializationObjectVisitor(ObjectVisitor[Result]):\n    _field_kind_filtered = FieldKind.WRITE_ONLY", "class SerializationObjectVisitor(ObjectVisitor[Result]):\n    _field_kind_filtered = FieldKind.READ_ONLY", "C05.R2", "_field_kind_filtered")
    mb.add_text("annotated-conversion-crossed", "apischema/conversions/visitor.py", "    ) -> Optional[AnyConversion]:\n        return annotation.serialization", "    ) -> Optional[AnyConversion]:\n        return annotation.deserialization", "C05.R2", "_annotated_conversion")
    mb.add_text("ser-refetches-fields", "apischema/serialization/__init__.py", "        typed_dict = is_typed_dict(cls)\n        for field in fields:", "        typed_dict = is_typed_dict(cls)\n        fields = list(object_fields(tp, serialization=True).values())\n        for field in fields:", "C05.R3", "fields")
    mb.add_text("discriminator-key-raw", "apischema/serialization/__init__.py", "                        self.aliaser(discriminator.alias),\n", "                        discriminator.alias,\n", "C05.R3", "discriminator-key")
    mb.add_text("discriminator-key-overwrites", "apischema/serialization/methods.py", "        if isinstance(res, dict) and self.alias not in res:\n", "        if isinstance(res, dict):\n", "C05.R3", "DiscriminatedAlternative")
    mb.add_text("neg-typing-list", S, "    deserializer(Conversion(deque, source=list[T], target=deque[T]))  # type: ignore", "    deserializer(Conversion(deque, source=List[T], target=deque[T]))  # type: ignore", negative=True)
    mb.out[-1].new_src = mb.out[-1].new_src.replace("from typing import TypeVar\n", "from typing import List, TypeVar\n", 1)
