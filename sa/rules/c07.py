"""C07 - serialized data validates against serialization_schema.

Decides: `required` in the schema is never stronger than what the serializer
always emits, per field strategy, over the atoms shared by the serializer and the
schema builder; both sides call the shared predicate with the same arguments;
the name sources agree. Not: validity of the emitted values.
"""
import ast

from ..boolx import substitute,  BoolEval, Unknown, show, valuations
from ..model import AnalysisError
from ..util import dotted, norm, short, walk_no_nested
from .common_fields import ATOMS, SER_VISITOR, SMETH, FieldModel, consistent

SSB = "apischema.json_schema.schema.SerializationSchemaBuilder"


def check(ctx):
    model = ctx.model
    ctx.explanations.append(
        "C07: decided - every call of ObjectField.skippable passes (exclude_defaults, exclude_none) in that order (R1); over all "
        "consistent valuations (exclude_* identified on both sides = same global settings, exclude_unset off as the statement "
        "says): a field that the serializer may omit (an effective ComplexField / SerializedField flag) is not `required` in "
        "the serialization schema; TypedDict presence uses the same `required` attribute on both sides (R2); both sides take "
        "property names from non-aggregate fields plus get_serialized_methods, and init=False fields are kept (R3). Not "
        "decided: validity of values against property schemas, additional / pattern properties, conversions."
    )
    fm = FieldModel(model)
    props = model.func(f"{SSB}.properties")

    # ---------------- R1
    ctx.rule("C07.R1", "ObjectField.skippable is called with (exclude_defaults, exclude_none) in that order", floor=2)
    n_calls = 0
    for fi in model.functions.values():
        for c in model.calls_in(fi, include_nested=False):
            if isinstance(c.func, ast.Attribute) and c.func.attr == "skippable" and len(c.args) + len(c.keywords) >= 2:
                n_calls += 1
                a = [norm(x) for x in c.args]
                kw = {k.arg: norm(k.value) for k in c.keywords}
                d = a[0] if a else kw.get("default", "")
                n = a[1] if len(a) > 1 else kw.get("none", "")
                ok = d.endswith("exclude_defaults") and n.endswith("exclude_none")
                ctx.check(ok, "C07.R1", f"{fi.qualname}:skippable", c, f"skippable({d}, {n}): arguments are (default, none) = (exclude_defaults, exclude_none); crossed or wrong options make the schema's `required` disagree with the serializer", fi, c, detail=f"({d}, {n})")
    ctx.require(n_calls >= 2, f"only {n_calls} skippable call sites")

    # ---------------- R2 fields
    ctx.rule("C07.R2", "a field / serialized method the serializer may omit is not `required` in the serialization schema", floor=3)
    # required expression of fields in properties(): the `for required in [ <expr> ]` generator
    req_expr = None
    for n in ast.walk(props.node):
        if isinstance(n, ast.comprehension) and isinstance(n.target, ast.Name) and n.target.id == "required" and isinstance(n.iter, ast.List) and len(n.iter.elts) == 1:
            req_expr = n.iter.elts[0]
    ctx.require(req_expr is not None, "`for required in [...]` not found in SerializationSchemaBuilder.properties")
    # single-assignment locals of properties() (hoisted settings, typed-dict test) are inlined before reading the expressions
    cnt_, loc_ = {}, {}
    for n in walk_no_nested(props.node):
        if isinstance(n, ast.Assign) and len(n.targets) == 1 and isinstance(n.targets[0], ast.Name):
            cnt_[n.targets[0].id] = cnt_.get(n.targets[0].id, 0) + 1
            loc_[n.targets[0].id] = n.value
    plocals = {k: v for k, v in loc_.items() if cnt_[k] == 1}
    _kept = []
    def inl(e):
        e2 = substitute(e, plocals) if plocals else e
        _kept.append(e2)
        return e2
    req_expr = inl(req_expr)
    try:
        bad = None
        count = 0
        for v in valuations(ATOMS, consistent):
            if v["exclude_unset"]:
                continue
            count += 1
            flags = fm.flags(v)
            eff = fm.effective(flags, v)
            # a TypedDict key that is not required may simply be absent; any field may be omitted by an effective flag
            may_omit = (fm.complex_selected(v) and any(eff.values())) or (v["typed_dict"] and not v["required"])
            required_schema = fm.ev(req_expr, v)
            if may_omit and required_schema and bad is None:
                bad = (v, [k for k, x in eff.items() if x] or ["absent key"])
        ctx.check(bad is None, "C07.R2", f"{props.qualname}:field-required", req_expr,
                  (f"for a field with [{show(bad[0])}] the serializer may omit it ({bad[1]}) but the schema computes required = `{short(req_expr, 100)}` = True: the serialized object misses a required property") if bad else "",
                  props, req_expr, detail=f"{count} valuations (TypedDict keys included): may-omit => not required")
    except Unknown as err:
        raise AnalysisError(f"C07 table (fields): {err}")
    ctx.check(norm(fm.args["required"]) == "field.required", "C07.R2", f"{props.qualname}:typed-dict-required", fm.complex_call,
              f"ComplexField.required (presence of TypedDict keys) receives `{norm(fm.args['required'])}`", props, fm.complex_call, detail="field.required")
    cf_ur = model.func(f"{SMETH}.ComplexField.update_result")
    ctx.check("self.required or self.name in obj" in norm(cf_ur.node), "C07.R2", cf_ur.qualname + ":typed-dict-presence", cf_ur.node.body[0],
              "ComplexField no longer emits a TypedDict key iff it is required or present", cf_ur, cf_ur.node, detail="(self.required or self.name in obj) if self.typed_dict")
    # serialized methods
    sprop = None
    for c in ast.walk(props.node):
        if isinstance(c, ast.Call) and dotted(c.func) == "Property" and c.args and "serialized.alias" in norm(c.args[0]):
            sprop = c
    ctx.require(sprop is not None and len(sprop.args) >= 4, "Property(...) of serialized methods not found")
    s_required = inl(sprop.args[3])
    s_atoms = {
        "is_union_of(ret_type, UndefinedType)": "ret_undef", "is_union_of(types['return'], UndefinedType)": "ret_undef",
        "is_union_of(ret_type, NoneType)": "ret_none", "is_union_of(types['return'], NoneType)": "ret_none",
        "self.exclude_none": "exclude_none", "settings.serialization.exclude_none": "exclude_none",
        "self.exclude_defaults": "exclude_defaults", "settings.serialization.exclude_defaults": "exclude_defaults",
    }
    be = BoolEval(s_atoms)
    try:
        bad = None
        for v in valuations(["ret_undef", "ret_none", "exclude_none", "exclude_defaults"]):
            undefined = bool(be.ev(fm.sargs["undefined"], v)) and v["ret_undef"]
            skip_none = bool(be.ev(fm.sargs["skip_none"], v)) and (v["ret_none"])
            req = bool(be.ev(s_required, v))
            if (undefined or skip_none) and req and bad is None:
                bad = (v, "undefined" if undefined else "skip_none")
        ctx.check(bad is None, "C07.R2", f"{props.qualname}:serialized-required", s_required,
                  (f"a serialized method with [{show(bad[0])}] is omitted by SerializedField (`{bad[1]}` = `{short(fm.sargs[bad[1]], 80)}`) but the schema lists it as required (`{short(s_required, 80)}`)") if bad else "",
                  props, s_required, detail="16 valuations: may-omit => not required")
    except Unknown as err:
        raise AnalysisError(f"C07 table (serialized methods): {err}")
    sf_ur = model.func(f"{SMETH}.SerializedField.update_result")
    t = norm(sf_ur.node)
    ctx.check("self.undefined and value is Undefined" in t and "self.skip_none and value is None" in t, "C07.R2", sf_ur.qualname, sf_ur.node.body[0],
              "SerializedField omits on other conditions than its two flags", sf_ur, sf_ur.node, detail="omits iff (undefined & Undefined) or (skip_none & None)")

    # ---------------- R3 names
    ctx.rule("C07.R3", "both sides build property names from non-aggregate fields plus get_serialized_methods; init=False fields are kept", floor=4)
    obj = fm.obj
    for fi, label in ((obj, "serializer"), (props, "schema")):
        t = norm(fi.node)
        ctx.check("get_serialized_methods(tp)" in t, "C07.R3", f"{fi.qualname}:serialized-methods", fi.node.body[0], f"{label} side no longer includes get_serialized_methods(tp)", fi, fi.node, detail="get_serialized_methods(tp)")
    ctx.check("if not field.is_aggregate" in norm(props.node), "C07.R3", f"{props.qualname}:non-aggregate", props.node.body[0], "schema properties no longer exclude aggregate fields", props, props.node, detail="if not field.is_aggregate")
    sov = model.cls("apischema.objects.visitor.SerializationObjectVisitor")
    v = sov.attrs.get("_field_kind_filtered")
    ctx.check(v is not None and norm(v) == "FieldKind.WRITE_ONLY", "C07.R3", sov.qualname, v, "serialization visitors must filter WRITE_ONLY (InitVar) fields only, keeping init=False (READ_ONLY) ones in both the output and the schema", None, None, detail="_field_kind_filtered = WRITE_ONLY")
    ssb = model.cls(SSB)
    ctx.check(model.is_subclass(SSB, sov.qualname) and model.is_subclass(SER_VISITOR, sov.qualname), "C07.R3", "shared SerializationObjectVisitor", None,
              "serializer and serialization schema builder no longer share SerializationObjectVisitor (field filtering)", None, None, detail="both derive from SerializationObjectVisitor")

    # ---------------- R4: every emitted key is allowed by the schema (flattened fields merged into the parent)
    ctx.rule("C07.R4", "keys merged from flattened fields are allowed by the parent's schema: the members of the `allOf` are open (shared with C06.R12)", floor=2)
    from .c06 import allof_composition_rule
    allof_composition_rule(ctx, "C07.R4")


    # ---------------- R5: dependentRequired of the serialization schema
    ctx.rule("C07.R5", "the serialization schema only states `dependentRequired` towards properties that are always emitted: a property the serializer may omit (Undefined, None with exclude_none, defaults with exclude_defaults) is not promised to accompany another one", floor=3)
    so = model.func("apischema.json_schema.schema.SchemaBuilder.object")
    ser_b = model.cls("apischema.json_schema.schema.SerializationSchemaBuilder")
    hook_calls = [c for c in walk_no_nested(so.node) if isinstance(c, ast.Call) and isinstance(c.func, ast.Attribute) and isinstance(c.func.value, ast.Name) and c.func.value.id == "self"
                  and c.args and norm(c.args[0]) == "properties" and model.find_method(ser_b.qualname, c.func.attr) is not None and model.find_method(ser_b.qualname, c.func.attr).cls is ser_b]
    ok = len(hook_calls) == 1
    ctx.check(ok, "C07.R5", f"{so.qualname}:omittable-hook", None,
              "the object schema no longer asks the serialization builder which properties can be omitted: `dependentRequired: {a: [b]}` is emitted although serialize() drops b (None with exclude_none, Undefined) while a is there - the serialized data does not validate",
              so, so.node, detail="self._omittable(properties) overridden by SerializationSchemaBuilder")
    if ok:
        hook = model.find_method(ser_b.qualname, hook_calls[0].func.attr)
        rets = [r for r in walk_no_nested(hook.node) if isinstance(r, ast.Return) and r.value is not None]
        good = len(rets) == 1 and isinstance(rets[0].value, (ast.SetComp, ast.ListComp)) and norm(rets[0].value.elt).endswith(".name") and any(norm(i_) in ("not p.required", "not prop.required", "not property.required") for i_ in rets[0].value.generators[0].ifs)
        ctx.check(good, "C07.R5", f"{hook.qualname}:not-required", None, "the omittable properties are no longer those that are not `required` in the serialization schema", hook, hook.node, detail="{p.name for p in properties if not p.required}")
        par7 = {c_: p_ for p_ in ast.walk(so.node) for c_ in ast.iter_child_nodes(p_)}
        bound = par7.get(hook_calls[0])
        var = norm(bound.targets[0]) if isinstance(bound, ast.Assign) else None
        # the required lists: every comprehension that ranges over the `reqs` of get_dependent_required(cls).items() (dict
        # comprehension or explicit loop) filters its elements with `not in <omittable>`
        reqs_vars, anchor = set(), None
        for n in ast.walk(so.node):
            tgt_it = [(g.target, g.iter) for g in n.generators] if isinstance(n, (ast.DictComp, ast.ListComp, ast.SetComp, ast.GeneratorExp)) else [(n.target, n.iter)] if isinstance(n, ast.For) else []
            for tg, it in tgt_it:
                if "get_dependent_required" in norm(it) and norm(it).endswith(".items()") and isinstance(tg, ast.Tuple) and len(tg.elts) == 2 and isinstance(tg.elts[1], ast.Name):
                    reqs_vars.add(tg.elts[1].id)
                    anchor = n
        over_reqs = [c_ for c_ in ast.walk(so.node) if isinstance(c_, (ast.ListComp, ast.SetComp, ast.GeneratorExp)) and isinstance(c_.generators[0].iter, ast.Name) and c_.generators[0].iter.id in reqs_vars]
        used = bool(var) and bool(over_reqs) and all(any(f"{norm(c_.generators[0].target)} not in {var}" in norm(i_) for i_ in [*c_.generators[0].ifs, *([c_.elt] if isinstance(c_, ast.GeneratorExp) else [])]) for c_ in over_reqs) \
            and any(isinstance(c_, (ast.ListComp, ast.SetComp)) for c_ in over_reqs)
        ctx.check(used, "C07.R5", f"{so.qualname}:filtered", None, f"`dependent_required` does not drop the omittable properties from the required lists", so, anchor if anchor is not None else so.node, detail=f"req not in {var} in every comprehension over the required names")

    # ---------------- generic conversions applied to user subclasses of collections (shared with C12.R11)
    from .c12 import subtyping_rule
    subtyping_rule(ctx, "C07.R6")

def mutants(mb):
    mb.add_text("substitution-matches-subclass-of-abstract-source", "apischema/utils.py", "            base_origin in ITERABLE_TYPES and super_origin in ITERABLE_TYPES\n", "            super_origin in ITERABLE_TYPES and is_subclass(base_origin, super_origin)\n", "C07.R6", "matching-base")
    mb.add_text("ser-schema-promises-omittable", "apischema/json_schema/schema.py", "        return {p.name for p in properties if not p.required}\n", "        return set()\n", "C07.R5", "not-required")
    mb.add_text("ser-schema-omittable-unused", "apischema/json_schema/schema.py", "            f: [req for req in reqs if req in aliases and req not in omittable]\n", "            f: [req for req in reqs if req in aliases]\n", "C07.R5", "filtered")
    mb.add_text("typed-dict-required-ignores-omission", "apischema/json_schema/schema.py", "                (field.required or not is_typed_dict(get_origin_or_type(tp)))\n                and not field.skippable(\n                    settings.serialization.exclude_defaults,\n                    settings.serialization.exclude_none,\n                )\n", "                field.required\n                if is_typed_dict(get_origin_or_type(tp))\n                else not field.skippable(\n                    settings.serialization.exclude_defaults,\n                    settings.serialization.exclude_none,\n                )\n", "C07.R2", "field-required")
    mb.add_text("neg-settings-hoisted", "apischema/json_schema/schema.py", "                not is_union_of(types[\"return\"], UndefinedType)\n                and not (\n                    settings.serialization.exclude_none\n                    and is_union_of(types[\"return\"], NoneType)\n                ),", "                not is_union_of(types[\"return\"], UndefinedType)\n                and not (\n                    settings.serialization.exclude_none and is_union_of(types[\"return\"], NoneType)\n                ),", negative=True)
    mb.add_text("serialized-required-wrong-setting", "apischema/json_schema/schema.py", "                    settings.serialization.exclude_none\n                    and is_union_of(types[\"return\"], NoneType)", "                    settings.serialization.exclude_defaults\n                    and is_union_of(types[\"return\"], NoneType)", "C07.R2", "serialized-required")
    S = "apischema/serialization/__init__.py"
    J = "apischema/json_schema/schema.py"
    mb.add_text("serialized-skip-none-defaults", S, "                        is_union_of(ret_type, NoneType) and self.exclude_none,\n", "                        is_union_of(ret_type, NoneType)\n                        and (self.exclude_none or self.exclude_defaults),\n", "C07.R2", "serialized-required")
    mb.add_text("serialized-required-ignores-none", J, "                not is_union_of(types[\"return\"], UndefinedType)\n                and not (\n                    settings.serialization.exclude_none\n                    and is_union_of(types[\"return\"], NoneType)\n                ),\n", "                not is_union_of(types[\"return\"], UndefinedType),\n", "C07.R2", "serialized-required")
    mb.add_text("schema-skippable-crossed", J, "                and not field.skippable(\n                    settings.serialization.exclude_defaults,\n                    settings.serialization.exclude_none,\n                )", "                and not field.skippable(\n                    settings.serialization.exclude_none,\n                    settings.serialization.exclude_defaults,\n                )", "C07.R", "")
    mb.add_text("schema-required-field-required", J, "                and not field.skippable(\n                    settings.serialization.exclude_defaults,\n                    settings.serialization.exclude_none,\n                )", "                and field.required", "C07.R2", "field-required")
    mb.add_text("skippable-drops-nau", "apischema/objects/fields.py", "            or self.none_as_undefined\n", "", "C07.R2", "field-required")
    mb.add_text("skippable-drops-undefined-default", "apischema/objects/fields.py", "            or (not self.required and self.get_default() is Undefined)\n", "", "C07.R2", "field-required")
    mb.add_text("typed-dict-required-true", J, "                (field.required or not is_typed_dict(get_origin_or_type(tp)))\n", "                True\n", "C07.R2", "field-required")
    mb.add_text("ser-filters-readonly", "apischema/objects/visitor.py", "class SerializationObjectVisitor(ObjectVisitor[Result]):\n    _field_kind_filtered = FieldKind.WRITE_ONLY", "class SerializationObjectVisitor(ObjectVisitor[Result]):\n    _field_kind_filtered = FieldKind.READ_ONLY", "C07.R3", "SerializationObjectVisitor")
    mb.add_text("neg-required-var", J, "                not is_union_of(types[\"return\"], UndefinedType)\n                and not (\n                    settings.serialization.exclude_none\n                    and is_union_of(types[\"return\"], NoneType)\n                ),\n",
                "                not (\n                    is_union_of(types[\"return\"], UndefinedType)\n                    or (\n                        settings.serialization.exclude_none\n                        and is_union_of(types[\"return\"], NoneType)\n                    )\n                ),\n", negative=True)
