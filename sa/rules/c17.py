"""C17 - generated JSON Schemas are well-formed, closed and finite.

Decides: the reference-counting pass (RefsExtractor) and the emitting pass
(SchemaBuilder) take their $ref decisions at the same points from the same
expressions; only _incr_ref writes the ref table and it refuses clashes; emitted
refs are extracted refs; both entry points share the extraction / emission path;
the recursion guard is paired; tri-state options are defaulted on `is None`; each
version declares its own $schema. Not meta-schema validity of arbitrary outputs.
"""
import ast
import re
from typing import Dict, List, Optional, Set, Tuple

from ..cfg import CFG
from ..model import AnalysisError
from ..util import flatten_boolop, dotted, names_in, norm, short, walk_no_nested
from ..visitors import totality
from .common_tristate import tri_state_rule

REFS = "apischema.json_schema.refs"
SCH = "apischema.json_schema.schema"


def decision_points(model, cls_q: str, callee: str) -> Set[Tuple[str, str]]:
    """(hook, normalised name expression) for every `self.<callee>(name, ...)` call."""
    cls = model.cls(cls_q)
    out = set()
    for hook, m in cls.methods.items():
        assign: Dict[str, ast.AST] = {}
        loops: Dict[str, ast.AST] = {}
        walrus: Dict[str, ast.AST] = {}
        for n in walk_no_nested(m.node):
            if isinstance(n, ast.Assign) and isinstance(n.targets[0], ast.Name):
                assign.setdefault(n.targets[0].id, n.value)
            elif isinstance(n, ast.For) and isinstance(n.target, ast.Name):
                it = n.iter
                # a loop over a local holding the materialised sequence (`xs = list(E)`, `xs = [] if c else list(E)`): the elements are E's
                if isinstance(it, ast.Name):
                    defs_ = [a.value for a in walk_no_nested(m.node) if isinstance(a, ast.Assign) and len(a.targets) == 1 and isinstance(a.targets[0], ast.Name) and a.targets[0].id == it.id]
                    if len(defs_) == 1:
                        v_ = defs_[0]
                        if isinstance(v_, ast.IfExp):
                            v_ = v_.orelse if (isinstance(v_.body, (ast.List, ast.Tuple)) and not v_.body.elts) else v_.body if (isinstance(v_.orelse, (ast.List, ast.Tuple)) and not v_.orelse.elts) else v_
                        if isinstance(v_, ast.Call) and dotted(v_.func) in ("list", "tuple") and len(v_.args) == 1:
                            v_ = v_.args[0]
                        if isinstance(v_, ast.Call):
                            it = v_
                loops[n.target.id] = it
            elif isinstance(n, ast.For) and isinstance(n.target, ast.Tuple) and isinstance(n.iter, ast.Call) and dotted(n.iter.func) == "enumerate" and n.iter.args and isinstance(n.target.elts[-1], ast.Name):
                loops[n.target.elts[-1].id] = n.iter.args[0]
            elif isinstance(n, ast.NamedExpr) and isinstance(n.target, ast.Name):
                walrus[n.target.id] = n.value
        for c in walk_no_nested(m.node):
            if isinstance(c, ast.Call) and norm(c.func) == f"self.{callee}" and c.args:
                e = c.args[0]
                if isinstance(e, ast.Name) and e.id in assign:
                    e = assign[e.id]

                class Sub(ast.NodeTransformer):
                    def visit_Name(self, n):
                        if n.id in loops:
                            return ast.Name(id="<" + norm(loops[n.id]) + ">", ctx=ast.Load())
                        if n.id in walrus:
                            return ast.Name(id="<" + norm(walrus[n.id]).split("(")[0] + ">", ctx=ast.Load())
                        if n.id in assign and n.id not in ("tp",):
                            return ast.Name(id="<" + norm(assign[n.id]).split("(")[0] + ">", ctx=ast.Load())
                        return n
                import copy
                t = norm(Sub().visit(copy.deepcopy(e)))
                out.add((hook, t))
    return out


def check(ctx):
    model = ctx.model
    ctx.explanations.append(
        "C17: decided - RefsExtractor._incr_ref and SchemaBuilder.ref_schema are called at the same hooks with the same name "
        "expressions (annotated: TypeNameFactory annotation; visit_conversion: get_type_name of each resolved conversion type, "
        "non-dynamic only; object: discriminated parent) and discriminated unions are counted twice exactly where the builder "
        "emits oneOf (R1); the ref table is written only by _incr_ref after the clash test, and popped only on Unsupported (R2); "
        "a $ref is emitted only for a name present in the extracted table and definitions are produced from that same table (R3); "
        "_schema and definitions_schema share _extract_refs / _refs_schema with positionally matching arguments (R4); the "
        "recursion guard increment is paired with a decrement in `finally` and bounded (R5); each version's $schema names its own "
        "dialect (R6); tri-state options (all_refs, additional_properties) are defaulted on `is None` (R7); both extractors are "
        "total (R8). Not decided: termination for arbitrary conversion graphs, all_refs counting for every sharing shape."
    )
    ctx.rule("C17.R1", "ref decisions are taken at the same hooks from the same expressions by the counting and the emitting pass", floor=4)
    ext = decision_points(model, f"{REFS}.RefsExtractor", "_incr_ref")
    bld = decision_points(model, f"{SCH}.SchemaBuilder", "ref_schema")
    ctx.require(len(ext) >= 1 and len(bld) >= 1 and len(ext | bld) >= 3, f"decision points not found (extractor {ext}, builder {bld})")
    for pt in sorted(ext | bld):
        ok = pt in ext and pt in bld
        side = "only the counting pass (RefsExtractor)" if pt in ext else "only the emitting pass (SchemaBuilder)"
        ctx.check(ok, "C17.R1", f"{pt[0]}:{pt[1]}", f"{pt[0]}: {pt[1]}",
                  f"ref decision `{pt[1]}` in hook `{pt[0]}` is taken by {side}: a $ref is emitted without a definition, or a definition is counted that is never referenced",
                  None, None, detail="same decision point in both passes")
        if not ok:
            ctx.findings[-1].file = "apischema/json_schema/refs.py" if pt in ext else "apischema/json_schema/schema.py"
    # dynamic conversions are not refs on either side
    for q in (f"{REFS}.RefsExtractor.visit_conversion", f"{SCH}.SchemaBuilder.visit_conversion"):
        m = model.func(q)
        # every call of resolve_conversion is reached under `not dynamic` (an if, a guard clause, or the branch of a conditional expression)
        from ..pathcond import parents_of as _po17, path_condition as _pc17
        pm17 = _po17(m.node)
        rc_calls = [c for c in walk_no_nested(m.node) if isinstance(c, ast.Call) and norm(c.func) == "self.resolve_conversion"]
        ok = bool(rc_calls) and all("not dynamic" in {norm(x) for x in flatten_boolop(_pc17(m.node, c, pm17), ast.And)} for c in rc_calls)
        ctx.check(ok, "C17.R1", f"{q.split('.')[-2]}.visit_conversion:not-dynamic", m.node.body[0], "ref decision of visit_conversion is no longer restricted to non-dynamic conversions on this side", m, m.node, detail="if not dynamic: for ref_tp in self.resolve_conversion(tp)")
    # discriminated unions counted twice <-> oneOf sites
    ra = model.func(f"{REFS}.RefsExtractor.annotated")
    ru = model.func(f"{REFS}.RefsExtractor.union")
    ba = model.func(f"{SCH}.SchemaBuilder.annotated")
    bu = model.func(f"{SCH}.SchemaBuilder.union")
    pairs = [
        ("annotated", "DISCRIMINATOR_METADATA in annotation" in norm(ra.node) and "self.visit(tp)" in norm(ra.node), "oneOf=" in norm(ba.node) and "DISCRIMINATOR_METADATA in annotation" in norm(ba.node)),
        ("union", norm(ru.node).count("super().union(types)") == 2 and "get_inherited_discriminator(types)" in norm(ru.node), "oneOf=" in norm(bu.node) and "get_inherited_discriminator(types)" in norm(bu.node)),
    ]
    for hook, e_ok, b_ok in pairs:
        ctx.check(e_ok == b_ok and e_ok, "C17.R1", f"{hook}:discriminated-twice", None,
                  f"discriminated unions: extractor double-count={e_ok}, builder oneOf={b_ok} in `{hook}`: members of a discriminated union must be extracted as refs exactly where oneOf + mapping is emitted", None, None,
                  detail="double visit <-> oneOf")

    # ---------------- R2
    ctx.rule("C17.R2", "the ref table is written only by _incr_ref, after the clash test", floor=2)
    rex = model.cls(f"{REFS}.RefsExtractor")
    writers = []
    for name, m in rex.methods.items():
        for n in walk_no_nested(m.node):
            if isinstance(n, ast.Subscript) and isinstance(n.ctx, (ast.Store, ast.Del)) and norm(n.value) == "self.refs":
                writers.append((m, n, "store"))
            if isinstance(n, ast.Call) and isinstance(n.func, ast.Attribute) and norm(n.func.value) == "self.refs" and n.func.attr in ("pop", "update", "clear", "setdefault", "popitem"):
                writers.append((m, n, n.func.attr))
    ctx.require(writers, "no writer of self.refs found")
    for m, n, kind in writers:
        if kind == "store":
            ok = m.name == "_incr_ref"
            if ok:
                cfg = CFG(m.node, exc_edges=False)
                parents = {c: p for p in ast.walk(m.node) for c in ast.iter_child_nodes(p)}
                st = parents.get(n)
                while st is not None and not isinstance(st, ast.stmt):
                    st = parents.get(st)
                sn = cfg.stmt_node.get(st)
                tests = [t for t in cfg.nodes if t.kind == "test" and "replace_builtins(ref_cls) != replace_builtins(tp)" in norm(t.ast)]
                dom = cfg.dominators()
                ok = bool(tests) and sn is not None and tests[0] in dom.get(sn, set())
                if ok:
                    # the true branch of the clash test raises
                    ifs = [x for x in walk_no_nested(m.node) if isinstance(x, ast.If) and "replace_builtins(ref_cls) != replace_builtins(tp)" in norm(x.test)]
                    ok = bool(ifs) and isinstance(ifs[0].body[-1], ast.Raise)
            ctx.check(ok, "C17.R2", f"{m.qualname}:store", n, "the ref table is written without first refusing two distinct types sharing a name (or outside _incr_ref)", m, n, detail="dominated by the clash test, which raises")
        else:
            p = {c: q for q in ast.walk(m.node) for c in ast.iter_child_nodes(q)}
            h = p.get(n)
            while h is not None and not isinstance(h, ast.ExceptHandler):
                h = p.get(h)
            ok = kind == "pop" and h is not None and "Unsupported" in norm(h.type)
            ctx.check(ok, "C17.R2", f"{m.qualname}:{kind}", n, f"self.refs.{kind}(...) outside the `except Unsupported` clean-up", m, n, detail="pop only when the type turned out unsupported")

    # ---------------- R3
    ctx.rule("C17.R3", "a $ref is emitted only for an extracted name; definitions come from the same table", floor=2)
    rs = model.func(f"{SCH}.SchemaBuilder.ref_schema")
    first = [s for s in rs.node.body if not isinstance(s, ast.Expr)][0]
    ok = isinstance(first, ast.If) and norm(first.test) == "ref not in self.refs" and isinstance(first.body[0], ast.Return) and norm(first.body[0].value) == "None"
    ctx.check(ok, "C17.R3", rs.qualname, first, "ref_schema no longer returns None first when the name is not in the extracted table: dangling $ref", rs, first, detail="if ref not in self.refs: return None")
    ok2 = all("$ref" not in norm(n) or "self.ref_factory(ref)" in norm(n) for n in walk_no_nested(rs.node) if isinstance(n, ast.Return))
    ctx.check(ok2, "C17.R3", rs.qualname + ":factory", rs.node.body[-1], "$ref is not built by ref_factory(ref)", rs, rs.node, detail="{'$ref': self.ref_factory(ref)}")
    rf = model.func(f"{SCH}._refs_schema")
    t = norm(rf.node)
    ctx.check("for ref, tp in refs.items()" in t and "ref:" in t, "C17.R3", rf.qualname, rf.node.body[0], "_refs_schema does not produce exactly one definition per extracted ref", rf, rf.node, detail="{ref: ... for ref, tp in refs.items()}")

    # ---------------- R4
    ctx.rule("C17.R4", "_schema and definitions_schema share the extraction / emission path with matching arguments", floor=4)
    for caller in (f"{SCH}._schema", f"{SCH}._defs_schema"):
        fi = model.func(caller)
        for callee in ("_extract_refs", "_refs_schema"):
            cf = model.func(f"{SCH}.{callee}")
            calls = [c for c in model.calls_in(fi) if dotted(c.func) == callee]
            ctx.check(len(calls) == 1, "C17.R4", f"{caller.split('.')[-1]}->{callee}", fi.node.body[0], f"{caller.split('.')[-1]} does not go through {callee}", fi, fi.node, detail="single call")
            for c in calls:
                for p, a in zip(cf.params, c.args):
                    an = names_in(a) | ({"types"} if isinstance(a, ast.List) else set())
                    alias = {"refs": {"refs", "_extract_refs"}}
                    ok = p in an or bool(alias.get(p, set()) & an) or (p == "types" and isinstance(a, ast.List)) or (isinstance(a, ast.Call) and p == "refs")
                    ctx.check(ok, "C17.R4", f"{caller.split('.')[-1]}->{callee}:{p}", a, f"parameter `{p}` of {callee} receives `{short(a, 50)}`: crossed arguments between the two schema entry points", fi, a, detail=f"{p} <- {short(a, 40)}")
    ds = model.func(f"{SCH}.definitions_schema")
    ctx.check(norm(ds.node).count("_defs_schema(") == 2, "C17.R4", ds.qualname, ds.node.body[0], "definitions_schema no longer builds both directions through _defs_schema", ds, ds.node, detail="_defs_schema x2")

    # ---------------- R5
    ctx.rule("C17.R5", "the recursion guard is incremented before and decremented in `finally` after the recursive visit, and bounded", floor=1)
    vc = model.func(f"{REFS}.RefsExtractor.visit_conversion")
    inc = [n for n in walk_no_nested(vc.node) if isinstance(n, ast.AugAssign) and "self._rec_guard" in norm(n.target) and isinstance(n.op, ast.Add)]
    dec_in_finally = False
    for n in walk_no_nested(vc.node):
        if isinstance(n, ast.Try) and n.finalbody:
            if any(isinstance(x, ast.AugAssign) and "self._rec_guard" in norm(x.target) and isinstance(x.op, ast.Sub) for s in n.finalbody for x in ast.walk(s)):
                # the increment is the statement just before this try
                idx = [i for i, s in enumerate(vc.node.body) if s is n]
                dec_in_finally = bool(idx) and idx[0] > 0 and vc.node.body[idx[0] - 1] in inc
    bound = any(isinstance(n, ast.If) and "self._rec_guard" in norm(n.test) and ">" in norm(n.test) and isinstance(n.body[0], ast.Raise) for n in walk_no_nested(vc.node))
    ctx.check(len(inc) == 1 and dec_in_finally and bound, "C17.R5", vc.qualname, vc.node.body[-1],
              "recursion guard of the refs extractor is not (increment; try: visit; finally: decrement) with a bound that raises: a recursive type without a ref would recurse forever or poison later visits", vc, vc.node,
              detail="+= 1 ; try ... finally -= 1 ; `> 2` raises")

    # ---------------- R6 (shared with C18)
    from .c18 import DIALECT_OF, URI_TOKEN, version_constants
    ctx.rule("C17.R6", "each version declares the $schema URI of its own dialect", floor=3)
    for name, (st, args) in sorted(version_constants(model).items()):
        uri = args.get("schema")
        if isinstance(uri, ast.Constant) and isinstance(uri.value, str):
            d = DIALECT_OF.get(name)
            tok = URI_TOKEN.get(d)
            ok = tok is not None and tok in uri.value
            ctx.check(ok, "C17.R6", name, st, f"{name} declares $schema `{uri.value}`: the output would be validated against another dialect's meta-schema", None, None, detail=uri.value)
            if not ok:
                ctx.findings[-1].file, ctx.findings[-1].line = "apischema/json_schema/versions.py", st.lineno
    sch = model.func(f"{SCH}._schema")
    ctx.check('result["$schema"] = version.schema' in norm(sch.node).replace("'", '"'), "C17.R6", sch.qualname + ":$schema", sch.node.body[-1], "$schema is not taken from the selected version", sch, sch.node, detail="result['$schema'] = version.schema")

    # ---------------- R7
    ctx.rule("C17.R7", "tri-state options of the schema functions are defaulted on `is None`", floor=3)
    tri_state_rule(ctx, "C17.R7", ("apischema.json_schema",))
    dv = model.func(f"{SCH}._default_version")
    for p in ("version", "ref_factory", "all_refs"):
        ok = any(isinstance(n, ast.If) and norm(n.test) == f"{p} is None" for n in walk_no_nested(dv.node))
        ctx.check(ok, "C17.R7", f"{dv.qualname}:{p}", dv.node.body[0], f"`{p}` is not defaulted under `if {p} is None`", dv, dv.node, detail=f"if {p} is None")

    # ---------------- R9 scoped builder state
    from .common_scoped import scoped_state_rule
    ctx.rule("C17.R9", "schema builders change traversal state (_ignore_first_ref) only inside `with context_setter(self)` or as a one-shot latch", floor=3)
    scoped_state_rule(ctx, "C17.R9", lambda q: q.startswith("apischema.json_schema"))

    # ---------------- R8
    ctx.rule("C17.R8", "both refs extractors and both schema builders implement every hook they can dispatch to", floor=60)
    for q in (f"{REFS}.DeserializationRefsExtractor", f"{REFS}.SerializationRefsExtractor", f"{SCH}.DeserializationSchemaBuilder", f"{SCH}.SerializationSchemaBuilder"):
        totality(ctx, "C17.R8", q)

    # ---------------- R10: no definition applies a reference to itself
    ctx.rule("C17.R10", "the schema built for a class never puts a $ref to that same class among its own allOf members (a self-applying definition makes validation diverge)", floor=1)
    ob = model.func("apischema.json_schema.schema.SchemaBuilder.object")
    from ..pathcond import parents_of, path_condition
    pmo = parents_of(ob.node)
    n10 = 0
    for c in ast.walk(ob.node):
        if isinstance(c, ast.Call) and isinstance(c.func, ast.Attribute) and c.func.attr == "append" and c.args and isinstance(c.args[0], ast.Name):
            refname = c.args[0].id
            # where the appended reference comes from: self.ref_schema(get_type_name(P).json_schema)
            src = next((a.value for a in ast.walk(ob.node) if isinstance(a, ast.Assign) and norm(a.targets[0]) == refname), None)
            if not (isinstance(src, ast.Call) and norm(src.func) == "self.ref_schema"):
                continue
            m_ = re.search(r"get_type_name\((\w+)\)", norm(src))
            if not m_:
                continue
            n10 += 1
            owner = m_.group(1)
            cond = norm(path_condition(ob.node, c, pmo))
            ok = f"{owner} is not cls" in cond or f"cls is not {owner}" in cond or f"{owner} != cls" in cond
            ctx.check(ok, "C17.R10", f"{ob.qualname}:{refname}", c,
                      f"`{short(c, 50)}` adds a $ref to `{owner}` to the schema being built for `cls` without excluding {owner} is cls: for a discriminated parent that is itself an object type its definition is {{allOf: [{{$ref: itself}}, ...]}} and validators never terminate",
                      ob, c, detail=f"guarded by `{owner} is not cls`")
    ctx.require(n10 >= 1, "SchemaBuilder.object: no reference appended to the allOf members (discriminated parent) found")

    # ---------------- R11: merging the two definitions of one name refuses every difference
    ctx.rule("C17.R11", "compare_schemas (definitions of the same name from both directions) raises for a mapping / non-mapping pair, for sequences of different lengths and for unequal leaves; sequences are compared element by element", floor=4)
    cs = model.func("apischema.json_schema.schema.compare_schemas")
    w, r = cs.params[0], cs.params[1]
    tests = [norm(n.test) for n in ast.walk(cs.node) if isinstance(n, ast.If) and any(isinstance(x, ast.Raise) for x in n.body)]
    ctx.check(any(f"not isinstance({r}, Mapping)" in t for t in tests), "C17.R11", f"{cs.qualname}:mapping-kind", cs.node.body[0], "a mapping is merged with a non-mapping without refusal", cs, cs.node, detail="raise if the other side is not a mapping")
    ctx.check(any(f"len({w}) != len({r})" in t or f"len({r}) != len({w})" in t for t in tests), "C17.R11", f"{cs.qualname}:sequence-length", cs.node.body[0],
              "sequences of different lengths are not refused: with element-wise comparison over the shorter one, a `type` / `enum` / `anyOf` list that is a prefix of the other is merged silently and the definition differs from the inline $defs of one direction", cs, cs.node, detail="raise if len(write) != len(read)")
    ctx.check(any(t in (f"not {w} == {r}", f"{w} != {r}", f"not ({w} == {r})", f"{r} != {w}", f"not {r} == {w}", f"not ({r} == {w})") for t in tests), "C17.R11", f"{cs.qualname}:leaf", cs.node.body[0], "unequal leaves are not refused", cs, cs.node, detail="raise if write != read")
    rec = [c for c in ast.walk(cs.node) if isinstance(c, ast.Call) and isinstance(c.func, ast.Name) and c.func.id == cs.name]
    elementwise = [c for c in rec if len(c.args) == 2 and all(isinstance(a, ast.Subscript) and norm(a.value) in (w, r) for a in c.args) and norm(c.args[0].slice) == norm(c.args[1].slice)]
    zipped = [c for c in rec if len(c.args) == 2 and all(isinstance(a, ast.Name) for a in c.args)]
    ctx.check(bool(elementwise) or bool(zipped), "C17.R11", f"{cs.qualname}:elementwise", cs.node.body[0], "sequence elements are not compared pairwise", cs, cs.node, detail="compare_schemas(write[i], read[i])")

    # ---------------- R12: "type" arrays have unique items
    ctx.rule("C17.R12", "a `type` array folded from several alternatives is deduplicated (the meta-schema requires unique items)", floor=1)
    vu = model.func("apischema.json_schema.schema.SchemaBuilder._visited_union")
    n12 = 0
    for c in ast.walk(vu.node):
        if isinstance(c, ast.Call) and dotted(c.func) == "json_schema" and len(c.keywords) == 1 and c.keywords[0].arg == "type":
            n12 += 1
            v = c.keywords[0].value
            dedup = "dict.fromkeys(" in norm(v) or norm(v).startswith("sorted(set(") or norm(v).startswith("list(set(") and False
            ctx.check(dedup, "C17.R12", f"{vu.qualname}:type-list", c, f"`{short(c, 60)}`: the types of the alternatives are concatenated as is: Union[int, NewType('U', int)] or Union[str, Path] gives {{\"type\": [\"integer\", \"integer\"]}}, invalid against the meta-schema", vu, c, detail="list(dict.fromkeys(types))")
    ctx.require(n12 >= 1, "_visited_union: folded type list not found")

    # ---------------- R17: references are JSON pointers
    ctx.rule("C17.R17", "the default reference factories build a JSON pointer to the definition: the type name is escaped (`~` -> `~0`, then `/` -> `~1`) - a name such as 'A/B' is stored under the key 'A/B' and referred to as '#/$defs/A~1B'", floor=1)
    rp = model.func("apischema.json_schema.versions.ref_prefix")
    t17 = norm(rp.node)
    i0, i1 = t17.find("replace('~', '~0')"), t17.find("replace('/', '~1')")
    ctx.check(i0 != -1 and i1 != -1 and i0 < i1, "C17.R17", f"{rp.qualname}:escape", None,
              "the reference is the prefix followed by the raw type name: for type_name('A/B') the schema contains `$ref: '#/$defs/A/B'`, which points to the member 'B' of the member 'A' of $defs and does not resolve",
              rp, rp.node, detail="ref.replace('~', '~0').replace('/', '~1')")

    # ---------------- R15: the inlining of an aggregate field's own type stops at that type
    ctx.rule("C17.R15", "`_ignore_first_ref` (set to inline the type of a flattened / properties field) is cleared before the value type of a mapping is visited: otherwise a properties field typed Dict[str, 'Node'] inlines Node inside Node for ever", floor=2)
    mp = model.func("apischema.json_schema.schema.SchemaBuilder.mapping")
    vvis = [c for c in ast.walk(mp.node) if isinstance(c, ast.Call) and norm(c.func) == "self.visit" and c.args and norm(c.args[0]) == mp.params[3]]
    ctx.require(len(vvis) == 1, "SchemaBuilder.mapping: visit of the value type not found")
    withs = [w for w in ast.walk(mp.node) if isinstance(w, ast.With) and any(norm(i.context_expr) == "context_setter(self)" for i in w.items) and any(x is vvis[0] for x in ast.walk(w))]
    cleared = False
    for w in withs:
        for st in w.body:
            if isinstance(st, ast.Assign) and norm(st.targets[0]) == "self._ignore_first_ref" and norm(st.value) == "False" and st.lineno < vvis[0].lineno:
                cleared = True
    ctx.check(cleared, "C17.R15", f"{mp.qualname}:value", None,
              "the value type of a mapping is visited with the `_ignore_first_ref` flag of the enclosing aggregate field still set (context_setter restores it after the key): its reference is inlined instead of emitted - deserialization_schema of `extra: Dict[str, 'Node'] = field(metadata=properties)` raises RecursionError",
              mp, vvis[0], detail="with context_setter(self): self._ignore_first_ref = False; value = self.visit(value_type)")
    setters = [a for f_ in model.funcs_in_module("apischema.json_schema.schema") for a in walk_no_nested(f_.node) if isinstance(a, ast.Assign) and norm(a.targets[0]) == "self._ignore_first_ref" and norm(a.value) == "True"]
    ctx.check(len(setters) >= 2, "C17.R15", "SchemaBuilder:_ignore_first_ref setters", None, "the sites setting _ignore_first_ref changed (rule to be re-derived)", None, None, detail=f"{len(setters)} site(s) set the flag", nontrivial=False)

    # ---------------- R16: the parent of a discriminated child is always extracted
    ctx.rule("C17.R16", "the schema of a class inheriting a discriminator refers to its parent's definition (allOf [$ref parent, ...]): the pass counting references counts the parent at least twice for each child, so that it is extracted with all_refs=False too", floor=2)
    ro = model.func("apischema.json_schema.refs.RefsExtractor.object")
    incs = [c for c in ast.walk(ro.node) if isinstance(c, ast.Call) and norm(c.func) == "self._incr_ref" and "parent" in norm(c)]
    par16 = {c_: p_ for p_ in ast.walk(ro.node) for c_ in ast.iter_child_nodes(p_)}
    twice = len(incs) >= 2
    for c in incs:
        p_ = par16.get(c)
        while p_ is not None and not isinstance(p_, (ast.For, ast.While)):
            p_ = par16.get(p_)
        if isinstance(p_, ast.For) and isinstance(p_.iter, ast.Call) and dotted(p_.iter.func) == "range" and p_.iter.args and isinstance(p_.iter.args[0], ast.Constant) and p_.iter.args[0].value >= 2:
            twice = True
    ctx.check(twice, "C17.R16", f"{ro.qualname}:parent-count", None,
              "the discriminated parent is counted once per child: with all_refs=False and a single child in the schema it is not extracted, the builder finds no definition to refer to and deserialization_schema(Child, all_refs=False) dies on `assert discriminator_ref is not None`",
              ro, incs[0] if incs else ro.node, detail="parent counted twice (ref count > 1)")
    so17 = model.func("apischema.json_schema.schema.SchemaBuilder.object")
    ctx.check("discriminator_ref = self.ref_schema(" in norm(so17.node), "C17.R16", f"{so17.qualname}:parent-ref", None, "the child schema no longer refers to its parent through ref_schema (rule to be re-derived)", so17, so17.node, detail="discriminator_ref = self.ref_schema(<parent name>)", nontrivial=False)

    # ---------------- R14: every traversal of the serialization direction sees the serialized methods
    ctx.rule("C17.R14", "the object hooks of the serialization direction agree on the children of an object: the schema builder and the method visitor visit the return type of every serialized method, so do the pass counting references and the recursion analysis (otherwise a type reached only through a serialized method is inlined twice, or a recursion through it never ends)", floor=4)
    SIBS = [("apischema.json_schema.schema.SerializationSchemaBuilder", ["properties", "object"], "schema builder"),
            ("apischema.serialization.SerializationMethodVisitor", ["object"], "method visitor"),
            ("apischema.json_schema.refs.SerializationRefsExtractor", ["object"], "reference counter"),
            ("apischema.recursion.SerializationRecursiveChecker", ["object"], "recursion analysis")]
    for cq, hooks, what in SIBS:
        cls_ = model.cls(cq)
        found = None
        for h in hooks:
            m_ = cls_.methods.get(h)
            if m_ is None:
                continue
            for c in ast.walk(m_.node):
                if isinstance(c, ast.Call) and (dotted(c.func) or "").split(".")[-1] == "get_serialized_methods":
                    found = m_
        visits = False
        if found is not None:
            ret_locals = {norm(a.targets[0]) for a in ast.walk(found.node) if isinstance(a, ast.Assign) and "['return']" in norm(a.value)}
            visits = any(isinstance(c, ast.Call) and norm(c.func) == "self.visit_with_conv" and len(c.args) == 2 and ("['return']" in norm(c.args[0]) or norm(c.args[0]) in ret_locals) and norm(c.args[1]).endswith(".conversion") for c in ast.walk(found.node))
        ctx.check(found is not None and visits, "C17.R14", f"{cq}:serialized-methods", None,
                  f"the {what} of the serialization direction does not visit the return types of the serialized methods (with their conversion) while its siblings do: " + ("serialization_schema of a class whose serialized method returns List['Node'] recurses for ever (RecursionError) and a type used by a field and a serialized method is inlined twice with all_refs=False" if "refs" in cq else "serialize() of a class recursive through a serialized method overflows the stack while building its method" if "recursion" in cq else "serialized methods are missing"),
                  found or cls_.methods.get(hooks[-1]), (found or cls_.methods.get(hooks[-1]) or cls_).node if (found or cls_.methods.get(hooks[-1])) else None, detail="for serialized, types in get_serialized_methods(tp): self.visit_with_conv(types['return'], serialized.conversion)")

    # ---------------- R13: optional components of the listed entries are per entry
    ctx.rule("C17.R13", "in a loop over entries that may be `(type, conversion)` pairs, a variable filled from the entry under a condition is reset at the start of every iteration: the conversion of one entry never applies to the entries listed after it", floor=1)
    n13 = 0

    def names13(t):
        return {x.id for x in ast.walk(t) if isinstance(x, ast.Name)}
    for fi in list(model.functions.values()):
        if not fi.module.name.startswith("apischema.json_schema"):
            continue
        for loop in walk_no_nested(fi.node):
            if not isinstance(loop, ast.For):
                continue
            elt = names13(loop.target)
            first_uncond = {}
            for idx, st in enumerate(loop.body):
                if isinstance(st, (ast.Assign, ast.AnnAssign)) and getattr(st, "value", None) is not None:
                    for t in (st.targets if isinstance(st, ast.Assign) else [st.target]):
                        for nm in names13(t):
                            first_uncond.setdefault(nm, idx)
                if isinstance(st, ast.If):
                    else_assigned = {nm for x in st.orelse for sub2 in ast.walk(x) if isinstance(sub2, ast.Assign) for t2 in sub2.targets for nm in names13(t2)}
                    for sub in st.body:
                        if not (isinstance(sub, ast.Assign) and names13(sub.value) & elt):
                            continue
                        for t in sub.targets:
                            for nm in sorted(names13(t) - elt - names13(sub.value)):
                                if not any(nm in names13(x) for x in loop.body[idx + 1:]):
                                    continue
                                n13 += 1
                                ctx.check((nm in first_uncond and first_uncond[nm] < idx) or nm in else_assigned, "C17.R13", f"{fi.qualname}:{nm}", None,
                                          f"`{nm}` is only assigned under `if {short(st.test, 40)}` and used afterwards in the loop: for an entry that does not satisfy the test it still holds the value taken from a previous entry - definitions_schema([(A, conv), B]) visits B with A's conversion, B's own name is never recorded and `$ref`s to it dangle",
                                          fi, sub, detail=f"`{nm} = ...` unconditionally before the conditional assignment")
    ctx.require(n13 >= 1, "no loop over (type, conversion) entries found in apischema.json_schema (_extract_refs vanished?)")


def mutants(mb):
    mb.add_text("ref-not-escaped", "apischema/json_schema/versions.py", '    return lambda ref: prefix + ref.replace("~", "~0").replace("/", "~1")\n', "    return lambda ref: prefix + ref\n", "C17.R17", "escape")
    mb.add_text("ref-escaped-wrong-order", "apischema/json_schema/versions.py", '    return lambda ref: prefix + ref.replace("~", "~0").replace("/", "~1")\n', '    return lambda ref: prefix + ref.replace("/", "~1").replace("~", "~0")\n', "C17.R17", "escape")
    mb.add_text("mapping-value-keeps-ignore-flag", "apischema/json_schema/schema.py", "            self._ignore_first_ref = False\n            value = self.visit(value_type)\n", "            value = self.visit(value_type)\n", "C17.R15", "mapping")
    mb.add_text("discriminated-parent-counted-once", "apischema/json_schema/refs.py", "            for _ in range(2):  # ensure ref count > 1\n                self._incr_ref(get_type_name(parent).json_schema, parent)\n", "            self._incr_ref(get_type_name(parent).json_schema, parent)\n", "C17.R16", "parent-count")
    mb.add_text("refs-skip-serialized-methods", "apischema/json_schema/refs.py", "        # serialized methods are properties of the schema too\n        for serialized, types in get_serialized_methods(tp):\n            self.visit_with_conv(types[\"return\"], serialized.conversion)\n", "", "C17.R14", "SerializationRefsExtractor")
    mb.add_text("recursion-skips-serialized-methods", "apischema/recursion.py", "        # the results of serialized methods are part of the serialized object\n        for serialized, types in get_serialized_methods(tp):\n            self.visit_with_conv(types[\"return\"], serialized.conversion)\n", "", "C17.R14", "SerializationRecursiveChecker")
    mb.add_text("conversion-loop-carried", "apischema/json_schema/schema.py", "    for tp in types:\n        conversion = None\n        if isinstance(tp, tuple):", "    conversion = None\n    for tp in types:\n        if isinstance(tp, tuple):", "C17.R13", "_extract_refs")
    mb.add_text("neg-conversion-else-branch", "apischema/json_schema/schema.py", "        conversion = None\n        if isinstance(tp, tuple):\n            tp, conversion = tp\n", "        if isinstance(tp, tuple):\n            tp, conversion = tp\n        else:\n            conversion = None\n", negative=True)
    mb.add_text("type-list-with-duplicates", "apischema/json_schema/schema.py", "            return json_schema(type=list(dict.fromkeys(types)))\n", "            return json_schema(type=list(types))\n", "C17.R12", "type-list")
    mb.add_text("compare-schemas-zip-truncates", "apischema/json_schema/schema.py", "        if not isinstance(read, Sequence) or len(write) != len(read):\n            raise ValueError\n        return [compare_schemas(write[i], read[i]) for i in range(len(write))]", "        if not isinstance(read, Sequence):\n            raise ValueError\n        return [compare_schemas(w, r) for w, r in zip(write, read)]", "C17.R11", "sequence-length")
    mb.add_text("compare-schemas-leaf-accepts", "apischema/json_schema/schema.py", "        if not write == read:\n            raise ValueError\n        return write", "        return write", "C17.R11", "leaf")
    mb.add_text("parent-self-reference", "apischema/json_schema/schema.py", "            if discriminator_parent is not cls:\n                discriminator_ref = self.ref_schema(\n                    get_type_name(discriminator_parent).json_schema\n                )\n                assert discriminator_ref is not None\n                result.append(discriminator_ref)\n", "            discriminator_ref = self.ref_schema(\n                get_type_name(discriminator_parent).json_schema\n            )\n            assert discriminator_ref is not None\n            result.append(discriminator_ref)\n", "C17.R10", "discriminator_ref")
    R = "apischema/json_schema/refs.py"
    S = "apischema/json_schema/schema.py"
    V = "apischema/json_schema/versions.py"
    mb.add_text("extractor-skips-parent", R, "        if parent := get_discriminated_parent(get_origin_or_type(tp)):\n            # the schema of a child always refers to the one of its parent\n            for _ in range(2):  # ensure ref count > 1\n                self._incr_ref(get_type_name(parent).json_schema, parent)\n", "", "C17.R", "object")
    mb.add_text("builder-ref-by-graphql-name", S, "                ref_schema = self.ref_schema(get_type_name(ref_tp).json_schema)", "                ref_schema = self.ref_schema(get_type_name(ref_tp).graphql)", "C17.R1", "visit_conversion")
    mb.add_text("builder-dynamic-refs", S, "        schema = None\n        if not dynamic:\n            for ref_tp in self.resolve_conversion(tp):", "        schema = None\n        if True:\n            for ref_tp in self.resolve_conversion(tp):", "C17.R1", "not-dynamic")
    mb.add_text("union-counted-once", R, "        super().union(types)\n        if get_inherited_discriminator(types):\n            # Visit one more time discriminated union in order to ensure ref count > 1\n            super().union(types)", "        super().union(types)", "C17.R1", "union")
    mb.add_text("clash-not-refused", R, "            if replace_builtins(ref_cls) != replace_builtins(tp):\n                raise ValueError(\n                    f\"Types {tp} and {self.refs[ref][0]} share same reference '{ref}'\"\n                )\n", "", "C17.R2", "_incr_ref")
    mb.add_text("second-writer", R, "    def object(self, tp: AnyType, fields: Sequence[ObjectField]):\n        if parent :=", "    def object(self, tp: AnyType, fields: Sequence[ObjectField]):\n        self.refs[str(tp)] = (tp, 1)\n        if parent :=", "C17.R2", "object")
    mb.add_text("ref-without-membership", S, "        if ref not in self.refs:\n            return None\n        elif self._ignore_first_ref:", "        if ref is None:\n            return None\n        elif self._ignore_first_ref:", "C17.R3", "ref_schema")
    mb.add_text("defs-crossed-args", S, "        _extract_refs(types, default_conversion, builder, all_refs),\n        ref_factory,\n        additional_properties,", "        _extract_refs(types, default_conversion, builder, all_refs),\n        additional_properties,\n        ref_factory,", "C17.R4", "_refs_schema")
    mb.add_text("guard-not-decremented", R, "        finally:\n            self._rec_guard[(tp, self._conversion)] -= 1", "        finally:\n            pass", "C17.R5", "visit_conversion")
    mb.add_text("guard-unbounded", R, "        if self._rec_guard[(tp, self._conversion)] > 2:\n            raise TypeError(\n                f\"Recursive type {tp} needs a ref. \"\n                \"You can supply one using the type_name() decorator.\"\n            )\n", "", "C17.R5", "visit_conversion")
    mb.add_text("uri-2019", V, '"http://json-schema.org/draft/2019-09/schema#"', '"http://json-schema.org/draft/2020-12/schema#"', "C17.R6", "DRAFT_2019_09")
    mb.add_text("all-refs-or", S, "    if all_refs is None:\n        all_refs = version.all_refs\n    return version, ref_factory, all_refs", "    return version, ref_factory, all_refs or version.all_refs", "C17.R7", "all_refs")
    mb.add_text("extractor-hook-missing", R, "    def tuple(self, types: Sequence[AnyType]):\n        for cls in types:\n            self.visit(cls)\n", "", "C17.R8", "tuple")
    mb.add_text("ignore-first-ref-leaks", S, "        with context_setter(self):\n            self._ignore_first_ref = True\n            key = self.visit(key_type)", "        self._ignore_first_ref = True\n        key = self.visit(key_type)", "C17.R9", "mapping")
    mb.add_text("neg-rename-ref-var", R, "                ref = annotation.to_type_name(tp).json_schema\n                if not isinstance(ref, str):\n                    continue", "                ref = annotation.to_type_name(tp).json_schema\n                if not isinstance(ref, str):\n                    continue\n                pass", negative=True)
