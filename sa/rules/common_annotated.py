"""Helpers applied to raw annotations (field types, parameter / return types), which may be wrapped in Annotated[...]:
their structural inspection goes through the Annotated-transparent accessors (no_annotated / get_origin_or_type2 /
get_args2 / get_origin2), never through the plain ones."""
import ast

from ..util import dotted, norm, short, walk_no_nested

PLAIN = {"get_origin_or_type", "get_args", "get_origin"}
TRANSPARENT = {"get_origin_or_type2", "get_args2", "get_origin2", "no_annotated"}
# helpers of apischema.utils that are handed raw annotations by their callers
RAW_HELPERS = ["apischema.utils.is_union_of"]


def annotated_transparency_rule(ctx, rule):
    model = ctx.model
    for q in RAW_HELPERS:
        fi = model.func(q)
        p0 = fi.params[0]
        n_inspect = 0
        for c in walk_no_nested(fi.node):
            if isinstance(c, ast.Call) and (dotted(c.func) or "") in PLAIN | TRANSPARENT and c.args and norm(c.args[0]) == p0:
                n_inspect += 1
                ok = dotted(c.func) in TRANSPARENT
                ctx.check(ok, rule, f"{q}:{dotted(c.func)}({p0})", None,
                          f"`{short(c, 40)}` inspects the raw annotation without looking through Annotated: for `Annotated[Optional[int], schema(...)]` (a field type, a resolver parameter) {fi.name} answers False - the GraphQL argument is published nullable while the resolver wrapper treats it as required, an Undefined / None field is not recognised as omittable",
                          fi, c, detail="get_origin_or_type2 / get_args2 (Annotated-transparent)")
        ctx.require(n_inspect >= 2, f"{q}: structural inspections of `{p0}` not found")
    # the transparent accessors themselves strip Annotated
    for name in ("get_origin_or_type2", "get_args2", "get_origin2"):
        fi = model.func(f"apischema.utils.{name}")
        ctx.check("no_annotated(" in norm(fi.node), rule, f"apischema.utils.{name}", None, f"{name} no longer strips Annotated before inspecting the type", fi, fi.node, detail="no_annotated(tp)")
    na = model.func("apischema.utils.no_annotated")
    ctx.check("is_annotated(tp)" in norm(na.node) and "get_args(tp)[0]" in norm(na.node), rule, na.qualname, None, "no_annotated no longer returns the first argument of an Annotated type", na, na.node, detail="get_args(tp)[0] if is_annotated(tp) else tp")
