"""Name / alias domains. A field has a Python name (keys of object_fields(), attributes, validator dependencies)
and an external alias (keys of the data, of error children, of schemas). Containers keyed by one domain must not be
looked up with a key of the other; the two are only compared on the same field (`f.alias == f.name`)."""
import ast
from collections import defaultdict

from ..util import dotted, norm, short, walk_no_nested

NAME, ALIAS = "name", "alias"
NAME_VARS = {"name", "field_name"}
NAME_KEYED_CALLS = {"object_fields"}


def _domain(e, env):
    if isinstance(e, ast.Attribute):
        if e.attr == "alias":
            return ALIAS
        if e.attr == "name" and isinstance(e.value, ast.Name) and ("field" in e.value.id or e.value.id in ("f", "f2")):
            return NAME
        return None
    if isinstance(e, ast.Name):
        if e.id in env:
            return env[e.id]
        if e.id == "alias" or e.id.endswith("_alias"):
            return ALIAS
        if e.id in NAME_VARS:
            return NAME
        return None
    if isinstance(e, ast.Call):
        f = dotted(e.func) or ""
        if f.split(".")[-1] == "aliaser" and e.args:
            return ALIAS
        if f.split(".")[-1] == "get_field_name":
            return NAME
    return None


def _base(e):
    return norm(e.value) if isinstance(e, ast.Attribute) else None


def name_alias_domains_rule(ctx, rule, prefixes, what="field"):
    model = ctx.model
    n_sites = 0
    for fi in list(model.functions.values()):
        if not fi.module.name.startswith(prefixes) or fi.parent is not None:
            continue
        env = {}
        fixed = {}
        nodes = list(ast.walk(fi.node))
        for n in nodes:
            if isinstance(n, ast.Assign) and len(n.targets) == 1 and isinstance(n.targets[0], ast.Name):
                d = _domain(n.value, {})
                if d is not None:
                    env[n.targets[0].id] = d
                if isinstance(n.value, ast.Call) and (dotted(n.value.func) or "").split(".")[-1] in NAME_KEYED_CALLS:
                    fixed[n.targets[0].id] = NAME
            if isinstance(n, (ast.For, ast.comprehension)):
                it, tg = n.iter, n.target
                if isinstance(tg, ast.Name) and isinstance(it, ast.Attribute) and it.attr in ("aliases", "all_aliases"):
                    env[tg.id] = ALIAS
        uses = defaultdict(list)   # container text -> [(domain, node, kind)]

        def container_of(c):
            if isinstance(c, ast.Call) and (dotted(c.func) or "").split(".")[-1] in NAME_KEYED_CALLS:
                return "object_fields(...)", NAME
            if isinstance(c, ast.Name):
                return c.id, fixed.get(c.id)
            if isinstance(c, ast.Attribute):
                return norm(c), None
            return None, None

        for n in nodes:
            pairs = []
            if isinstance(n, ast.Compare) and len(n.ops) == 1:
                op, l, r = n.ops[0], n.left, n.comparators[0]
                if isinstance(op, (ast.In, ast.NotIn)):
                    pairs.append((r, l, "membership"))
                elif isinstance(op, (ast.Eq, ast.NotEq)):
                    dl, dr = _domain(l, env), _domain(r, env)
                    if dl and dr:
                        n_sites += 1
                        same = _base(l) is not None and _base(l) == _base(r)
                        ctx.check(dl == dr or same, rule, f"{fi.qualname}:compare", n,
                                  f"`{short(n, 60)}` compares a Python {what} name with an external alias: they differ as soon as the {what} is aliased", fi, n, detail=f"{dl} vs {dr}")
            elif isinstance(n, ast.Subscript):
                pairs.append((n.value, n.slice, "subscript"))
            elif isinstance(n, ast.Call) and isinstance(n.func, ast.Attribute) and n.func.attr in ("get", "pop", "setdefault") and n.args:
                pairs.append((n.func.value, n.args[0], n.func.attr))
            elif isinstance(n, ast.Call) and dotted(n.func) == "set_child_error" and len(n.args) >= 2:
                pairs.append((n.args[0], n.args[1], "set_child_error"))
            for c, k, kind in pairs:
                cname, fx = container_of(c)
                d = _domain(k, env)
                if cname is None or d is None:
                    continue
                if fx is not None:
                    n_sites += 1
                    ctx.check(d == fx, rule, f"{fi.qualname}:{cname}[{norm(k)}]", None,
                              f"`{short(n, 60)}`: {cname} is keyed by Python {what} names, `{norm(k)}` is an external alias: an aliased {what} (alias != name) is never found", fi, n, detail=f"{fx}-keyed container, {d} key")
                else:
                    uses[cname].append((d, n, k))
        for cname, us in sorted(uses.items()):
            doms = {d for d, _, _ in us}
            n_sites += len(us)
            if len(doms) > 1:
                cnt = {d: sum(1 for x, _, _ in us if x == d) for d in doms}
                major = max(sorted(doms), key=lambda d: cnt[d])
                if cnt[NAME] == cnt[ALIAS]:
                    major = ALIAS if any(isinstance(n, ast.Call) for d, n, _ in us if d == ALIAS) else major
                for d, n, k in us:
                    if d != major:
                        ctx.fail(rule, f"{fi.qualname}:{cname}[{norm(k)}]", None,
                                 f"`{short(n, 60)}`: `{cname}` is keyed by {major} everywhere else in this function, `{norm(k)}` is a {d}: the lookup misses as soon as the {what}'s alias differs from its name",
                                 fi.module.relpath, n.lineno)
            else:
                ctx.ok(rule, f"{fi.qualname}:{cname}", f"{len(us)} lookup(s), all by {next(iter(doms))}", True, f"{fi.module.relpath}:{us[0][1].lineno}")
    return n_sites
