"""Build-time name tables: a name taken from `get_dependent_required(cls)` is looked
up in a per-operation table (`{f.name: ... for f in fields}`) only under a
membership guard.

`fields` holds the fields of ONE operation (those skipped for it are absent) while
dependent_required names any field of the class: an unguarded `table[name]` raises
KeyError out of deserialize() / *_schema() for a supported class.

Flow facts are syntactic and local to the consumer function:
  table       name bound to a dict comprehension ranging over the `fields` parameter,
              or to `<table>.__getitem__`
  raw         get_dependent_required(...)                (keys and values unfiltered)
  filtered    a dict comprehension over raw.items() whose `if` tests `k in table`
              (keys filtered) and whose value comprehension tests `x in table`
              (values filtered)
A lookup `table[k]`, `getter(k)`, `map(getter, seq)`, `sorted(seq, key=getter)` is
discharged when k / the elements of seq come from a filtered position, or when the
reach condition of the site contains `k in table` (sa.pathcond, guard clauses and
comprehension filters included). defaultdict tables (`requiring[...]`) are not tables.
"""
import ast
from typing import Dict, Optional, Set

from ..model import AnalysisError
from ..pathcond import parents_of, path_condition
from ..util import dotted, norm, short

SOURCE = "get_dependent_required"


def consumers(model):
    out = []
    for fi in model.functions.values():
        if fi.module.name.endswith("dependencies"):
            continue
        for c in ast.walk(fi.node):
            if isinstance(c, ast.Call) and (dotted(c.func) or "").split(".")[-1] == SOURCE:
                if fi not in out and not any(fi.node is not o.node and fi.node in ast.walk(o.node) for o in out):
                    out.append(fi)
    # keep innermost-free list: drop functions nested in another listed one
    return [f for f in out if not any(f is not g and f.node in list(ast.walk(g.node))[1:] for g in out)]


class Flow:
    def __init__(self, fn):
        self.fn = fn
        self.parents = parents_of(fn)
        self.tables: Set[str] = set()
        self.getters: Dict[str, str] = {}
        self.filtered: Dict[str, tuple] = {}  # name -> (table, keys_ok, values_ok)
        self.raw_names: Set[str] = set()
        for a in ast.walk(fn):
            if isinstance(a, ast.Assign) and len(a.targets) == 1 and isinstance(a.targets[0], ast.Name):
                t, v = a.targets[0].id, a.value
                getter = False
                if isinstance(v, ast.Attribute) and v.attr == "__getitem__":
                    v, getter = v.value, True
                if isinstance(v, ast.DictComp) and self._over_fields(v):
                    (self.getters.__setitem__(t, "<inline>") if getter else self.tables.add(t))
                elif getter and isinstance(v, ast.Name):
                    self.getters[t] = v.id
                elif isinstance(v, ast.Call) and (dotted(v.func) or "").split(".")[-1] == SOURCE:
                    self.raw_names.add(t)
        for a in ast.walk(fn):
            if isinstance(a, ast.Assign) and len(a.targets) == 1 and isinstance(a.targets[0], ast.Name) and isinstance(a.value, ast.DictComp):
                dc = a.value
                g = dc.generators[0]
                if self._is_raw_items(g.iter) and isinstance(g.target, ast.Tuple) and len(g.target.elts) == 2:
                    k, v = (norm(x) for x in g.target.elts)
                    tbl = None
                    keys_ok = False
                    for cond in g.ifs:
                        for cmp_ in ast.walk(cond):
                            if isinstance(cmp_, ast.Compare) and len(cmp_.ops) == 1 and isinstance(cmp_.ops[0], ast.In) and norm(cmp_.left) == k and norm(cmp_.comparators[0]) in self.tables and self._conjunct(cond, cmp_):
                                keys_ok, tbl = True, norm(cmp_.comparators[0])
                    vals_ok = False
                    val = dc.value
                    if isinstance(val, (ast.ListComp, ast.SetComp, ast.GeneratorExp)) and norm(val.generators[0].iter) == v:
                        x = norm(val.generators[0].target)
                        for cond0 in val.generators[0].ifs:
                            for cond in ast.walk(cond0):   # the membership test may be one conjunct of the filter
                                if isinstance(cond, ast.Compare) and len(cond.ops) == 1 and isinstance(cond.ops[0], ast.In) and norm(cond.left) == x and norm(cond.comparators[0]) in self.tables and norm(val.elt) == x and self._conjunct(cond0, cond):
                                    vals_ok, tbl = True, tbl or norm(cond.comparators[0])
                    self.filtered[a.targets[0].id] = (tbl, keys_ok, vals_ok)

        # the same table built by an explicit loop: `for k, v in raw.items(): ... D[k] = [x for x in v if x in table]` under `k in table`
        for loop in ast.walk(fn):
            if not (isinstance(loop, ast.For) and self._is_raw_items(loop.iter) and isinstance(loop.target, ast.Tuple) and len(loop.target.elts) == 2):
                continue
            k, v = (norm(x) for x in loop.target.elts)
            for a in ast.walk(loop):
                if not (isinstance(a, ast.Assign) and len(a.targets) == 1 and isinstance(a.targets[0], ast.Subscript) and isinstance(a.targets[0].value, ast.Name) and norm(a.targets[0].slice) == k):
                    continue
                keys_ok = self.guarded(a.targets[0].slice, a, self.tables)
                val = a.value
                if isinstance(val, ast.Name):
                    defs = [d for d in ast.walk(loop) if isinstance(d, ast.Assign) and len(d.targets) == 1 and isinstance(d.targets[0], ast.Name) and d.targets[0].id == val.id] + \
                           [d for d in ast.walk(loop) if isinstance(d, ast.NamedExpr) and d.target.id == val.id]
                    val = defs[0].value if len(defs) == 1 else val
                vals_ok, tbl = False, None
                if isinstance(val, (ast.ListComp, ast.SetComp, ast.GeneratorExp)) and norm(val.generators[0].iter) == v:
                    x = norm(val.generators[0].target)
                    for cond0 in val.generators[0].ifs:
                        for cond in ast.walk(cond0):
                            if isinstance(cond, ast.Compare) and len(cond.ops) == 1 and isinstance(cond.ops[0], ast.In) and norm(cond.left) == x and norm(cond.comparators[0]) in self.tables and norm(val.elt) == x and self._conjunct(cond0, cond):
                                vals_ok, tbl = True, norm(cond.comparators[0])
                prev = self.filtered.get(a.targets[0].value.id)
                if prev is not None:      # several stores: all of them must be filtered
                    keys_ok, vals_ok = keys_ok and prev[1], vals_ok and prev[2]
                self.filtered[a.targets[0].value.id] = (tbl, keys_ok, vals_ok)

    @staticmethod
    def _conjunct(cond, part) -> bool:
        if cond is part:
            return True
        return isinstance(cond, ast.BoolOp) and isinstance(cond.op, ast.And) and any(Flow._conjunct(v, part) for v in cond.values)

    def _over_fields(self, dc: ast.DictComp) -> bool:
        it = dc.generators[0].iter
        return isinstance(it, ast.Name) and it.id == "fields" and isinstance(dc.key, ast.Attribute) and dc.key.attr == "name"

    def _is_raw_items(self, it) -> bool:
        if isinstance(it, ast.Call) and isinstance(it.func, ast.Attribute) and it.func.attr == "items":
            b = it.func.value
            return (isinstance(b, ast.Call) and (dotted(b.func) or "").split(".")[-1] == SOURCE) or (isinstance(b, ast.Name) and b.id in self.raw_names)
        return False

    def binding_of(self, name: str, at: ast.AST):
        """(iterable expr, position) of the innermost enclosing loop / comprehension binding `name`."""
        p = self.parents.get(at)
        child = at
        while p is not None:
            gens = []
            if isinstance(p, ast.For):
                gens = [(p.target, p.iter)]
            elif isinstance(p, (ast.ListComp, ast.SetComp, ast.DictComp, ast.GeneratorExp)):
                gens = [(g.target, g.iter) for g in p.generators]
            for tg, it in gens:
                if isinstance(tg, ast.Name) and tg.id == name:
                    return it, None
                if isinstance(tg, ast.Tuple):
                    for i, e in enumerate(tg.elts):
                        if isinstance(e, ast.Name) and e.id == name:
                            return it, i
            child, p = p, self.parents.get(p)
        return None, None

    def origin(self, e, at, depth=0) -> str:
        """'safe' | 'raw' | 'other' for the names produced by expression e (a name or a sequence of names)"""
        if depth > 6:
            return "other"
        if isinstance(e, ast.Call) and dotted(e.func) in ("sorted", "list", "tuple", "set", "reversed") and e.args:
            return self.origin(e.args[0], at, depth + 1)
        if isinstance(e, ast.Name):
            if e.id in self.filtered:
                return "safe" if self.filtered[e.id][1] else "raw"  # iterating a dict yields its keys
            if e.id in self.raw_names:
                return "raw"
            it, pos = self.binding_of(e.id, at)
            if it is None:
                return "other"
            if self._is_raw_items(it):
                return "raw"
            if isinstance(it, ast.Call) and isinstance(it.func, ast.Attribute) and it.func.attr == "items" and isinstance(it.func.value, ast.Name) and it.func.value.id in self.filtered:
                _, k_ok, v_ok = self.filtered[it.func.value.id]
                return "safe" if (k_ok if pos == 0 else v_ok) else "raw"
            o = self.origin(it, at, depth + 1)
            return o
        if isinstance(e, ast.Subscript) and isinstance(e.value, ast.Name):
            if e.value.id in self.filtered:
                return "safe" if self.filtered[e.value.id][2] else "raw"
            if e.value.id in self.raw_names:
                return "raw"
        if isinstance(e, ast.Call) and (dotted(e.func) or "").split(".")[-1] == SOURCE:
            return "raw"
        return "other"

    def guarded(self, key, site, table_names) -> bool:
        cond = path_condition(self.fn, site, self.parents)
        k = norm(key)
        for c in ast.walk(cond):
            if isinstance(c, ast.Compare) and len(c.ops) == 1 and isinstance(c.ops[0], ast.In) and norm(c.left) == k and norm(c.comparators[0]) in table_names:
                # must be a positive conjunct: check it is not under a Not
                neg = any(isinstance(u, ast.UnaryOp) and isinstance(u.op, ast.Not) and c in ast.walk(u) for u in ast.walk(cond))
                if not neg:
                    return True
            if isinstance(c, ast.UnaryOp) and isinstance(c.op, ast.Not) and isinstance(c.operand, ast.Compare) and isinstance(c.operand.ops[0], ast.NotIn) and norm(c.operand.left) == k and norm(c.operand.comparators[0]) in table_names:
                return True
        return False


def nametable_rule(ctx, rule: str):
    model = ctx.model
    cons = consumers(model)
    if len(cons) < 2:
        ctx.undecided(rule, f"only {len(cons)} consumer(s) of {SOURCE} found (expected the deserialization and the JSON-schema object() hooks): names may reach a table through a helper this rule does not follow")
    for fi in cons:
        fl = Flow(fi.node)
        tnames = set(fl.tables)
        sites = 0
        for n in ast.walk(fi.node):
            key = seq = None
            if isinstance(n, ast.Subscript) and isinstance(n.ctx, ast.Load) and isinstance(n.value, ast.Name) and n.value.id in fl.tables:
                key = n.slice
            elif isinstance(n, ast.Call) and isinstance(n.func, ast.Name) and n.func.id in fl.getters and n.args:
                key = n.args[0]
            elif isinstance(n, ast.Call) and dotted(n.func) == "map" and len(n.args) == 2 and isinstance(n.args[0], ast.Name) and n.args[0].id in fl.getters:
                seq = n.args[1]
            elif isinstance(n, ast.Call) and dotted(n.func) in ("sorted", "min", "max") and n.args and any(k.arg == "key" and isinstance(k.value, ast.Name) and k.value.id in fl.getters for k in n.keywords):
                seq = n.args[0]
            if key is None and seq is None:
                continue
            e = key if key is not None else seq
            o = fl.origin(e, n)
            if o == "other":
                continue  # not a dependent_required name (e.g. the table's own fields)
            sites += 1
            ok = o == "safe" or (key is not None and fl.guarded(key, n, tnames | set(fl.getters.values())))
            ctx.check(ok, rule, f"{fi.qualname}:{norm(e)[:40]}", n,
                      f"`{short(n, 60)}`: a field name taken from dependent_required is looked up in the table of this operation's fields without a membership guard: KeyError when that field is skipped for the operation",
                      fi, n, detail="name filtered by `in <table>` before the lookup")
        ctx.check(sites > 0, rule, f"{fi.qualname}:sites", fi.node.body[0], f"no lookup of a dependent_required name found in {fi.qualname}: the flow model no longer matches", fi, fi.node, nontrivial=False)
