"""C14 - coercion only widens acceptance, per the documented table.

Decides the shape of coerce and of the nodes that call a coercer: conforming data
pass through unchanged, only primitive targets convert, the boolean word table
equals the documented one, coercer results are re-checked, every coercion failure
is a ValidationError. Monotonicity over all types and data is not decided.
"""
import ast
import os
import re

from ..escape import TOP, T, Analyzer
from ..model import AnalysisError
from ..nodes import DESER_MOD
from ..util import dotted, norm, short, walk_no_nested

COERCION = "apischema.deserialization.coercion"


def if_chain(fn):
    """[(test, body)] of the top-level if / elif chain of a function, plus the else body."""
    top = [s for s in fn.body if isinstance(s, ast.If)]
    if len(top) != 1:
        raise AnalysisError("coerce() is no longer a single if / elif chain")
    out, cur = [], top[0]
    while True:
        out.append((cur.test, cur.body))
        if len(cur.orelse) == 1 and isinstance(cur.orelse[0], ast.If):
            cur = cur.orelse[0]
        else:
            return out, cur.orelse


def _split_target_conjunctions(fn):
    """`elif cls is str and <guard>: A  else: R`  is read as  `elif cls is str: (if <guard>: A else: R)  else: R` (the same
    function): the table of targets is keyed by the test of `cls` alone."""
    import copy
    for n in ast.walk(fn):
        if isinstance(n, ast.If) and isinstance(n.test, ast.BoolOp) and isinstance(n.test.op, ast.And) and n.orelse \
                and norm(n.test.values[0]).startswith(("cls is ", "cls in ")) and not (len(n.orelse) == 1 and isinstance(n.orelse[0], ast.If)):
            rest = n.test.values[1:]
            guard = rest[0] if len(rest) == 1 else ast.copy_location(ast.BoolOp(op=ast.And(), values=rest), n.test)
            inner = ast.copy_location(ast.If(test=guard, body=n.body, orelse=copy.deepcopy(n.orelse)), n)
            n.test = n.test.values[0]
            n.body = [inner]
            ast.fix_missing_locations(n)


def check(ctx):
    model = ctx.model
    ctx.explanations.append(
        "C14: decided - in coerce() the `isinstance(data, cls)` identity branch precedes every converting branch (R1); the "
        "converting branches are exactly bool / (int, float) / str / NoneType and everything else raises bad_type (R2); the "
        "boolean word table in the source equals the table of docs/de_serialization.md, keys lower-cased on insertion and "
        "lookup, '' is the only None word (R3); coercer results are re-checked: CoercerMethod passes them to the inner method, "
        "LiteralMethod looks them up, OptionalMethod accepts only `is None` (R4); coerce() leaks no other exception (R5 = "
        "escape analysis of C03 on coerce). Not decided: monotonicity of acceptance over all types, union strategy changes."
    )
    co = model.func(f"{COERCION}.coerce")
    ctx.require(co.params[:2] == ["cls", "data"], "coerce signature changed")
    _split_target_conjunctions(co.node)
    chain, orelse = if_chain(co.node)
    tests = [norm(t) for t, _ in chain]

    ctx.rule("C14.R1", "strict-conforming data is returned unchanged before any conversion is attempted", floor=1)
    idx = [i for i, t in enumerate(tests) if t == "isinstance(data, cls)"]
    ok = bool(idx)
    if ok:
        i = idx[0]
        body = chain[i][1]
        ok = len(body) == 1 and isinstance(body[0], ast.Return) and norm(body[0].value) == "data"
        # every branch before it must not convert (only the NoneType branch, which has no identity case)
        before = tests[:i]
        ok = ok and all(t == "cls is NoneType" for t in before)
    ctx.check(ok, "C14.R1", co.qualname, chain[0][0], f"the identity branch `isinstance(data, cls): return data` does not come first (branches: {tests}): data accepted in strict mode could be converted", co, co.node, detail="isinstance(data, cls) -> return data precedes conversions")

    ctx.rule("C14.R2", "only the documented primitive targets convert; anything else raises bad_type", floor=2)
    allowed = {"cls is NoneType", "isinstance(data, cls)", "cls is bool", "cls in (int, float)", "cls is str"}
    extra = [t for t in tests if t not in allowed]
    ctx.check(not extra, "C14.R2", co.qualname + ":branches", chain[0][0], f"coerce() has converting branches outside the documented table: {extra}", co, co.node, detail=str(tests))
    ok = len(orelse) == 1 and isinstance(orelse[0], ast.Raise) and "bad_type(data, cls)" in norm(orelse[0])
    ctx.check(ok, "C14.R2", co.qualname + ":else", orelse[0] if orelse else co.node, "the final else of coerce() does not raise bad_type: unknown targets would be accepted", co, co.node, detail="else: raise bad_type(data, cls)")
    # str target: only numbers (not bool) convert
    for t, body in chain:
        if norm(t) == "cls is str":
            ok = any(isinstance(s, ast.If) and norm(s.test) == "isinstance(data, (int, float)) and (not isinstance(data, bool))" for s in body)
            ctx.check(ok, "C14.R2", co.qualname + ":str", t, "str coercion is no longer restricted to int / float (bool excluded)", co, t, detail="isinstance(data, (int, float)) and not isinstance(data, bool)")
        if norm(t) == "cls is bool":
            txt = norm(ast.Module(body=body, type_ignores=[]))
            ok = "isinstance(data, str)" in txt and "isinstance(data, int)" in txt and ("bad_type(data, cls)" in txt or "bad_type(data, bool)" in txt)   # cls is bool here
            ctx.check(ok, "C14.R2", co.qualname + ":bool", t, "bool coercion must accept only words (str) and integers", co, t, detail="str -> table, int -> bool(), else bad_type")

    # per-target accept-sets: which classes of datum can reach a (non-identity) return of each branch
    from ..escape import _Run
    run = _Run(Analyzer(model), co, {"cls": T, "data": TOP}, {}, 0)
    run.run()
    want = {"cls is NoneType": {"none", "str"}, "cls is bool": {"str", "int", "bool"}, "cls is str": {"int", "float"}}
    parents = {c: p for p in ast.walk(co.node) for c in ast.iter_child_nodes(p)}
    got = {}
    for ret, env in run.returns:
        if norm(ret.value) == "data":
            continue  # identity branch
        p_, child, branch = parents.get(ret), ret, None
        while p_ is not None and p_ is not co.node:
            if isinstance(p_, ast.If) and norm(p_.test) in tests and any(child is s_ or any(child is x for x in ast.walk(s_)) for s_ in p_.body):
                branch = norm(p_.test)
            child = p_
            p_ = parents.get(p_)
        v = env.get("data")
        if branch and v is not None and v.kind == "I":
            got.setdefault(branch, set()).update(v.types - {"disc"})
    # numbers: int() / float() of strings and numbers; which other classes they refuse is left to the constructors
    # (TypeError -> bad_type), but a boolean must never get there: float(True) == 1.0 (bool is not a number for JSON)
    gnum = got.get("cls in (int, float)", set())
    nnode = [t for t, _ in chain if norm(t) == "cls in (int, float)"]
    ctx.check({"str", "int", "float"} <= gnum and "bool" not in gnum, "C14.R2", f"{co.qualname}:accepts[cls in (int, float)]", None,
              f"under `cls in (int, float)` data of classes {sorted(gnum)} reach `cls(data)`: " + ("a boolean is converted to a number (deserialize(float, True, coerce=True) == 1.0, while strict mode and the str / int targets refuse booleans)" if "bool" in gnum else "strings or numbers no longer convert"),
              co, nnode[0] if nnode else co.node, detail="str / int / float reach cls(data); bool does not")
    for branch, tags in want.items():
        g = got.get(branch, set())
        node = [t for t, _ in chain if norm(t) == branch]
        ctx.check(g == tags, "C14.R2", f"{co.qualname}:accepts[{branch}]", node[0] if node else co.node,
                  f"under `{branch}` coerce() converts data of classes {sorted(g)} but the documented table allows {sorted(tags)}: {sorted(g ^ tags)} is converted / rejected against the table",
                  co, node[0] if node else co.node, detail=f"{branch}: {sorted(tags)}")

    ctx.rule("C14.R3", "boolean word table == documented table; case-insensitive both ways; '' is the only None word", floor=3)
    pairs = model.module_value(COERCION, "_bool_pairs")
    ctx.require(isinstance(pairs, ast.Tuple), "_bool_pairs is not a tuple literal")
    src_pairs = []
    for e in pairs.elts:
        ctx.require(isinstance(e, ast.Tuple) and len(e.elts) == 2 and all(isinstance(x, ast.Constant) for x in e.elts), "_bool_pairs row is not a pair of literals")
        src_pairs.append((e.elts[0].value, e.elts[1].value))
    doc = os.path.join(model.root, "docs", "de_serialization.md")
    if not os.path.exists(doc):
        raise AnalysisError("docs/de_serialization.md not found: the documented coercion table cannot be read")
    lines = open(doc, encoding="utf8").read().splitlines()
    doc_pairs, in_table = [], False
    for i, line in enumerate(lines):
        if re.match(r"^\|\s*False\s*\|\s*True\s*\|", line):
            in_table = True
            continue
        if in_table:
            if re.match(r"^\|\s*-+", line):
                continue
            m = re.match(r"^\|\s*(\S+)\s*\|\s*(\S+)\s*\|", line)
            if not m:
                break
            doc_pairs.append((m.group(1), m.group(2)))
    if not doc_pairs:
        raise AnalysisError("the `| False | True |` table was not found in docs/de_serialization.md")
    ctx.check(sorted(src_pairs) == sorted(doc_pairs), "C14.R3", f"{COERCION}._bool_pairs", pairs,
              f"boolean words differ from the documented table: only in source {sorted(set(src_pairs) - set(doc_pairs))}, only in docs {sorted(set(doc_pairs) - set(src_pairs))}", None, None, detail=f"{len(src_pairs)} rows equal")
    if sorted(src_pairs) != sorted(doc_pairs):
        ctx.findings[-1].file, ctx.findings[-1].line = "apischema/deserialization/coercion.py", pairs.lineno
    cm = model.mod(COERCION)
    fill = norm(cm.tree)
    ctx.check("STR_TO_BOOL[s.lower()] = value" in fill and "STR_TO_BOOL[data.lower()]" in norm(co.node), "C14.R3", f"{COERCION}:lowercase", None, "word table is not lower-cased on both insertion and lookup (case-insensitivity is documented)", None, None, detail="s.lower() / data.lower()")
    nv = model.module_value(COERCION, "STR_NONE_VALUES")
    ctx.check(isinstance(nv, ast.Set) and [getattr(e, "value", None) for e in nv.elts] == [""], "C14.R3", f"{COERCION}.STR_NONE_VALUES", nv, "STR_NONE_VALUES must be {''} (the only documented None word)", None, None, detail="{''}")

    ctx.rule("C14.R4", "the result of a coercer is re-checked by the node that asked for it", floor=3)
    cm_ = model.func(f"{DESER_MOD}.CoercerMethod.deserialize")
    ok = any(isinstance(n, ast.Return) and norm(n.value) == "self.method.deserialize(self.coercer(self.cls, data))" for n in walk_no_nested(cm_.node))
    ctx.check(ok, "C14.R4", cm_.qualname, cm_.node.body[0], "CoercerMethod no longer passes the coercer's result to the inner (type-checking) method", cm_, cm_.node, detail="self.method.deserialize(self.coercer(self.cls, data))")
    lm = model.func(f"{DESER_MOD}.LiteralMethod.deserialize")
    coer_calls = [n for n in walk_no_nested(lm.node) if isinstance(n, ast.Call) and norm(n.func) == "self.coercer"]
    parents = {c: p for p in ast.walk(lm.node) for c in ast.iter_child_nodes(p)}
    def only_a_key(c):
        """the coercer's result is used only inside the key of a value_map lookup (directly or through one local)"""
        def in_key(n):
            p = parents.get(n)
            while p is not None:
                if isinstance(p, ast.Subscript) and norm(p.value) == "self.value_map" and n is not p.value:
                    return True
                n, p = p, parents.get(p)
            return False
        p = parents.get(c)
        if isinstance(p, ast.Assign) and len(p.targets) == 1 and isinstance(p.targets[0], ast.Name):
            loc = p.targets[0].id
            loads = [x for x in ast.walk(lm.node) if isinstance(x, ast.Name) and x.id == loc and isinstance(x.ctx, ast.Load)]
            return bool(loads) and all(in_key(x) for x in loads)
        return in_key(c)
    ok = bool(coer_calls) and all(only_a_key(c) for c in coer_calls)
    ctx.check(ok, "C14.R4", lm.qualname, coer_calls[0] if coer_calls else lm.node, "LiteralMethod uses a coerced value otherwise than as a key of value_map: a coerced value that is not a member would be accepted", lm, lm.node, detail="self.value_map[... self.coercer(cls, data) ...]")
    # ... and the key carries the runtime kind of the coerced value itself (the only type check a literal has)
    for c in coer_calls:
        p = parents.get(c)
        vtext = p.targets[0].id if isinstance(p, ast.Assign) and len(p.targets) == 1 and isinstance(p.targets[0], ast.Name) else norm(c)
        for sub in ast.walk(lm.node):
            if isinstance(sub, ast.Subscript) and norm(sub.value) == "self.value_map" and any(norm(x) == vtext for x in ast.walk(sub.slice)):
                k = sub.slice
                ok = isinstance(k, ast.Tuple) and len(k.elts) == 2 and norm(k.elts[1]) == vtext and norm(k.elts[0]) == f"isinstance({vtext}, bool)"
                ctx.check(ok, "C14.R4", f"{lm.qualname}:coerced-key", None,
                          f"`{short(sub, 60)}`: the coerced value is looked up under a kind that is not computed from the value itself: the default coercer returns True unchanged when asked for int (True is an int), a custom coercer may return 1 when asked for bool - the wrong-typed result is then accepted (Literal[1] / an Enum of value 1 accept true under coerce=True)",
                          lm, sub, detail=f"self.value_map[isinstance({vtext}, bool), {vtext}]")
    om = model.func(f"{DESER_MOD}.OptionalMethod.deserialize")
    coer_calls = [n for n in walk_no_nested(om.node) if isinstance(n, ast.Call) and norm(n.func) == "self.coercer"]
    parents = {c: p for p in ast.walk(om.node) for c in ast.iter_child_nodes(p)}
    ok = bool(coer_calls)
    for c in coer_calls:
        p = parents.get(c)
        ok = ok and isinstance(p, ast.Compare) and isinstance(p.ops[0], ast.Is) and isinstance(p.comparators[0], ast.Constant) and p.comparators[0].value is None and norm(c.args[0]) == "NoneType"
    ctx.check(ok, "C14.R4", om.qualname, coer_calls[0] if coer_calls else om.node,
              "OptionalMethod accepts the datum as None without testing that the coercer's result `is None`: a custom coercer returning its input unchanged makes any rejected datum None", om, om.node, detail="self.coercer(NoneType, data) is None")
    # no node returns a coercer result directly
    from ..nodes import deser_nodes, own_methods
    for m in own_methods(deser_nodes(model)):
        for n in walk_no_nested(m.node):
            if isinstance(n, ast.Return) and isinstance(n.value, ast.Call) and norm(n.value.func) == "self.coercer":
                ctx.fail("C14.R4", m.qualname, n, "a node returns the coercer's result without any check", m.module.relpath, n.lineno)

    ctx.rule("C14.R6", "a coercer is consulted exactly when one is configured, after the strict attempt failed; Optional accepts None only for None or a datum the coercer maps to None", floor=3)
    from ..boolx import BoolEval, Unknown, show, valuations
    from ..pathcond import HANDLER, complements, parents_of, path_condition
    atoms6 = complements({"self.coercer is not None": "has_coercer", "self.coercer": "has_coercer", "data is None": "data_none", HANDLER: "failed",
                          "self.coercer(NoneType, data) is None": "coerced_none"})
    for m in own_methods(deser_nodes(model)):
        sites = [n for n in ast.walk(m.node) if isinstance(n, ast.Call) and norm(n.func) == "self.coercer"]
        if not sites:
            continue
        has_optional_attr = "Optional" in norm(m.cls.annotations.get("coercer", ast.Constant(value=""))) if m.cls is not None else False
        pm = parents_of(m.node)
        ev6 = BoolEval(atoms6)
        for c in sites:
            construct = f"{m.qualname}:coercer-call"
            if not has_optional_attr:
                ctx.ok("C14.R6", construct, "the coercer attribute is not Optional: the node is only built when a coercer is configured", where=m.loc)
                continue
            try:
                got = ev6.compile(path_condition(m.node, c, pm))
                vals = list(valuations(["has_coercer", "data_none", "failed", "coerced_none"]))
                without = [v for v in vals if not v["has_coercer"] and got(v)]
                strict_first = [v for v in vals if got(v) and not v["failed"]]
                reachable = [v for v in vals if got(v)]
            except Unknown as err:
                ctx.undecided("C14.R6", f"{construct}: {err}")
                continue
            ctx.check(not without and not strict_first and bool(reachable), "C14.R6", construct, c,
                      f"`{short(c, 50)}` is " + ("reached although no coercer is configured (None is called: TypeError, or swallowed by the handler: coercion silently disabled)" if without else "consulted before the strict attempt failed" if strict_first else "unreachable: coercion is disabled"),
                      m, c, detail="reached iff coercer configured and strict attempt failed")
    # every type of the literal values is tried: a failure of the coercer for one type does not abort the loop
    for t_ in ast.walk(lm.node):
        if isinstance(t_, ast.Try) and any(isinstance(c_, ast.Call) and norm(c_.func) == "self.coercer" for s_ in t_.body for c_ in ast.walk(s_)):
            names_ = {n_.split(".")[-1] for h_ in t_.handlers if h_.type is not None for n_ in ([norm(x) for x in h_.type.elts] if isinstance(h_.type, ast.Tuple) else [norm(h_.type)])}
            swallow = all(all(isinstance(b_, (ast.Pass, ast.Continue)) for b_ in h_.body) for h_ in t_.handlers)
            ctx.check({"KeyError", "TypeError", "ValidationError"} <= names_ and swallow, "C14.R6", f"{lm.qualname}:retry-handler", t_.handlers[0] if t_.handlers else t_,
                      f"the coercion retry of LiteralMethod catches {sorted(names_)}: the coercer signals an impossible conversion with ValidationError (bad_type), a value absent from the table gives KeyError and an unhashable result TypeError; a missing class aborts the loop before the other literal types are tried (Literal[1, True] from 'yes')", lm, t_, detail="except (KeyError, TypeError, ValidationError): try next type")
    om6 = model.func(f"{DESER_MOD}.OptionalMethod.deserialize")
    pm = parents_of(om6.node)
    ev6 = BoolEval(atoms6)
    rets = [r for r in ast.walk(om6.node) if isinstance(r, ast.Return) and isinstance(r.value, ast.Constant) and r.value.value is None]
    try:
        fs = [ev6.compile(path_condition(om6.node, r, pm)) for r in rets]
        bad = next((v for v in valuations(["has_coercer", "data_none", "failed", "coerced_none"], lambda v: not (v["data_none"] and v["failed"]))
                    if any(f(v) for f in fs) != bool(v["data_none"] or (v["failed"] and v["has_coercer"] and v["coerced_none"]))), None)
        ctx.check(bool(rets) and bad is None, "C14.R6", f"{om6.qualname}:returns-None", rets[0] if rets else om6.node.body[0],
                  f"Optional returns None under [{show(bad) if bad else ''}]: None must be produced only for None, or for a rejected datum that the configured coercer maps to None", om6, rets[0] if rets else om6.node, detail="data is None or (strict failed and coercer and coerced is None)")
    except Unknown as err:
        ctx.undecided("C14.R6", f"{om6.qualname}: {err}")

    ctx.rule("C14.R5", "every coercion failure is a ValidationError (escape analysis of coerce)", floor=1)
    an = Analyzer(model)
    ret, escaping, reports = an.analyse(co, {"cls": T, "data": TOP})
    ctx.check(not escaping, "C14.R5", co.qualname, escaping[0].node if escaping else None,
              (f"{', '.join(sorted(escaping[0].excs))} can escape coerce(): {escaping[0].msg}") if escaping else "", co, escaping[0].node if escaping else co.node, detail="no hazard escapes")


def mutants(mb):
    mb.add_text("bool-to-float", "apischema/deserialization/coercion.py", "        if isinstance(data, bool):  # a boolean is not a number (True would give 1.0)\n            raise bad_type(data, cls)\n", "", "C14.R2", "accepts[cls in (int, float)]")
    mb.add_text("literal-coerced-kind-from-request", "apischema/deserialization/methods.py", "                        coerced = self.coercer(cls, data)\n                        return self.value_map[isinstance(coerced, bool), coerced]\n", "                        return self.value_map[cls is bool, self.coercer(cls, data)]\n", "C14.R4", "coerced-key")
    mb.add_text("literal-retry-aborts-on-coercer-error", "apischema/deserialization/methods.py", "                    except (KeyError, TypeError, ValidationError):\n", "                    except (KeyError, TypeError):\n", "C14.R6", "retry-handler")
    mb.add_text("literal-coercer-guard-flipped", "apischema/deserialization/methods.py", "        except KeyError:\n            if self.coercer is not None:\n", "        except KeyError:\n            if self.coercer is None:\n", "C14.R6", "LiteralMethod")
    mb.add_text("optional-coercer-guard-inverted", "apischema/deserialization/methods.py", "            if self.coercer is not None:\n                try:\n                    if self.coercer(NoneType, data) is None:", "            if self.coercer is None:\n                try:\n                    if self.coercer(NoneType, data) is None:", "C14.R", "OptionalMethod", analysis_error_ok=True)
    mb.add_text("optional-none-for-any-failure", "apischema/deserialization/methods.py", "                    if self.coercer(NoneType, data) is None:\n                        return None\n", "                    return None\n", "C14.R", "OptionalMethod")
    C = "apischema/deserialization/coercion.py"
    M = "apischema/deserialization/methods.py"
    mb.add_text("identity-after-bool", C, "    elif isinstance(data, cls):\n        return data\n    elif cls is bool:", "    elif cls is bool and not isinstance(data, bool):", "C14.R1", "coerce")
    mb.add_text("list-branch", C, "    elif cls is str:\n        if isinstance(data, (int, float))", "    elif cls is list:\n        return [data]  # type: ignore\n    elif cls is str:\n        if isinstance(data, (int, float))", "C14.R2", "coerce")
    mb.add_text("else-returns", C, "    else:\n        raise bad_type(data, cls)\n\n\nCoerce", "    else:\n        return data\n\n\nCoerce", "C14.R2", "else")
    mb.add_text("str-from-bool", C, "        if isinstance(data, (int, float)) and not isinstance(data, bool):\n            try:", "        if isinstance(data, (int, float)):\n            try:", "C14.R2", "str")
    mb.add_text("none-branch-negated", C, "if data is None or (isinstance(data, str) and data in STR_NONE_VALUES):", "if data is not None or (isinstance(data, str) and data in STR_NONE_VALUES):", "C14.R2", "NoneType")
    mb.add_text("bool-from-anything", C, "        elif isinstance(data, int):\n            return bool(data)  # type: ignore", "        elif not isinstance(data, int):\n            return bool(data)  # type: ignore", "C14.R2", "bool")
    mb.add_text("extra-bool-word", C, '    ("ko", "ok"),\n', '    ("ko", "ok"),\n    ("nope", "yep"),\n', "C14.R3", "_bool_pairs")
    mb.add_text("case-sensitive-lookup", C, "return STR_TO_BOOL[data.lower()]", "return STR_TO_BOOL[data]", "C14.R3", "lowercase")
    mb.add_text("none-words", C, 'STR_NONE_VALUES = {""}', 'STR_NONE_VALUES = {"", "null", "none"}', "C14.R3", "STR_NONE_VALUES")
    mb.add_text("coercer-result-unchecked", M, "        return self.method.deserialize(self.coercer(self.cls, data))", "        return self.coercer(self.cls, data)", "C14.R4", "CoercerMethod")
    mb.add_text("optional-any-result", M, "                    if self.coercer(NoneType, data) is None:\n                        return None\n", "                    self.coercer(NoneType, data)\n                    return None\n", "C14.R4", "OptionalMethod")
    mb.add_text("coerce-leaks", C, "        except (ValueError, TypeError, OverflowError):", "        except ValueError:", "C14.R5", "coerce")
    mb.add_text("neg-blank-line", C, "    elif isinstance(data, cls):\n        return data\n", "    elif isinstance(data, cls):\n        # already of the right type\n        return data\n", negative=True)
