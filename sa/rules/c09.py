"""C09 - cached methods never go stale across configuration histories.

Decides: for every piece of mutable configuration state that code running under a
registered cache can read, every program point that can mutate it reaches
cache.reset(). Per writer, hence for all histories at once.
"""
import ast
from typing import Dict, List, Optional, Set, Tuple

from ..callgraph import CallGraph
from ..cfg import CFG, describe_path
from ..model import AnalysisError, FuncInfo
from ..scope import Env, local_bindings
from ..util import dotted, norm, short, walk_no_nested

CACHE_MOD = "apischema.cache"
RESET = "apischema.cache.reset"
CACHE_DECO = "apischema.cache.cache"
WRAPPER = "apischema.cache.CacheAwareDict"
SETTINGS = "apischema.settings.settings"
RESET_META = "apischema.settings.ResetCache"

MUTATING = {
    "append", "add", "update", "pop", "clear", "setdefault", "sort", "insert", "extend",
    "remove", "discard", "popitem", "__setitem__", "__delitem__", "difference_update",
    "intersection_update", "symmetric_difference_update", "appendleft", "reverse",
}
# collections.abc.MutableMapping mixin methods and the primitive they reduce to
MIXIN_REDUCTION = {
    "pop": "__delitem__", "popitem": "__delitem__", "clear": "__delitem__",
    "update": "__setitem__", "setdefault": "__setitem__",
}
COPIES = {"list", "dict", "set", "tuple", "frozenset", "sorted", "copy", "deepcopy"}

# lru_cache applications that are deliberately not registered with @cache; one symbol each
LRU_EXCEPTIONS = {
    "apischema.deserialization.DeserializationMethodFactory._method":
        "keyed by the frozen factory object whose `factory` field is a closure created by each "
        "compilation: after reset() the registered factories are recomputed, giving fresh keys "
        "(side conditions checked by C09.R5b)",
    "apischema.conversions.conversions.LazyConversion.__post_init__":
        "memoises the user's lazy conversion thunk, per LazyConversion instance, by documented design",
}


# plain containers that are not configuration; one symbol each
PLAIN_EXCEPTIONS = {
    "apischema.cache._cached": "the registry of caches itself - what reset() iterates; its discipline is rule C09.R6",
}


def is_reset_call(env: Env, node) -> bool:
    return isinstance(node, ast.Call) and env.resolve(node.func) == RESET


def node_has(cfgnode, pred) -> bool:
    a = cfgnode.ast
    if a is None:
        return False
    if cfgnode.kind == "iter":
        roots = [a.iter]
    elif cfgnode.kind == "with":
        roots = [i.context_expr for i in a.items]
    elif cfgnode.kind == "handler":
        return False
    else:
        roots = [a]
    for r in roots:
        if isinstance(r, (ast.FunctionDef, ast.AsyncFunctionDef, ast.ClassDef)):
            continue
        if pred(r):
            return True
        for n in walk_no_nested(r, include_lambda=False):
            if pred(n):
                return True
    return False


def all_paths_pass(cfg: CFG, start, pred) -> Optional[list]:
    """None if every normal path start -> exit passes a node satisfying pred
    (start included), else a counter-example path."""
    if node_has(start, pred):
        return None
    return cfg.path_avoiding(start, {cfg.exit}, lambda n: node_has(n, pred), labels_excluded={"exc"})


# ---------------------------------------------------------------------------

def discover(model):
    wrapped, plain = {}, {}
    for mod in model.modules.values():
        for name, sts in mod.assigns.items():
            v = sts[-1].value
            if v is None:
                continue
            if isinstance(v, ast.Call):
                q = model.resolve_dotted(mod, dotted(v.func) or "")
                cn = (dotted(v.func) or "").split(".")[-1]
                if q == WRAPPER:
                    wrapped[f"{mod.name}.{name}"] = (mod, sts[-1])
                elif cn in ("dict", "list", "set", "defaultdict", "OrderedDict", "deque", "WeakKeyDictionary", "WeakValueDictionary", "Counter"):
                    plain[f"{mod.name}.{name}"] = (mod, sts[-1])
            elif isinstance(v, (ast.Dict, ast.List, ast.Set, ast.DictComp, ast.ListComp, ast.SetComp)):
                plain[f"{mod.name}.{name}"] = (mod, sts[-1])
    return wrapped, plain


def derived_from(expr, env: Env, targets: Set[str], aliases: Dict[str, str]) -> Optional[str]:
    """If `expr` denotes (by alias, not copy) a value stored inside one of the
    `targets` containers, return that container's qualified name."""
    e = expr
    while True:
        if isinstance(e, ast.Subscript):
            q = env.resolve(e.value)
            if q in targets:
                return q
            e = e.value
            continue
        if isinstance(e, ast.Call) and isinstance(e.func, ast.Attribute):
            if e.func.attr in ("get", "setdefault", "pop", "values", "items", "__getitem__"):
                q = env.resolve(e.func.value)
                if q in targets:
                    return q
                e = e.func.value
                continue
            return None
        if isinstance(e, ast.Name):
            return aliases.get(e.id)
        if isinstance(e, ast.Attribute):
            e = e.value
            continue
        return None


def is_copy(expr) -> bool:
    if isinstance(expr, ast.Call):
        cn = (dotted(expr.func) or "").split(".")[-1]
        return cn in COPIES
    return isinstance(expr, (ast.List, ast.Dict, ast.Set, ast.Tuple, ast.ListComp, ast.DictComp, ast.SetComp, ast.BinOp))


def check(ctx):
    model = ctx.model
    cg = CallGraph(model)
    ctx.explanations.append(
        "C09: effect analysis over the resolved call graph. CACHED = functions registered with @cache plus everything "
        "reachable from them; CONFIG = module-level mutable containers and the settings namespaces read inside CACHED. "
        "Decided: every writer of CONFIG reaches cache.reset() on every path (R1 wrapper primitives, R2 no in-place "
        "write around the wrapper, R3 no unwrapped registry, R4 settings namespaces reset through their metaclass, "
        "R5 every lru_cache is registered / owned / a named exception, R6 reset() clears exactly what cache() registers). "
        "Not decided: typing's conflation of Union[A,B]/Union[B,A] in cache keys; equality with a cold start as a value."
    )

    # ---- roots
    roots = [f.qualname for f in model.functions.values()
             if any(model.resolve_dotted(f.module, d) == CACHE_DECO for d in f.decorators)]
    ctx.rule("C09.R0", "functions registered with @cache (roots of CACHED)", floor=6)
    for r in roots:
        ctx.ok("C09.R0", r, "registered cache", nontrivial=False, where=model.functions[r].loc)
    prev = cg.reachable(roots)
    cached = set(prev)
    ctx.extra["cached_functions"] = len(cached)
    ctx.extra["call_edges_resolved"] = cg.resolved
    ctx.extra["calls_unresolved"] = cg.unresolved

    wrapped, plain = discover(model)
    ctx.require(len(wrapped) >= 8, f"only {len(wrapped)} CacheAwareDict registries found")
    envs: Dict[str, Env] = {}

    def env_of(fi):
        if fi.qualname not in envs:
            envs[fi.qualname] = Env(model, fi)
        return envs[fi.qualname]

    # ---- R1: the wrapper resets on every mutating primitive
    ctx.rule("C09.R1", "CacheAwareDict: every mutating primitive passes through reset() on all normal paths", floor=2)
    wcls = model.cls(WRAPPER)
    ctx.require("MutableMapping" in " ".join(wcls.raw_bases), "CacheAwareDict no longer derives from MutableMapping: mixin reduction table invalid")
    for prim in ("__setitem__", "__delitem__"):
        m = wcls.methods.get(prim)
        if m is None:
            ctx.fail("C09.R1", f"{WRAPPER}.{prim}", None, f"{prim} is not defined in CacheAwareDict", wcls.module.relpath, wcls.node.lineno)
            continue
        env = env_of(m)
        cfg = CFG(m.node, exc_edges=False)
        bad = all_paths_pass(cfg, cfg.entry, lambda n: is_reset_call(env, n))
        ctx.check(bad is None, "C09.R1", f"{WRAPPER}.{prim}", m.node.body[-1],
                  f"a path through {prim} reaches its normal exit without calling cache.reset(): "
                  f"{'registrations' if prim == '__setitem__' else 'removals (pop / del / clear, e.g. reset_deserializers, set_object_fields(cls, None))'} leave cached methods stale",
                  m, m.node, path=describe_path(bad) if bad else None)
    for name, m in wcls.methods.items():
        if name in MIXIN_REDUCTION or name in ("__ior__",):
            env = env_of(m)
            cfg = CFG(m.node, exc_edges=False)

            def resets_or_delegates(n, env=env):
                if is_reset_call(env, n):
                    return True
                # self[k] = v / del self[k]
                if isinstance(n, ast.Subscript) and isinstance(n.ctx, (ast.Store, ast.Del)) and isinstance(n.value, ast.Name) and n.value.id == "self":
                    return True
                return False
            bad = all_paths_pass(cfg, cfg.entry, resets_or_delegates)
            ctx.check(bad is None, "C09.R1", f"{WRAPPER}.{name}", m.node.body[-1],
                      f"override of mixin {name} neither resets nor goes through self[...]", m, m.node,
                      path=describe_path(bad) if bad else None)

    # ---- R6: reset() clears what cache() registers
    ctx.rule("C09.R6", "cache() registers exactly the lru-wrapped callable it returns; reset() clears every registered one", floor=2)
    fcache = model.func(CACHE_DECO)
    freset = model.func(RESET)
    appended, returned, lru_bound = set(), set(), set()
    for n in walk_no_nested(fcache.node):
        if isinstance(n, ast.Call) and dotted(n.func) == "_cached.append" and n.args and isinstance(n.args[0], ast.Name):
            appended.add(n.args[0].id)
        if isinstance(n, ast.Return) and isinstance(n.value, ast.Name):
            returned.add(n.value.id)
        if isinstance(n, ast.Assign) and any("lru_cache" in (dotted(c.func) or "") for c in ast.walk(n.value) if isinstance(c, ast.Call)):
            for t in n.targets:
                if isinstance(t, ast.Name):
                    lru_bound.add(t.id)
    okc = bool(appended) and appended == returned and appended <= lru_bound
    ctx.check(okc, "C09.R6", CACHE_DECO, fcache.node.body[-1],
              f"cache() must append to _cached the same lru_cache-wrapped object it returns (appended={sorted(appended)}, returned={sorted(returned)}, lru-bound={sorted(lru_bound)})",
              fcache, fcache.node)
    okr = False
    for n in walk_no_nested(freset.node):
        if isinstance(n, ast.For) and dotted(n.iter) == "_cached" and isinstance(n.target, ast.Name):
            body_calls = [c for s in n.body for c in ast.walk(s) if isinstance(c, ast.Call)]
            unconditional = all(isinstance(s, ast.Expr) for s in n.body)
            if unconditional and any(dotted(c.func) == f"{n.target.id}.cache_clear" for c in body_calls):
                okr = True
    # the loop must be reached unconditionally
    top_level_for = any(isinstance(s, ast.For) and dotted(s.iter) == "_cached" for s in freset.node.body)
    ctx.check(okr and top_level_for, "C09.R6", RESET, freset.node.body[-1],
              "reset() must unconditionally call cache_clear() on every element of _cached", freset, freset.node)

    # ---- scan every function once: reads / writes of containers, settings reads, lru sites
    container_q = set(wrapped) | set(plain)
    reads_in_cached: Dict[str, List[Tuple[FuncInfo, ast.AST]]] = {}
    settings_reads: Dict[str, List[Tuple[FuncInfo, ast.AST]]] = {}
    settings_cls = model.cls(SETTINGS)
    nested_ns = {c.name: c for c in model.classes.values() if c.qualname.startswith(SETTINGS + ".") and c.qualname.count(".") == SETTINGS.count(".") + 1}
    ctx.require(len(nested_ns) >= 4, f"settings namespaces not found ({sorted(nested_ns)})")

    ctx.rule("C09.R2", "no in-place mutation of a value held by a CacheAwareDict registry without a following reset() / re-assignment through the wrapper", floor=1)
    ctx.rule("C09.R3", "every module-level plain container read under a cache and mutated inside a function resets on mutation", floor=1)
    ctx.rule("C09.R5", "every lru_cache application is registered with @cache, owned by a registered cache, or a named exception", floor=5)

    # module-level aliases such as `get_class_aliaser = _class_aliasers.get`
    alias_of: Dict[str, str] = {}
    for mod in model.modules.values():
        for name, sts in mod.assigns.items():
            v = sts[-1].value
            if isinstance(v, ast.Attribute):
                q = model.resolve_dotted(mod, dotted(v.value) or "")
                if q in container_q:
                    alias_of[f"{mod.name}.{name}"] = q

    plain_mutations: Dict[str, List[Tuple[FuncInfo, ast.AST, str]]] = {}
    r2_sites = 0
    lru_sites = []
    for fi in model.functions.values():
        env = env_of(fi)
        in_cached = fi.qualname in cached
        # local aliases of registry values
        aliases: Dict[str, str] = {}
        for n in walk_no_nested(fi.node):
            if isinstance(n, ast.Assign) and len(n.targets) == 1 and isinstance(n.targets[0], ast.Name) and not is_copy(n.value):
                q = derived_from(n.value, env, set(wrapped), aliases)
                if q:
                    aliases[n.targets[0].id] = q
            elif isinstance(n, ast.For) and isinstance(n.target, ast.Name) and not is_copy(n.iter):
                q = derived_from(n.iter, env, set(wrapped), aliases)
                if q:
                    aliases[n.target.id] = q
        cfg = None
        for n in walk_no_nested(fi.node, include_lambda=True):
            # reads
            if in_cached and isinstance(n, (ast.Name, ast.Attribute)) and isinstance(getattr(n, "ctx", None), ast.Load):
                q = env.resolve(n)
                q = alias_of.get(q, q)
                if q in container_q:
                    reads_in_cached.setdefault(q, []).append((fi, n))
            # settings reads (anywhere under CACHED)
            if in_cached and isinstance(n, ast.Attribute):
                text = dotted(n)
                if text:
                    parts = text.split(".")
                    q0 = env.resolve(ast.Name(id=parts[0], ctx=ast.Load()))
                    if q0 == SETTINGS and len(parts) >= 2:
                        ns = parts[1] if parts[1] in nested_ns else ""
                        if ns == "" or len(parts) >= 2:
                            settings_reads.setdefault(ns, []).append((fi, n))
            # lru_cache applications
            if isinstance(n, ast.Call):
                qf = env.resolve(n.func)
                if qf in ("functools.lru_cache", "functools.cache"):
                    lru_sites.append((fi, n, "call"))
            # mutations
            target_expr, what = None, None
            if isinstance(n, ast.Subscript) and isinstance(n.ctx, (ast.Store, ast.Del)):
                target_expr, what = n.value, "subscript store"
            elif isinstance(n, ast.Call) and isinstance(n.func, ast.Attribute) and n.func.attr in MUTATING:
                target_expr, what = n.func.value, f".{n.func.attr}()"
            if target_expr is None:
                continue
            direct = env.resolve(target_expr)
            if direct in plain:
                plain_mutations.setdefault(direct, []).append((fi, n, what))
                continue
            if direct in wrapped:
                continue  # through the wrapper: R1
            q = derived_from(target_expr, env, set(wrapped), aliases)
            if q is None:
                continue
            r2_sites += 1
            stmt = stmt_of(fi, n)
            if cfg is None:
                cfg = CFG(fi.node, exc_edges=False)
            start = cfg.stmt_node.get(stmt)
            if start is None:
                raise AnalysisError(f"cannot locate statement of in-place mutation in {fi.qualname}")

            def fixes(x, env=env, q=q):
                if is_reset_call(env, x):
                    return True
                return isinstance(x, ast.Subscript) and isinstance(x.ctx, ast.Store) and env.resolve(x.value) == q
            # the mutation statement itself does not count as the fix
            bad = cfg.path_avoiding(start, {cfg.exit}, lambda nd: node_has(nd, fixes), labels_excluded={"exc"})
            ctx.check(bad is None, "C09.R2", fi.qualname, stmt,
                      f"in-place {what} on a value obtained from registry {q} bypasses CacheAwareDict.__setitem__; no reset() / re-assignment follows on every path: cached methods keep the old registration",
                      fi, n, path=describe_path(bad) if bad else None)
        # decorators
        for d in fi.node.decorator_list:
            f = d.func if isinstance(d, ast.Call) else d
            penv = env_of(fi.parent) if fi.parent is not None else None
            q = (penv.resolve(f) if penv else model.resolve_dotted(fi.module, dotted(f) or ""))
            if q in ("functools.lru_cache", "functools.cache"):
                lru_sites.append((fi, d, "decorator"))
    # also through-the-wrapper sites count as R2 instances (they were examined)
    n_wrapper_writes = 0
    for fi in model.functions.values():
        env = env_of(fi)
        for n in walk_no_nested(fi.node, include_lambda=True):
            if isinstance(n, ast.Subscript) and isinstance(n.ctx, (ast.Store, ast.Del)) and env.resolve(n.value) in wrapped:
                n_wrapper_writes += 1
                ctx.ok("C09.R2", fi.qualname, f"write through the wrapper: {short(stmt_of(fi, n), 80)}", nontrivial=True, where=fi.loc)
            elif isinstance(n, ast.Call) and isinstance(n.func, ast.Attribute) and n.func.attr in MIXIN_REDUCTION and env.resolve(n.func.value) in wrapped:
                n_wrapper_writes += 1
                ctx.ok("C09.R2", fi.qualname, f"mixin .{n.func.attr}() reduces to {MIXIN_REDUCTION[n.func.attr]}: {short(stmt_of(fi, n), 80)}", nontrivial=True, where=fi.loc)
    ctx.extra["registry_writes_through_wrapper"] = n_wrapper_writes
    ctx.extra["registry_inplace_sites"] = r2_sites

    # ---- R3
    for q, (mod, st) in sorted(plain.items()):
        if q in PLAIN_EXCEPTIONS:
            ctx.ok("C09.R3", q, "named exception: " + PLAIN_EXCEPTIONS[q], nontrivial=False, where=mod.relpath)
            continue
        muts = plain_mutations.get(q, [])
        rd = reads_in_cached.get(q, [])
        if not muts or not rd:
            continue
        reader = rd[0][0]
        for fi, n, what in muts:
            env = env_of(fi)
            cfg = CFG(fi.node, exc_edges=False)
            stmt = stmt_of(fi, n)
            start = cfg.stmt_node.get(stmt)
            if start is None:
                raise AnalysisError(f"cannot locate mutation statement in {fi.qualname}")
            # memo idiom: a module-level memo keyed by its own function argument,
            # filled by the only function that reads it, is not configuration
            if fi.qualname == reader.qualname and all(r[0].qualname == fi.qualname for r in rd) and is_self_memo(fi, q, env):
                ctx.ok("C09.R3", q, f"self-memo of {fi.qualname} keyed by its parameter", where=fi.loc)
                continue
            bad = cfg.path_avoiding(start, {cfg.exit}, lambda nd: node_has(nd, lambda x: is_reset_call(env, x)), labels_excluded={"exc"})
            ctx.check(bad is None, "C09.R3", q, stmt,
                      f"plain module-level container {q} is read under a registered cache (e.g. in {reader.qualname}, reached via {' -> '.join(CallGraph.chain(prev, reader.qualname, 5))}) "
                      f"but {fi.qualname} mutates it ({what}) without a following cache.reset(): wrap it in CacheAwareDict or reset",
                      fi, n, path=describe_path(bad) if bad else None)
    for q in sorted(wrapped):
        ctx.ok("C09.R3", q, "wrapped in CacheAwareDict", nontrivial=False, where=wrapped[q][0].relpath)

    # ---- R4: settings namespaces
    ctx.rule("C09.R4", "every settings namespace read under a cache has a metaclass deriving from ResetCache, whose __setattr__ resets on all paths", floor=4)
    meta = model.cls(RESET_META)
    msa = meta.methods.get("__setattr__")
    if msa is None:
        ctx.fail("C09.R4", RESET_META, None, "ResetCache.__setattr__ not defined", meta.module.relpath, meta.node.lineno)
    else:
        env = env_of(msa)
        cfg = CFG(msa.node, exc_edges=False)
        bad = all_paths_pass(cfg, cfg.entry, lambda n: is_reset_call(env, n))
        ctx.check(bad is None, "C09.R4", f"{RESET_META}.__setattr__", msa.node.body[-1],
                  "ResetCache.__setattr__ can return without calling cache.reset()", msa, msa.node, path=describe_path(bad) if bad else None)
        sets = any(isinstance(n, ast.Call) and isinstance(n.func, ast.Attribute) and n.func.attr == "__setattr__" for n in walk_no_nested(msa.node))
        ctx.check(sets, "C09.R4", f"{RESET_META}.__setattr__", msa.node.body[0], "ResetCache.__setattr__ does not perform the assignment (super().__setattr__)", msa, msa.node)
    for ns, reads in sorted(settings_reads.items()):
        cls = nested_ns[ns] if ns else settings_cls
        mq = model.resolve_dotted(cls.module, cls.metaclass) if cls.metaclass else None
        ok = mq in model.classes and model.is_subclass(mq, RESET_META)
        fi, n = reads[0]
        ctx.check(ok, "C09.R4", cls.qualname, f"class {cls.name}(metaclass={cls.metaclass})",
                  f"settings namespace `{cls.qualname.split('settings.', 1)[1]}` is read under a registered cache "
                  f"({len(reads)} read(s), e.g. `{short(n, 60)}` in {fi.qualname} via {' -> '.join(CallGraph.chain(prev, fi.qualname, 4))}) "
                  f"but has no metaclass deriving from ResetCache: assigning one of its attributes leaves cached methods stale",
                  None, None, detail=f"{len(reads)} cached reads; metaclass {mq}")
        if not ok:
            ctx.findings[-1].file, ctx.findings[-1].line = cls.module.relpath, cls.node.lineno
    ctx.extra["settings_reads_in_cached"] = {k or "<top>": len(v) for k, v in settings_reads.items()}
    # metaclass property setters must assign through __setattr__
    for mcls in [model.classes[c] for c in model.subclasses(RESET_META)]:
        for m in mcls.methods.values():
            if any(d.endswith(".setter") for d in m.decorators):
                bypass = [n for n in walk_no_nested(m.node) if isinstance(n, ast.Attribute) and n.attr in ("__dict__", "__setattr__")]
                ctx.check(not bypass, "C09.R4", m.qualname, bypass[0] if bypass else None,
                          "settings property setter bypasses the resetting __setattr__", m, m.node)

    # ---- R5: lru_cache applications
    seen = set()
    for fi, node, how in lru_sites:
        site = fi.qualname
        if (site, node.lineno) in seen:
            continue
        seen.add((site, node.lineno))
        if how == "call":
            # `lru_cache()` inside `@lru_cache()` decorators are visited as decorators of the decorated function
            owner = fi.qualname
            if owner == CACHE_DECO:
                ctx.ok("C09.R5", owner, "the registering wrapper itself (R6)", where=fi.loc)
                continue
            if owner == f"{CACHE_MOD}.set_size":
                # the re-sized cache replaces the registered one for every later call: it must be registered too
                tgt = None
                for a_ in ast.walk(fi.node):
                    if isinstance(a_, ast.Assign) and any(node is x_ for x_ in ast.walk(a_.value)) and isinstance(a_.targets[0], ast.Name):
                        tgt = a_.targets[0].id
                registered = any(isinstance(c_, ast.Call) and norm(c_.func) in ("_cached.append", "_cached.insert") and c_.args and (norm(c_.args[-1]) == tgt or any(node is x_ for x_ in ast.walk(c_.args[-1]))) for c_ in ast.walk(fi.node)) \
                    or any(isinstance(a_, ast.Assign) and isinstance(a_.targets[0], ast.Subscript) and norm(a_.targets[0].value) == "_cached" and (norm(a_.value) == tgt or any(node is x_ for x_ in ast.walk(a_.value))) for a_ in ast.walk(fi.node))
                ctx.check(registered, "C09.R5", owner, node, "set_size creates new lru_cache objects and binds the cached functions to them without registering them in _cached: every later reset() (settings, registrations) clears the previous caches only, so methods compiled after set_size are never invalidated", fi, node, detail="_cached.append(<resized cache>)")
                continue
            # is this call a decorator of a nested function? then handled as decorator
            is_deco = any(node is d or node is getattr(d, "func", None) for g in fi.nested.values() for d in g.node.decorator_list)
            if is_deco:
                continue
            if owner in LRU_EXCEPTIONS:
                ctx.ok("C09.R5", owner, "named exception: " + LRU_EXCEPTIONS[owner], where=fi.loc)
                continue
            ctx.fail("C09.R5", owner, stmt_of(fi, node),
                     "lru_cache applied outside @cache: this memo is never cleared by cache.reset(), so configuration read under it goes stale",
                     fi.module.relpath, node.lineno)
        else:
            q = fi.qualname
            par = fi.parent
            if q in LRU_EXCEPTIONS:
                ctx.ok("C09.R5", q, "named exception: " + LRU_EXCEPTIONS[q], where=fi.loc)
                continue
            if par is not None and par.qualname in roots and returns_name(par.node, fi.name):
                ctx.ok("C09.R5", q, f"owned by registered cache {par.qualname} (returned from it; dropped when it is cleared)", where=fi.loc)
                continue
            ctx.fail("C09.R5", q, f"@{norm(node)} def {fi.name}",
                     f"{q} is memoised with lru_cache but not registered with @cache: cache.reset() (settings / registry changes) never clears it",
                     fi.module.relpath, fi.node.lineno)
    # R5b side conditions of the _method exception
    exc_q = "apischema.deserialization.DeserializationMethodFactory._method"
    if exc_q in model.functions:
        dmf = model.functions[exc_q].cls
        frozen = any(isinstance(d, ast.Call) and any(k.arg == "frozen" and getattr(k.value, "value", False) is True for k in d.keywords) for d in dmf.decorators)
        ctx.rule("C09.R5b", "side conditions of the DeserializationMethodFactory._method exception: frozen dataclass, constructed only with per-compilation closures", floor=3)
        ctx.check(frozen and "factory" in dmf.annotations, "C09.R5b", dmf.qualname, None,
                  "DeserializationMethodFactory must stay a frozen dataclass keyed by its `factory` closure", None, None)
        for fi in model.functions.values():
            for c in model.calls_in(fi):
                env = env_of(fi)
                if env.resolve(c.func) == dmf.qualname:
                    a0 = c.args[0] if c.args else None
                    closure = isinstance(a0, ast.Name) and (a0.id in fi.nested)
                    ctx.check(closure, "C09.R5b", fi.qualname, c,
                              "DeserializationMethodFactory built from something else than a closure created by this compilation: its lru_cache key could survive a reset",
                              fi, c)
    ctx.note("cache.set_size is not in the property's operation alphabet; since fix 1886c98 the re-sized caches are registered and R5 requires it")


    # ---------------- R7: a shared memo is selected by everything its content depends on
    ctx.rule("C09.R7", "the dictionary shared by the recursion checkers is selected by every parameter of the checker (class and default conversion): a verdict computed under one default conversion is never read under another one, whatever the order of the calls", floor=2)
    rc_init = model.func("apischema.recursion.RecursiveChecker.__init__")
    ir = model.func("apischema.recursion.is_recursive")
    rcache = model.func("apischema.recursion.recursion_cache")
    init_params_ = [p for p in rc_init.params if p != "self"]
    for fi, need in ((rc_init, init_params_), (ir, [p for p in ir.params if p in init_params_])):
        calls = [c for c in ast.walk(fi.node) if isinstance(c, ast.Call) and dotted(c.func) == "recursion_cache"]
        ctx.require(calls, f"{fi.qualname}: recursion_cache(...) call not found")
        for c in calls:
            given = {norm(a) for a in c.args} | {norm(k.value) for k in c.keywords}
            missing = [p for p in need if p not in given]
            ctx.check(not missing, "C09.R7", f"{fi.qualname}:recursion_cache", None,
                      f"`{short(c, 60)}` selects the shared verdicts without `{', '.join(missing)}`, although the traversal depends on it (a default conversion can turn a leaf into its parent): after serialize(Node, x) with the standard conversions, the same call with default_conversion=custom reuses `not recursive` and overflows the stack (RecursionError), whereas a cold start succeeds",
                      fi, c, detail=f"recursion_cache(<class>, {', '.join(need)})")
    ctx.check(len(rcache.params) >= 1 + len(init_params_), "C09.R7", f"{rcache.qualname}:key", None, "recursion_cache is keyed by fewer parameters than the checker has", rcache, rcache.node, detail="(checker class, default_conversion)", nontrivial=False)

def stmt_of(fi: FuncInfo, node) -> ast.AST:
    """Smallest statement of fi containing node."""
    best = None
    for st in ast.walk(fi.node):
        if isinstance(st, ast.stmt) and st is not fi.node:
            if st.lineno <= node.lineno <= (st.end_lineno or st.lineno):
                if any(n is node for n in ast.walk(st)):
                    if best is None or (st.end_lineno - st.lineno) <= (best.end_lineno - best.lineno):
                        if not isinstance(st, (ast.FunctionDef, ast.ClassDef)) or best is None:
                            best = st
    return best if best is not None else node


def returns_name(func, name: str) -> bool:
    return any(isinstance(n, ast.Return) and isinstance(n.value, ast.Name) and n.value.id == name for n in walk_no_nested(func))


def is_self_memo(fi: FuncInfo, q: str, env: Env) -> bool:
    """`if k not in MEMO: ... MEMO[k] = v; return MEMO[k]` with k a parameter."""
    params = set(fi.params)
    ok = False
    for n in walk_no_nested(fi.node):
        if isinstance(n, ast.Subscript) and env.resolve(n.value) == q:
            if isinstance(n.slice, ast.Name) and n.slice.id in params:
                ok = True
            else:
                return False
    return ok


# ---------------------------------------------------------------------------
FIXTURE = '''
from apischema.cache import CacheAwareDict, reset
_reg = CacheAwareDict({})
def register(owner, x):
    _reg[owner].append(x)
def register_ok(owner, x):
    _reg[owner].append(x)
    reset()
'''


def fixtures(ctx):
    """Positive fixture: the in-place rule must be able to fire."""
    import ast as _ast
    tree = _ast.parse(FIXTURE)
    funcs = {n.name: n for n in tree.body if isinstance(n, _ast.FunctionDef)}
    fired = {}
    for name, fn in funcs.items():
        cfg = CFG(fn, exc_edges=False)
        for n in ast.walk(fn):
            if isinstance(n, ast.Call) and isinstance(n.func, ast.Attribute) and n.func.attr == "append":
                st = [s for s in fn.body if any(x is n for x in ast.walk(s))][0]
                start = cfg.stmt_node[st]
                bad = cfg.path_avoiding(start, {cfg.exit}, lambda nd: node_has(nd, lambda x: isinstance(x, ast.Call) and dotted(x.func) == "reset"), labels_excluded={"exc"})
                fired[name] = bad is not None
    if fired != {"register": True, "register_ok": False}:
        raise AnalysisError(f"C09 positive fixture did not behave as expected: {fired}")


# ---------------------------------------------------------------------------
def mutants(mb):
    mb.add_text("recursion-cache-ignores-default-conversion", "apischema/recursion.py", "        self._cache = recursion_cache(self.__class__, default_conversion)\n", "        self._cache = recursion_cache(self.__class__, None)\n", "C09.R7", "RecursiveChecker.__init__")
    mb.add_text("set-size-unregistered", "apischema/cache.py", "        _cached.append(resized)\n", "", "C09.R5", "set_size")
    from ..selftest import find_func, first
    # R1
    mb.add_text("delitem-no-reset", "apischema/cache.py", "        del self.wrapped[key]\n        reset()\n", "        del self.wrapped[key]\n", "C09.R1", "__delitem__")
    mb.add_text("setitem-no-reset", "apischema/cache.py", "        self.wrapped[key] = value\n        reset()\n", "        self.wrapped[key] = value\n", "C09.R1", "__setitem__")
    mb.add_text("setitem-conditional-reset", "apischema/cache.py", "        self.wrapped[key] = value\n        reset()\n",
                "        changed = key not in self.wrapped\n        self.wrapped[key] = value\n        if changed:\n            reset()\n", "C09.R1", "__setitem__")
    # R2
    mb.add_text("validators-inplace", "apischema/validation/validators.py", "        _validators[owner] = [*_validators[owner], self]\n", "        _validators[owner].append(self)\n", "C09.R2", "Validator._register")
    mb.add_text("serialized-inplace", "apischema/serialization/serialized_methods.py", "        _serialized_methods[owner] = {\n            **_serialized_methods[owner],\n            alias2: SerializedMethod(\n                func, alias2, conversion, error_handler2, order, schema\n            ),\n        }\n",
                "        _serialized_methods[owner][alias2] = SerializedMethod(\n            func, alias2, conversion, error_handler2, order, schema\n        )\n", "C09.R2", "serialized")
    mb.add_text("dep-req-alias-inplace", "apischema/dependencies.py", "        dep_req = list(_dependent_requireds[owner])\n", "        dep_req = _dependent_requireds[owner]\n", None, "", negative=True)
    mb.add_text("dep-req-alias-inplace-noassign", "apischema/dependencies.py", "        _dependent_requireds[owner] = dep_req\n", "", None, "")
    mb.out[-1].new_src = mb.out[-1].new_src.replace("        dep_req = list(_dependent_requireds[owner])\n", "        dep_req = _dependent_requireds[owner]\n")
    mb.out[-1].rule, mb.out[-1].construct = "C09.R2", "dependent_required"
    mb.add_text("resolvers-inplace", "apischema/graphql/resolvers.py", "        _resolvers[owner] = {**_resolvers[owner], alias2: resolver}\n", "        _resolvers[owner][alias2] = resolver\n", "C09.R2", "resolver")
    # R3
    mb.add_text("schemas-unwrapped", "apischema/schemas.py", "_schemas: MutableMapping[Any, Schema] = CacheAwareDict({})\n", "_schemas: MutableMapping[Any, Schema] = {}\n", "C09.R3", "_schemas")
    mb.add_text("type-names-unwrapped", "apischema/type_names.py", '_type_names: MutableMapping[AnyType, "TypeNameFactory"] = CacheAwareDict({})', '_type_names: MutableMapping[AnyType, "TypeNameFactory"] = {}', "C09.R3", "_type_names")
    mb.add_text("fields-set-no-reset", "apischema/fields.py", "    _fields_set_classes.add(cls)\n    reset_cache()\n", "    _fields_set_classes.add(cls)\n", "C09.R3", "_fields_set_classes")
    mb.add_text("discriminators-unwrapped", "apischema/discriminators.py", "_discriminators: MutableMapping[type, Discriminator] = CacheAwareDict({})", "_discriminators: MutableMapping[type, Discriminator] = {}", "C09.R3", "_discriminators")
    # R4
    mb.add_text("errors-no-meta", "apischema/settings.py", "    class errors(metaclass=ResetCache):\n", "    class errors:\n", "C09.R4", "settings.errors")
    mb.add_text("base-schema-no-meta", "apischema/settings.py", "    class base_schema(metaclass=ResetCache):\n", "    class base_schema:\n", "C09.R4", "settings.base_schema")
    mb.add_text("deser-no-meta", "apischema/settings.py", "    class deserialization(metaclass=ResetCache):\n", "    class deserialization:\n", "C09.R4", "settings.deserialization")
    mb.add_text("meta-no-reset", "apischema/settings.py", "        super().__setattr__(name, value)\n        cache.reset()\n", "        super().__setattr__(name, value)\n", "C09.R4", "ResetCache.__setattr__")
    mb.add_text("meta-early-return", "apischema/settings.py", "        super().__setattr__(name, value)\n        cache.reset()\n",
                "        super().__setattr__(name, value)\n        if name.startswith('_'):\n            return\n        cache.reset()\n", "C09.R4", "ResetCache.__setattr__")
    # R5
    mb.add_text("lru-on-constraints-validators", "apischema/deserialization/__init__.py", "def constraints_validators(\n", "@lru_cache()\ndef constraints_validators(\n", "C09.R5", "constraints_validators")
    mb.add_text("lru-instead-of-cache", "apischema/objects/getters.py", "@cache\ndef object_fields(", "@lru_cache()\ndef object_fields(", "C09.R5", "object_fields")
    mb.out[-1].new_src = mb.out[-1].new_src.replace("from apischema.cache import cache\n", "from functools import lru_cache\nfrom apischema.cache import cache\n")
    mb.add_text("lru-on-get-schema", "apischema/schemas.py", "def get_schema(tp: AnyType) -> Optional[Schema]:\n", "@functools.lru_cache(maxsize=None)\ndef get_schema(tp: AnyType) -> Optional[Schema]:\n", "C09.R5", "get_schema")
    mb.out[-1].new_src = "import functools\n" + mb.out[-1].new_src
    # R6
    mb.add_text("cache-not-registered", "apischema/cache.py", "    _cached.append(cached)\n", "", "C09.R6", "cache")
    mb.add_text("reset-skips", "apischema/cache.py", "    for cached in _cached:\n        cached.cache_clear()\n", "    for cached in _cached[:-1]:\n        cached.cache_clear()\n", "C09.R6", "reset")
    # negatives: behaviour-preserving rewrites
    mb.add_text("neg-rename-local", "apischema/cache.py", "    cached = cast(Func, lru_cache()(func))\n    _cached.append(cached)\n    return cached\n",
                "    wrapped_func = cast(Func, lru_cache()(func))\n    _cached.append(wrapped_func)\n    return wrapped_func\n", negative=True)
    mb.add_text("neg-reset-first", "apischema/settings.py", "        super().__setattr__(name, value)\n        cache.reset()\n", "        cache.reset()\n        super().__setattr__(name, value)\n        cache.reset()\n", negative=True)
    mb.add_text("neg-validators-explicit-reset", "apischema/validation/validators.py", "        _validators[owner] = [*_validators[owner], self]\n",
                "        registered = list(_validators[owner])\n        registered.append(self)\n        _validators[owner] = registered\n", negative=True)
