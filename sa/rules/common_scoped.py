"""Traversal state of a visitor is scoped.

Visitors are re-entered recursively (a visit of a field type runs inside the
visit of its object). An attribute that a visitor method changes for the duration
of a nested visit must be restored to its *previous* value whatever happens:
the repo's idiom is `with context_setter(self): self.x = ...` (utils.context_setter
snapshots and restores `__dict__`). A raw `self.x = value` ... `self.x = None`
pair loses the enclosing value when visits nest.

Allowed outside `context_setter`: one-shot latches - an attribute only ever
assigned boolean / None constants outside `__init__`; and named exceptions.
"""
import ast
from typing import Dict, List, Set

from ..model import AnalysisError
from ..util import norm, short, walk_no_nested

VISITOR = "apischema.visitor.Visitor"
# one symbol each, with the reason
EXCEPTIONS = {
    ("apischema.serialization.SerializationMethodVisitor", "_has_skipped_field"):
        "recomputed at the entry of every _object() and only consumed to grant the object pass-through, which requires every "
        "field method to be the identity: nested object types are compiled by other visitor instances (cached factory) or are "
        "RecMethod (never identity), so an overwrite by a nested visit cannot change the decision",
}


def scoped_state_rule(ctx, rule: str, class_filter=None):
    model = ctx.model
    cs = model.func("apischema.utils.context_setter")
    t = norm(cs.node)
    ctx.check("obj.__dict__.copy()" in t and "finally" in t and "obj.__dict__.update(dict_copy)" in t, rule, cs.qualname, cs.node.body[0],
              "context_setter no longer snapshots and restores the object's __dict__ in a finally block", cs, cs.node, detail="snapshot / restore in finally")
    stores: Dict[str, List[tuple]] = {}
    for f in model.functions.values():
        oc = model.enclosing_class(f)
        if oc is None or VISITOR not in model.classes or not model.is_subclass(oc.qualname, VISITOR) or f.name == "__init__":
            continue
        parents = {c: p for p in ast.walk(f.node) for c in ast.iter_child_nodes(p)}
        for n in walk_no_nested(f.node):
            if isinstance(n, ast.Attribute) and isinstance(n.ctx, (ast.Store, ast.Del)) and isinstance(n.value, ast.Name) and n.value.id == "self":
                p = parents.get(n)
                scoped = False
                st = None
                while p is not None:
                    if st is None and isinstance(p, ast.stmt):
                        st = p
                    if isinstance(p, ast.With) and any("context_setter(self)" in norm(i.context_expr) for i in p.items):
                        scoped = True
                    p = parents.get(p)
                val = st.value if isinstance(st, (ast.Assign, ast.AnnAssign)) else None
                const = isinstance(val, ast.Constant) and (val.value is None or isinstance(val.value, bool))
                stores.setdefault(n.attr, []).append((oc, f, st, scoped, const))
    n_inst = 0
    for attr, items in sorted(stores.items()):
        nonconst_raw = [i for i in items if not i[3] and not i[4]]
        for oc, f, st, scoped, const in items:
            if class_filter is not None and not class_filter(oc.qualname):
                continue
            n_inst += 1
            construct = f"{f.qualname}:self.{attr}"
            if scoped:
                ctx.ok(rule, construct, "changed inside `with context_setter(self)`: restored on every exit", where=f.loc)
                continue
            exc = None
            for c in model.mro(oc.qualname):
                exc = exc or EXCEPTIONS.get((c, attr))
            if exc:
                ctx.ok(rule, construct, "named exception: " + exc, nontrivial=False, where=f.loc)
                continue
            # a raw store is a one-shot latch only if it assigns a constant, the attribute never receives a
            # non-constant value outside a scope, and that constant is not one that scoped stores set temporarily
            val = st.value if isinstance(st, (ast.Assign, ast.AnnAssign)) else None
            scoped_consts = {repr(i[2].value.value) for i in items if i[3] and i[4] and isinstance(i[2], (ast.Assign, ast.AnnAssign))}
            raw_nonconst = any((not i[4]) and (not i[3]) for i in items)
            ok = const and not raw_nonconst and repr(val.value) not in scoped_consts
            if not ok and const and not raw_nonconst and isinstance(val.value, bool):
                # test-and-clear latch: `if self.flag: self.flag = False` consumes a flag that a scope has set; the scope
                # that set it restores the enclosing value on exit
                fparents = {c: p for p in ast.walk(f.node) for c in ast.iter_child_nodes(p)}
                g = fparents.get(st)
                if isinstance(g, ast.If) and st in g.body and norm(g.test) == (f"self.{attr}" if val.value is False else f"not self.{attr}"):
                    ok = True
            ctx.check(ok, rule, construct, st,
                      f"`{short(st, 70)}` changes traversal state `self.{attr}` outside `with context_setter(self)`: when visits nest (an object inside the object being visited) the enclosing value is lost instead of restored",
                      f, st, detail="one-shot latch (constants only)")
    return n_inst
