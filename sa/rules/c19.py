"""C19 - GraphQL schema mirrors the data model and executes like (de)serialize.

Decides three structural clauses: names (alias flow on graphql/), arguments are
validated before the resolver runs and their errors cannot be swallowed by the
error handler, nullability wrapping is decided identically for input fields and
resolver arguments; plus builder totality with its named rejections.
"""
import ast

from ..cfg import CFG, describe_path
from ..model import AnalysisError
from ..nodes import is_ve
from ..util import dotted, names_in, norm, short, walk_no_nested
from ..visitors import totality
from . import c11

GQL = "apischema.graphql.schema"
RESOLVE = "apischema.graphql.resolvers.resolver_resolve.<locals>.resolve"

REJECTIONS_INPUT = {
    "tuple": "GraphQL has no tuple type",
}
REJECTIONS_OUTPUT = {
    "tuple": "GraphQL has no tuple type",
    "typed_dict": "TypedDict output is documented as unsupported (docs/graphql/data_model_and_resolvers.md)",
}


def check(ctx):
    model = ctx.model
    ctx.explanations.append(
        "C19: decided - both GraphQL builders implement every hook they can dispatch to or reject it with a TypeError (R1, "
        "named rejections only); field / argument names follow the alias-flow rules of C11 restricted to graphql/ (R2); in "
        "the resolver wrapper every argument ValidationError is recorded, the resolver call is dominated by `if errors: raise` "
        "and that raise cannot be caught by the error-handler try (R3); input fields and resolver arguments take the same "
        "three-way nullability decision (R4); fields are ordered by the shared sorter on Python names (R5). Not decided: "
        "graphql-core validation of the built schema, execution equality with serialize."
    )
    # ---------------- R1
    ctx.rule("C19.R1", "GraphQL builders: every dispatchable hook is implemented or a declared TypeError rejection", floor=30)
    totality(ctx, "C19.R1", f"{GQL}.InputSchemaBuilder", REJECTIONS_INPUT)
    totality(ctx, "C19.R1", f"{GQL}.OutputSchemaBuilder", REJECTIONS_OUTPUT)

    # ---------------- R2 = C11 rules on graphql/
    c11.check(ctx, prefixes=("apischema.graphql",), P="C19", ids={"R1": "C19.R2a", "R2": "C19.R2b", "R4": "C19.R2c"})

    # ---------------- R3: validate-then-invoke
    ctx.rule("C19.R3", "resolver wrapper: argument errors are all recorded, raised before the resolver call, and not catchable by the error handler", floor=4)
    fi = model.func(RESOLVE)
    fn = fi.node
    invokes = [n for n in walk_no_nested(fn) if isinstance(n, ast.Call) and any(k.arg is None and isinstance(k.value, ast.Name) and k.value.id == "values" for k in n.keywords)]
    ctx.require(len(invokes) == 1, f"resolver invocation `func(__self, **values)` not found uniquely ({len(invokes)})")
    invoke = invokes[0]
    cfg = CFG(fn, exc_edges=False)
    parents = {c: p for p in ast.walk(fn) for c in ast.iter_child_nodes(p)}

    def stmt_of(n):
        while n is not None and not isinstance(n, ast.stmt):
            n = parents.get(n)
        return n
    inv_stmt = stmt_of(invoke)
    inv_node = cfg.stmt_node.get(inv_stmt)
    ctx.require(inv_node is not None, "resolver invocation not in CFG")
    # the `if errors: raise` test
    tests = [n for n in walk_no_nested(fn) if isinstance(n, ast.If) and isinstance(n.test, ast.Name) and n.test.id == "errors" and any(isinstance(s, ast.Raise) for s in n.body)]
    ctx.check(len(tests) >= 1, "C19.R3", f"{fi.qualname}:if errors", fn.body[-1], "no `if errors: raise` found in the resolver wrapper: invalid arguments would reach the resolver", fi, fn)
    if tests:
        t = tests[0]
        tnode = cfg.stmt_node.get(t)
        dom = cfg.dominators()
        ok_dom = tnode in dom.get(inv_node, set())
        ctx.check(ok_dom, "C19.R3", f"{fi.qualname}:dominance", inv_stmt,
                  "the resolver call is not dominated by the `if errors: raise` check: some path invokes the resolver with invalid arguments", fi, inv_stmt,
                  detail="`if errors` dominates func(__self, **values)")
        all_raise = all(isinstance(s, ast.Raise) or isinstance(s, ast.Expr) for s in t.body) and isinstance(t.body[-1], ast.Raise)
        ctx.check(all_raise, "C19.R3", f"{fi.qualname}:raise", t, "the `if errors` branch does not always raise", fi, t)
        # the raise must not be inside a try that can catch it
        raise_stmt = [s for s in t.body if isinstance(s, ast.Raise)][0]
        p = parents.get(t)
        swallow = None
        child = t
        while p is not None and p is not fn:
            if isinstance(p, ast.Try) and child in p.body:
                for h in p.handlers:
                    names = [] if h.type is None else [dotted(e) or "?" for e in (h.type.elts if isinstance(h.type, ast.Tuple) else [h.type])]
                    broad = h.type is None or any(nm.split(".")[-1] in ("Exception", "BaseException", "ValueError") for nm in names)
                    reraises = len(h.body) == 1 and isinstance(h.body[0], ast.Raise) and h.body[0].exc is None
                    if broad and not reraises:
                        swallow = h
            child = p
            p = parents.get(p)
        ctx.check(swallow is None, "C19.R3", f"{fi.qualname}:not-swallowed", raise_stmt,
                  "the argument-validation error is raised inside a try whose handler catches it and hands it to the error handler: "
                  "invalid arguments no longer yield a GraphQL error (the field resolves to the handler's value)",
                  fi, raise_stmt, detail="raise is outside the error-handler try")
    # every except ValidationError in the loop records into errors
    n_h = 0
    for n in walk_no_nested(fn):
        if isinstance(n, ast.Try):
            for h in n.handlers:
                if is_ve(model, fi, h.type):
                    n_h += 1
                    stores = [x for s in h.body for x in ast.walk(s) if isinstance(x, ast.Subscript) and isinstance(x.ctx, ast.Store) and isinstance(x.value, ast.Name) and x.value.id == "errors"]
                    uses_e = h.name is not None and any(h.name in names_in(s) for s in h.body)
                    ctx.check(bool(stores) and uses_e, "C19.R3", f"{fi.qualname}:record", h, "an argument ValidationError is not recorded into `errors`", fi, h, detail="errors[alias] = err")
                    # key consistency: the same key as the kwargs lookup
                    for st in stores:
                        key = st.slice
                        lookups = [x for x in ast.walk(n) if isinstance(x, ast.Subscript) and isinstance(x.value, ast.Name) and x.value.id == "kwargs"]
                        same = any(norm(x.slice) == norm(key) for x in lookups)
                        ctx.check(same, "C19.R3", f"{fi.qualname}:error-key", st,
                                  f"argument error stored under `{norm(key)}` while the argument is read from kwargs[{', '.join(sorted({norm(x.slice) for x in lookups}))}]: error located at a different name than the argument",
                                  fi, st, detail="errors[...] key == kwargs[...] key")
    ctx.require(n_h >= 1, "no `except ValidationError` in the resolver wrapper")
    # values only filled from deserializer results / None
    for n in walk_no_nested(fn):
        if isinstance(n, ast.Assign) and isinstance(n.targets[0], ast.Subscript) and isinstance(n.targets[0].value, ast.Name) and n.targets[0].value.id == "values":
            v = n.value
            ok = (isinstance(v, ast.Call) and isinstance(v.func, ast.Name) and v.func.id == "deserializer") or (isinstance(v, ast.Constant) and v.value is None) or (isinstance(v, ast.Name) and v.id == "__info")
            ctx.check(ok, "C19.R3", f"{fi.qualname}:values", n, f"`{short(n, 70)}`: a resolver argument bypasses deserialization", fi, n, detail="deserializer(kwargs[alias]) / None / info")

    # ---------------- R4 nullability siblings
    ctx.rule("C19.R4", "input fields and resolver arguments take the same nullability / default decision", floor=4)
    sib = [model.func(f"{GQL}.InputSchemaBuilder._field"), model.func(f"{GQL}.OutputSchemaBuilder._resolver")]
    facts = []
    for s in sib:
        f = {"none_undef_optional": False, "serialize_fail_optional": False, "serialize_kw": None}
        for n in walk_no_nested(s.node):
            if isinstance(n, ast.If):
                chain = [n]
                # walk elif chain
                cur = n
                while cur.orelse and len(cur.orelse) == 1 and isinstance(cur.orelse[0], ast.If):
                    cur = cur.orelse[0]
                    chain.append(cur)
                for c in chain:
                    subj, elts = sentinel_test(c.test)
                    if subj is not None and "default" in subj and elts == {"None", "Undefined"} and any(_assigns_optional(x) for x in c.body):
                        f["none_undef_optional"] = True
            if isinstance(n, ast.Try):
                calls = [c for st in n.body for c in ast.walk(st) if isinstance(c, ast.Call) and dotted(c.func) == "serialize"]
                if calls:
                    f["serialize_kw"] = sorted(k.arg for k in calls[0].keywords if k.arg)
                    for h in n.handlers:
                        if h.type is not None and (dotted(h.type) or "").endswith("Exception") and any(_assigns_optional(x) for x in h.body):
                            f["serialize_fail_optional"] = True
        facts.append(f)
    for key, what in (("none_undef_optional", "a None / Undefined default makes the type Optional"), ("serialize_fail_optional", "an unserializable default makes the type Optional instead of failing")):
        for s, f in zip(sib, facts):
            ctx.check(f[key], "C19.R4", f"{s.qualname}:{key}", s.node.body[0], f"{s.qualname.split('.')[-1]} does not implement: {what} (its sibling does)", s, s.node, detail=what)
    a, b = facts[0]["serialize_kw"], facts[1]["serialize_kw"]
    ctx.require(a is not None and b is not None, "default serialization call not found in one of the nullability siblings")
    ctx.check(("aliaser" in a) == ("aliaser" in b), "C19.R4", "default-serialization:aliaser", None,
              f"the two siblings serialize defaults with different aliaser handling ({a} vs {b})", None, None, detail="both pass aliaser")

    # ---------------- R7 user defaults are never hashed
    ctx.rule("C19.R7", "a default value supplied by the user (parameter / field default) is never hashed: no membership test against a set literal", floor=3)
    n7 = 0
    for fi in model.functions.values():
        if not fi.module.name.startswith("apischema.graphql"):
            continue
        for n in walk_no_nested(fi.node):
            if isinstance(n, ast.Compare) and len(n.ops) == 1 and isinstance(n.ops[0], (ast.In, ast.NotIn)) and "default" in norm(n.left).lower():
                n7 += 1
                ctx.check(not isinstance(n.comparators[0], (ast.Set, ast.Dict, ast.SetComp)), "C19.R7", f"{fi.qualname}:{norm(n.left)}", n,
                          f"`{short(n, 60)}` hashes a user-supplied default: graphql_schema() raises TypeError for `def op(tags: List[str] = [])` or a field defaulting to a list / dict", fi, n, detail="identity / tuple membership")
            if isinstance(n, (ast.BoolOp, ast.Compare)):
                subj, elts = sentinel_test(n)
                if subj is not None and "default" in subj.lower() and not isinstance(n, ast.Compare):
                    n7 += 1
                    ctx.ok("C19.R7", f"{fi.qualname}:{subj}", "sentinels tested by identity / equality", where=fi.loc)
    ctx.require(n7 >= 3, f"only {n7} sentinel tests of defaults found in apischema.graphql")

    # ---------------- R8 / R9: the by-name type cache
    ctx.rule("C19.R8", "the result of a @cache_type hook does not depend on scoped traversal state that is not part of the cache key", floor=4)
    ctx.rule("C19.R9", "a @cache_type factory never invents the name of the type it builds: the cache is keyed by the name it is given", floor=4)
    scoped_attrs = set()
    for fi in model.functions.values():
        if not fi.module.name.startswith("apischema.graphql"):
            continue
        for w in ast.walk(fi.node):
            if isinstance(w, ast.With) and any("context_setter(self)" in norm(i.context_expr) for i in w.items):
                for st in ast.walk(w):
                    if isinstance(st, ast.Attribute) and isinstance(st.ctx, ast.Store) and norm(st.value) == "self":
                        scoped_attrs.add(st.attr)
    ctx.require(scoped_attrs, "no scoped traversal state found in apischema.graphql (context_setter idiom changed?)")
    ct = model.func(f"{GQL}.cache_type")
    key_txt = " ".join(norm(k) for k in ast.walk(ct.node) if isinstance(k, ast.Tuple))
    cached = [fi for fi in model.functions.values() if fi.module.name == GQL and fi.cls is not None and any(d.split(".")[-1] == "cache_type" for d in fi.decorators)]
    ctx.require(len(cached) >= 6, f"only {len(cached)} @cache_type hooks found")

    def self_reads(fi, seen):
        """scoped attributes read by fi, transitively through self.<method>() calls; nested closures included (they
        are built during the hook call). Reads that are immediately re-bound in a context_setter scope of the same function still count."""
        out = {}
        if fi.qualname in seen:
            return out
        seen.add(fi.qualname)
        for n in ast.walk(fi.node):
            if isinstance(n, ast.Attribute) and isinstance(n.ctx, ast.Load) and norm(n.value) == "self":
                if n.attr in scoped_attrs:
                    out.setdefault(n.attr, [fi.qualname])
                elif fi.cls is not None:
                    callee = model.find_method(fi.cls.qualname, n.attr)
                    if callee is not None and callee.module.name.startswith("apischema.graphql") and callee.name not in ("visit", "visit_with_conv", "_visit_field_type"):
                        for a, chain in self_reads(callee, seen).items():
                            out.setdefault(a, [fi.qualname] + chain)
        return out

    for fi in sorted(cached, key=lambda f: f.qualname):
        reads = self_reads(fi, set())
        reads = {a: c for a, c in reads.items() if a not in key_txt}
        ctx.check(not reads, "C19.R8", f"{fi.qualname}", None,
                  f"{fi.qualname} is cached by (name, hook, description) but its result depends on the traversal state {sorted(reads)} (read through {' -> '.join(next(iter(reads.values()))) if reads else ''}): the type built in one context (a flattened field) is reused in another",
                  fi, fi.node, detail="no scoped state read")
        # R9
        gen = None
        for f2 in fi.nested.values():
            for n in walk_no_nested(f2.node):
                if isinstance(n, ast.Assign) and norm(n.targets[0]) == "name" and "name" in f2.params:
                    v = n.value
                    # unwrap_name(name, ...) raises when name is None: it never invents a name
                    if isinstance(v, ast.Call) and (dotted(v.func) or "") == "unwrap_name":
                        continue
                    gen = n
        ctx.check(gen is None, "C19.R9", f"{fi.qualname}", gen,
                  f"`{short(gen, 60) if gen is not None else ''}`: the factory computes a name when none is given, but cache_type does not cache unnamed results: every use of the same anonymous type builds a new GraphQL type with the same generated name (schema rejected: multiple types named ...)",
                  fi, gen if gen is not None else fi.node, detail="named by its caller")

    # ---------------- R11: nested visits start from a defined flattening context
    ctx.rule("C19.R11", "in the output builder, a nested type visit is started only inside `with context_setter(self)` after (re)binding the flattening state: the state set for a flattened object never leaks into the types of its fields", floor=2)
    ob = model.cls(f"{GQL}.OutputSchemaBuilder")
    for name, fi in sorted(ob.methods.items()):
        parents = {c: p for p in ast.walk(fi.node) for c in ast.iter_child_nodes(p)}
        for c in ast.walk(fi.node):
            if isinstance(c, ast.Call) and norm(c.func) in ("self.visit_with_conv", "self.visit"):
                p = parents.get(c)
                ok = False
                while p is not None:
                    if isinstance(p, ast.With) and any("context_setter(self)" in norm(i.context_expr) for i in p.items):
                        bound = {st.attr for b in p.body for st in ast.walk(b) if isinstance(st, ast.Attribute) and isinstance(st.ctx, ast.Store) and norm(st.value) == "self"}
                        ok = scoped_attrs <= bound
                    p = parents.get(p)
                # interfaces of a class are visited by object() itself: they are types of their own, built for any context
                exempt = name == "object" and "get_interfaces" in norm(parents.get(c)) if parents.get(c) is not None else False
                ctx.check(ok or exempt, "C19.R11", f"{fi.qualname}:{norm(c)[:50]}", c,
                          f"`{short(c, 60)}` visits a nested type with whatever flattening state is current: inside a flattened field, the resolvers of the nested object are wrapped with the flattening getter and fail at execution", fi, c, detail="inside context_setter with get_flattened rebound")

    # ---------------- R13: the schema and the resolver wrapper agree on the parameters that are arguments
    ctx.rule("C19.R13", "every parameter of a resolver except the GraphQLResolveInfo one is published as an argument and deserialized by the wrapper: neither loop stops early", floor=2)
    for q_ in (f"{GQL}.OutputSchemaBuilder._resolver", "apischema.graphql.resolvers.resolver_resolve"):
        f_ = model.func(q_)
        lps = [n for n in walk_no_nested(f_.node) if isinstance(n, ast.For) and norm(n.iter).endswith(".parameters")]
        ctx.require(len(lps) == 1, f"{q_}: parameter loop not found")
        lp = lps[0]
        early = [x for x in ast.walk(lp) if isinstance(x, (ast.Break, ast.Return)) and not any(isinstance(p_, (ast.FunctionDef, ast.Lambda)) and x in ast.walk(p_) for p_ in ast.walk(lp) if p_ is not lp)]
        ctx.check(not early, "C19.R13", q_, early[0] if early else lp, "the loop over the resolver's parameters can stop before the last one (e.g. at the GraphQLResolveInfo parameter): the parameters declared after it are not published / not deserialized, while the other side handles them", f_, early[0] if early else lp, detail="no break / return in the parameter loop")

    # ---------------- R15: interfaces are closed under "implements"
    ctx.rule("C19.R15", "an object type flattening a type T declares T's interfaces transitively (GraphQL: a type implementing I must implement every interface of I)", floor=2)
    oo = model.func(f"{GQL}.OutputSchemaBuilder.object")
    it = oo.nested.get("interface_thunk")
    ctx.require(it is not None, "OutputSchemaBuilder.object.interface_thunk vanished")
    branches = [n for n in ast.walk(it.node) if isinstance(n, ast.If) and "isinstance(flattened" in norm(n.test)]
    seen_b = []
    for b in branches:
        cur = b
        while True:
            seen_b.append((norm(cur.test), cur.body))
            if len(cur.orelse) == 1 and isinstance(cur.orelse[0], ast.If):
                cur = cur.orelse[0]
            else:
                break
        break
    ctx.require(len(seen_b) >= 2, "interface_thunk: the branches on the kind of the flattened type were not recognised")
    from ..visitors import _always_exits as _ae19
    par19 = {c_: p_ for p_ in ast.walk(it.node) for c_ in ast.iter_child_nodes(p_)}
    after_chain = []
    if branches:
        pb19 = par19.get(branches[0])
        for fld in ("body", "orelse"):
            lst = getattr(pb19, fld, None)
            if isinstance(lst, list) and branches[0] in lst:
                after_chain = lst[lst.index(branches[0]) + 1:]

    def _updates(stmts):
        return any(isinstance(c, ast.Call) and norm(c.func) == "all_interfaces.update" and c.args and norm(c.args[0]) == "flattened.interfaces" for s_ in stmts for c in ast.walk(s_))
    for test, body in seen_b:
        if test.startswith("not isinstance(flattened") and _ae19(body):
            continue      # `elif not isinstance(flattened, <object type>): continue`: neither kind, nothing to propagate
        # the propagation is in the branch, or shared after the chain by the branches that fall through
        closes = _updates(body) or (not _ae19(body) and _updates(after_chain))
        ctx.check(closes, "C19.R15", f"{oo.qualname}:{test[:50]}", body[0], f"under `{test}` the interfaces of the flattened type are not propagated: `type Outer implements I2` without I1 when I2 implements I1 is rejected by validate_schema", oo, body[0], detail="all_interfaces.update(flattened.interfaces)")

    # ---------------- R16: interfaces are collected among all the ancestors
    ctx.rule("C19.R16", "get_interfaces filters the whole ancestry of the class (`cls.__mro__` without the class itself): an interface inherited through a plain class is implemented, and the object builder asks get_interfaces for the visited class", floor=2)
    gi = model.func("apischema.graphql.interfaces.get_interfaces")
    srcs = [n for n in ast.walk(gi.node) if isinstance(n, ast.Attribute) and norm(n.value) == gi.params[0] and n.attr in ("__mro__", "__bases__", "__orig_bases__")]
    uses_mro = any(n.attr == "__mro__" for n in srcs) or any(isinstance(c, ast.Call) and norm(c.func).endswith(".mro") for c in ast.walk(gi.node))
    direct = [n for n in srcs if n.attr != "__mro__"]
    ctx.check(uses_mro and not direct, "C19.R16", f"{gi.qualname}:ancestry", None,
              f"interfaces are looked for among `{norm(direct[0]) if direct else '?'}` only: with `@interface class Shape`, `class Shape2D(Shape)`, `class Circle(Shape2D)` the GraphQL type Circle implements nothing and a resolver typed Shape returning a Circle fails",
              gi, direct[0] if direct else gi.node, detail="filter(is_interface, cls.__mro__[1:])")
    filt = any(isinstance(c, ast.Call) and ((dotted(c.func) == "filter" and c.args and norm(c.args[0]) == "is_interface") or dotted(c.func) == "is_interface") for c in ast.walk(gi.node))
    ctx.check(filt, "C19.R16", f"{gi.qualname}:filter", None, "get_interfaces no longer keeps the classes registered with @interface", gi, gi.node, detail="is_interface")
    asked = [c for c in ast.walk(oo.node) if isinstance(c, ast.Call) and dotted(c.func) == "get_interfaces"]
    ctx.check(len(asked) == 1 and asked[0].args and norm(asked[0].args[0]) == "cls", "C19.R16", f"{oo.qualname}:get_interfaces", None, "the object builder does not ask for the interfaces of the visited class", oo, asked[0] if asked else oo.node, detail="get_interfaces(cls)")

    # ---------------- R17: ID literals and ID variables are decoded alike
    ctx.rule("C19.R17", "id_encoding: the custom ID scalar decodes an ID written in the query (parse_literal) with the same decoder as an ID passed by variable (parse_value)", floor=1)
    gs = model.func(f"{GQL}.graphql_schema")
    scal = [c for c in ast.walk(gs.node) if isinstance(c, ast.Call) and (dotted(c.func) or "").endswith("GraphQLScalarType") and any(k.arg == "name" and norm(k.value) == "'ID'" for k in c.keywords)]
    ctx.require(len(scal) == 1, "graphql_schema: construction of the custom ID scalar not found")
    kw17 = {k.arg: k.value for k in scal[0].keywords}
    pv, pl = kw17.get("parse_value"), kw17.get("parse_literal")
    decodes_value = pv is not None and "id_deserializer" in norm(pv)
    lit_ok = pl is None
    if pl is not None:
        texts = [norm(pl)]
        if isinstance(pl, ast.Name):
            for n in ast.walk(gs.node):
                if isinstance(n, ast.FunctionDef) and n.name == pl.id:
                    texts.append(norm(n))
                if isinstance(n, ast.Assign) and norm(n.targets[0]) == pl.id:
                    texts.append(norm(n.value))
        lit_ok = any("id_deserializer" in t for t in texts)
    ctx.check((not decodes_value) or lit_ok, "C19.R17", f"{gs.qualname}:ID.parse_literal", None,
              f"the ID scalar decodes variables with id_deserializer but parses literals with `{norm(pl) if pl is not None else '?'}`: `{{node(id: \"<encoded>\")}}` hands the still encoded string to the deserializer of the ID type (\"badly formed hexadecimal UUID string\") while the same value passed as $id works",
              gs, scal[0], detail="parse_literal applies id_deserializer too")

    # ---------------- R18: values inside a GraphQL scalar are fully serialized
    ctx.rule("C19.R18", "resolver results are serialized partially (objects are left to GraphQL, which resolves their fields); a mapping is published as a (JSON) scalar, whose content GraphQL does not resolve: objects inside it must be serialized completely", floor=1)
    pv_cls = model.cls("apischema.graphql.resolvers.PartialSerializationMethodVisitor")
    obj_identity = "object" in pv_cls.methods and "IDENTITY_METHOD" in norm(pv_cls.methods["object"].node)
    om_ = model.func(f"{GQL}.SchemaBuilder.mapping") if f"{GQL}.SchemaBuilder.mapping" in model.functions else None
    mapping_is_scalar = om_ is not None and "GraphQLScalarType" in norm(om_.node)
    ctx.check(not (obj_identity and mapping_is_scalar) or "mapping" in pv_cls.methods, "C19.R18", f"{pv_cls.qualname}:mapping", None,
              "PartialSerializationMethodVisitor keeps objects as they are everywhere, also inside a mapping, which the schema publishes as a scalar: `def d() -> Dict[str, Foo]` executes to data {'d': {'x': Foo(a=1)}} - the dataclass instance itself, where serialize gives {'x': {'a': 1}}",
              pv_cls.methods.get("object"), pv_cls.methods["object"].node if "object" in pv_cls.methods else None, detail="mapping() overridden to serialize the values completely")

    # ---------------- R19: the concrete type of an instance of an abstract type
    ctx.rule("C19.R19", "object types are recognised at run time by is_type_of; when a class and one of its subclasses are both object types of an interface / union, the instance of the subclass must resolve to the subclass", floor=1)
    oo19 = model.func(f"{GQL}.OutputSchemaBuilder.object")
    ito = [k.value for c in ast.walk(oo19.node) if isinstance(c, ast.Call) for k in c.keywords if k.arg == "is_type_of"]
    ctx.require(len(ito) >= 1, "OutputSchemaBuilder.object: is_type_of not found")
    plain_isinstance = all(isinstance(v, ast.Lambda) and isinstance(v.body, ast.Call) and dotted(v.body.func) == "isinstance" for v in ito)
    ctx.check(not plain_isinstance, "C19.R19", f"{oo19.qualname}:is_type_of", None,
              "`is_type_of=lambda obj, _: isinstance(obj, cls)` is also true for the instances of the subclasses: with User(Entity) and Admin(User) both in the schema, a resolver typed Entity returning an Admin is resolved to the first possible type that matches - `__typename: 'User'`, the fields of `... on Admin` are dropped",
              oo19, ito[0], detail="most derived registered class wins")

    # ---------------- R14: the error handler covers the point where the resolver's exception is raised
    ctx.rule("C19.R14", "the try block applying a resolver's error_handler covers the execution of the resolver, also when it is a coroutine function", floor=1)
    rr_ = model.func("apischema.graphql.resolvers.resolver_resolve")
    rs = rr_.nested.get("resolve")
    ctx.require(rs is not None, "resolver_resolve.resolve vanished")
    handled = [t_ for t_ in ast.walk(rs.node) if isinstance(t_, ast.Try) and any("error_handler" in norm(h_) for h_ in t_.handlers)]
    ctx.require(len(handled) == 1, "the try block applying error_handler was not found")
    async_aware = any(isinstance(n, (ast.AsyncFunctionDef, ast.Await)) for n in ast.walk(rr_.node)) or "inspect.isawaitable" in norm(rr_.node)
    wraps_async = "as_async(" in norm(rr_.node) and "is_async(resolver.func)" in norm(rr_.node)
    ctx.check(async_aware or not wraps_async, "C19.R14", f"{rr_.qualname}:async-error-handler", None,
              "for a coroutine resolver `func(...)` only creates the coroutine inside the try block; it is awaited later by the as_async wrapper, outside of it: an exception raised by an async resolver bypasses error_handler (a sync resolver with the same handler returns the handler's result)",
              rr_, handled[0], detail="await inside the try (async wrapper)")

    # ---------------- R12: methods of a generic class are looked up with the parametrised type
    ctx.rule("C19.R12", "serialized methods / resolvers are looked up with the visited type itself (`tp`, possibly a parametrised generic), not its origin class: their TypeVars are substituted from it", floor=3)
    n12 = 0
    for fi in model.functions.values():
        for c in model.calls_in(fi, include_nested=True):
            if (dotted(c.func) or "").split(".")[-1] in ("get_resolvers", "get_serialized_methods") and c.args and fi.name not in ("get_resolvers", "get_serialized_methods"):
                n12 += 1
                a = c.args[0]
                hook = fi
                while hook.parent is not None:
                    hook = hook.parent
                ok = isinstance(a, ast.Name) and a.id in hook.params and a.id == "tp"
                ctx.check(ok, "C19.R12", f"{fi.qualname}:{norm(c.func)}", c, f"`{short(c, 50)}`: the lookup is made with `{norm(a)}` instead of the visited type `tp`: for a parametrised generic (Page[Item]) the TypeVars of the method's signature are not substituted and its result is published / serialized as Any", fi, c, detail="get_resolvers(tp) / get_serialized_methods(tp)")
    ctx.require(n12 >= 3, f"only {n12} lookups of serialized methods / resolvers found")

    # ---------------- R10: defaults are given to graphql-core in its internal form
    ctx.rule("C19.R10", "argument / input-field defaults are produced in the form resolvers receive arguments (Enum members, as handle_enum assumes)", floor=2)
    rr = model.func("apischema.graphql.resolvers.resolver_resolve")
    believes_members = any(isinstance(n, ast.Call) and (dotted(n.func) or "") == "Conversion" and n.args and norm(n.args[0]) == "identity" for n in ast.walk(rr.node)) and "issubclass(tp, Enum)" in norm(rr.node)
    ctx.require(believes_members, "resolver_resolve no longer treats incoming Enum arguments as members (handle_enum): R10 must be re-derived")
    for s_ in sib:
        for c in ast.walk(s_.node):
            if isinstance(c, ast.Call) and dotted(c.func) == "serialize":
                kws = {k.arg for k in c.keywords}
                ctx.check("default_conversion" in kws, "C19.R10", f"{s_.qualname}:default", c,
                          f"`{short(c, 60)}`: the default is serialized with the plain enum serializer (member.value) while arguments of Enum type are Enum members for graphql-core and for the resolver wrapper: print_schema fails (Enum cannot represent value) and the resolver receives a str when the argument is omitted",
                          s_, c, detail="enum-preserving serialization")

    # ---------------- R6 scoped traversal state
    from .common_scoped import scoped_state_rule
    ctx.rule("C19.R6", "GraphQL builders change traversal state (get_flattened, ...) only inside `with context_setter(self)`", floor=2)
    scoped_state_rule(ctx, "C19.R6", lambda q: q.startswith("apischema.graphql"))

    # ---------------- R5 order
    ctx.rule("C19.R5", "GraphQL fields go through sort_by_order on Python names", floor=1)
    mf = model.func(f"{GQL}.merge_fields")
    calls = [c for c in model.calls_in(mf) if dotted(c.func) == "sort_by_order"]
    ok = False
    if calls and len(calls[0].args) >= 4:
        name_l, ord_l = calls[0].args[2], calls[0].args[3]
        ok = isinstance(name_l, ast.Lambda) and norm(name_l.body).endswith(".name") and isinstance(ord_l, ast.Lambda) and norm(ord_l.body).endswith(".ordering")
    ctx.check(ok, "C19.R5", mf.qualname, mf.node.body[0], "merge_fields does not order fields with sort_by_order(cls, fields, name, ordering)", mf, mf.node, detail="sort_by_order(cls, fields, f.name, f.ordering)")


    # ---------------- helpers applied to raw annotations look through Annotated
    ctx.rule("C19.R20", "is_union_of (nullability of GraphQL arguments, Undefined / None omission of fields and serialized methods) looks through Annotated[...]: raw field / parameter / return annotations reach it", floor=5)
    from .common_annotated import annotated_transparency_rule
    annotated_transparency_rule(ctx, "C19.R20")

def sentinel_test(t):
    """(subject, {sentinels}) for `x in {a, b}` / `x in (a, b)` / `x is a or x is b` / `x == a or x == b`, else (None, None)"""
    if isinstance(t, ast.Compare) and len(t.ops) == 1 and isinstance(t.ops[0], ast.In) and isinstance(t.comparators[0], (ast.Set, ast.Tuple, ast.List)):
        return norm(t.left), {norm(e) for e in t.comparators[0].elts}
    if isinstance(t, ast.BoolOp) and isinstance(t.op, ast.Or):
        subj, elts = None, set()
        for v in t.values:
            if not (isinstance(v, ast.Compare) and len(v.ops) == 1 and isinstance(v.ops[0], (ast.Is, ast.Eq))):
                return None, None
            if subj not in (None, norm(v.left)):
                return None, None
            subj = norm(v.left)
            elts.add(norm(v.comparators[0]))
        return subj, elts
    return None, None


def _assigns_optional(st) -> bool:
    for x in ast.walk(st):
        if isinstance(x, ast.Assign) and isinstance(x.value, ast.Subscript) and norm(x.value.value) == "Optional":
            return True
    return False


def mutants(mb):
    mb.add_text("is-union-of-not-annotated-transparent", "apischema/utils.py", "    return tp == of or (is_union(get_origin_or_type2(tp)) and of in get_args2(tp))\n", "    return tp == of or (is_union(get_origin_or_type(tp)) and of in get_args(tp))\n", "C19.R20", "is_union_of")
    mb.add_text("id-literal-not-decoded", "apischema/graphql/schema.py", "            parse_literal=parse_id_literal,\n", "            parse_literal=graphql.GraphQLID.parse_literal,\n", "C19.R17", "parse_literal")
    mb.add_text("interfaces-direct-bases", "apischema/graphql/interfaces.py", "cls.__mro__[1:]", "cls.__bases__", "C19.R16", "ancestry")
    mb.add_text("neg-interfaces-comprehension", "apischema/graphql/interfaces.py", "    return list(filter(is_interface, cls.__mro__[1:]))\n", "    return [base for base in cls.__mro__ if base is not cls and is_interface(base)]\n", negative=True)
    G = "apischema/graphql/schema.py"
    R = "apischema/graphql/resolvers.py"
    mb.add_text("errors-raise-in-try", R,
                "        if errors:\n            # TODO raise a mypy issue\n            raise ValueError(ValidationError(children=errors).errors)  # type: ignore\n        if info_parameter:\n            values[info_parameter] = __info\n        try:\n",
                "        if info_parameter:\n            values[info_parameter] = __info\n        try:\n            if errors:\n                raise ValueError(ValidationError(children=errors).errors)  # type: ignore\n", "C19.R3", "not-swallowed")
    mb.add_text("errors-not-raised", R, "        if errors:\n            # TODO raise a mypy issue\n            raise ValueError(ValidationError(children=errors).errors)  # type: ignore\n", "", "C19.R3", "if errors")
    mb.add_text("error-not-recorded", R, "                except ValidationError as err:\n                    errors[alias] = err\n", "                except ValidationError as err:\n                    values[param_name] = None\n", "C19.R3", "")
    mb.add_text("error-key-param-name", R, "                    errors[alias] = err\n", "                    errors[aliaser(param_name)] = err\n", "C19", "")
    mb.add_text("values-raw", R, "                    values[param_name] = deserializer(kwargs[alias])\n", "                    values[param_name] = kwargs[alias]\n", "C19.R3", "values")
    mb.add_text("resolver-no-optional-on-none", G, "                elif param.default is None or param.default is Undefined:\n                    param_type = Optional[param_type]\n", "                elif param.default is None or param.default is Undefined:\n                    pass\n", "C19.R4", "_resolver")
    mb.add_text("default-hashed", G, "                elif param.default is None or param.default is Undefined:\n", "                elif param.default in {None, Undefined}:\n", "C19.R7", "_resolver")
    mb.add_text("field-default-hashed", G, "        if field_default is None or field_default is Undefined:\n", "        if field_default in {None, Undefined}:\n", "C19.R7", "_field")
    mb.add_text("flatten-context-leaks-to-field-types", G, "        factory = self._visit_field_type(field.type, field.serialization)\n", "        factory = self.visit_with_conv(field.type, field.serialization)\n", "C19.R11", "_field")
    mb.add_text("resolvers-of-origin-class", G, "        for resolver, types in get_resolvers(tp):", "        for resolver, types in get_resolvers(cls):", "C19.R12", "get_resolvers")
    mb.add_text("arguments-stop-at-info", G, "                if is_union_of(param_type, graphql.GraphQLResolveInfo):\n                    continue\n", "                if is_union_of(param_type, graphql.GraphQLResolveInfo):\n                    break\n", "C19.R13", "_resolver")
    mb.add_text("flattened-interface-not-closed", G, "                        # interfaces of an implemented interface must be implemented too\n                        all_interfaces.update(flattened.interfaces)\n", "", "C19.R15", "object")
    mb.add_text("neg-default-tuple-membership", G, "                elif param.default is None or param.default is Undefined:\n", "                elif param.default in (None, Undefined):\n", negative=True)
    mb.add_text("field-no-fallback-optional", G, "            except Exception:\n                field_type = Optional[field_type]\n", "            except Exception:\n                raise\n", "C19.R4", "_field")
    mb.add_text("default-no-aliaser", G, "                            param.default,\n                            aliaser=self.aliaser,\n", "                            param.default,\n", "C19", "")
    mb.add_text("out-field-name", G, "        flattened_factories = []\n        for field in fields:\n            if not field.is_aggregate:\n                normal_field = NormalField(\n                    self.aliaser(field.alias),", "        flattened_factories = []\n        for field in fields:\n            if not field.is_aggregate:\n                normal_field = NormalField(\n                    self.aliaser(field.name),", "C19", "OutputSchemaBuilder.object")
    mb.add_text("tuple-not-rejected", G, "    def tuple(self, types: Sequence[AnyType]) -> TypeFactory[GraphQLTp]:\n        raise TypeError(\"Tuple are not supported\")", "    def tuple(self, types: Sequence[AnyType]) -> TypeFactory[GraphQLTp]:\n        raise NotImplementedError", "C19.R1", "tuple")
    mb.add_text("merge-fields-by-alias", G, "cls, fields, lambda f: f.name, lambda f: f.ordering", "cls, fields, lambda f: f.alias, lambda f: f.ordering", "C19.R5", "merge_fields")
    mb.add_text("flattened-state-not-restored", G, "        with context_setter(self):\n            self.get_flattened = get_flattened\n            return self.visit_with_conv(field.type, field.serialization)",
                "        self.get_flattened = get_flattened\n        try:\n            return self.visit_with_conv(field.type, field.serialization)\n        finally:\n            self.get_flattened = None", "C19.R6", "_visit_flattened")
    mb.add_text("neg-errors-check-reordered", R, "        if errors:\n            # TODO raise a mypy issue\n            raise ValueError(ValidationError(children=errors).errors)  # type: ignore\n        if info_parameter:\n            values[info_parameter] = __info\n",
                "        if info_parameter:\n            values[info_parameter] = __info\n        if errors:\n            raise ValueError(ValidationError(children=errors).errors)  # type: ignore\n", negative=True)
