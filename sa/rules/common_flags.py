"""Flag metadata (default_as_set, flatten, required, ...) are built by one helper storing one placeholder value;
their consumers either test the key's presence, or the truth of the stored value. Both sides must agree."""
import ast

from ..util import dotted, norm, short, walk_no_nested


def flag_metadata_rule(ctx, rule, only_keys=None):
    model = ctx.model
    sm = model.func("apischema.metadata.implem.simple_metadata")
    rets = [n for n in walk_no_nested(sm.node) if isinstance(n, ast.Return) and n.value is not None]
    ctx.require(len(rets) == 1, "simple_metadata: single return not found")
    dicts = [d for d in ast.walk(rets[0].value) if isinstance(d, ast.Dict) and len(d.keys) == 1 and norm(d.keys[0]) == sm.params[0]]
    ctx.require(len(dicts) == 1, "simple_metadata: {key: <placeholder>} not found")
    val = dicts[0].values[0]
    ctx.require(isinstance(val, ast.Constant), "simple_metadata: the placeholder is not a constant")
    truthy = bool(val.value)
    # the flag keys
    mod = model.mod("apischema.metadata.implem")
    keys = {}
    for st in mod.tree.body:
        if isinstance(st, ast.Assign) and isinstance(st.value, ast.Call) and dotted(st.value.func) == "simple_metadata" and st.value.args:
            keys[norm(st.value.args[0])] = norm(st.targets[0])
    ctx.require(len(keys) >= 5, f"flag metadata built with simple_metadata: only {sorted(keys)} found")
    if only_keys:
        keys = {k: v for k, v in keys.items() if k in only_keys}
    n_sites = 0
    for fi in list(model.functions.values()):
        if not fi.module.name.startswith("apischema"):
            continue
        parents = None
        for n in walk_no_nested(fi.node):
            # <mapping>.get(KEY) / <mapping>[KEY] consumed for its truth
            key = None
            if isinstance(n, ast.Call) and isinstance(n.func, ast.Attribute) and n.func.attr == "get" and n.args and norm(n.args[0]).split(".")[-1] in keys:
                key = norm(n.args[0]).split(".")[-1]
                default = n.args[1] if len(n.args) > 1 else None
            elif isinstance(n, ast.Subscript) and isinstance(n.ctx, ast.Load) and norm(n.slice).split(".")[-1] in keys:
                key, default = norm(n.slice).split(".")[-1], None
            if key is None:
                continue
            if parents is None:
                parents = {c: p for p in ast.walk(fi.node) for c in ast.iter_child_nodes(p)}
            par = parents.get(n)
            in_bool = (isinstance(par, (ast.If, ast.While, ast.IfExp)) and par.test is n) or isinstance(par, ast.BoolOp) \
                or (isinstance(par, ast.UnaryOp) and isinstance(par.op, ast.Not)) or (isinstance(par, ast.comprehension) and n in par.ifs) \
                or (isinstance(par, ast.Call) and dotted(par.func) == "bool")
            if not in_bool:
                continue
            n_sites += 1
            ctx.check(truthy, rule, f"{fi.qualname}:{key}", None,
                      f"`{short(n, 60)}` tests the truth of the value stored under {key}, but simple_metadata stores `{norm(val)}` (falsy): the flag {keys[key]} is silently ignored here while the sites testing `{key} in metadata` still honour it",
                      fi, n, detail=f"truth test of a flag whose placeholder is `{norm(val)}`")
    ctx.check(True, rule, "simple_metadata:placeholder", None, "", sm, sm.node, detail=f"placeholder `{norm(val)}`; {len(keys)} flag keys; {n_sites} truth-testing consumer(s)")
    return n_sites
