"""C16 - field order is a deterministic function of declaration and order() specs.

Decides only that the three views pass identically-named elements, built in the
same sequence (fields first, methods after), through the one ordering function,
and that class-level overrides are looked up with subclass precedence before the
element's own ordering. The permutation computed by sort_by_order (a runtime
algorithm) is not decided.
"""
import ast
from typing import List

from ..aliasflow import NAME, AliasScope
from ..model import AnalysisError
from ..util import dotted, norm, short, walk_no_nested
from .c11 import bind_args, init_params

ORD = "apischema.ordering"
SITES = [
    ("apischema.serialization.SerializationMethodVisitor.object", "serialized keys"),
    ("apischema.json_schema.schema.SchemaBuilder.object", "schema properties"),
    ("apischema.graphql.schema.merge_fields", "GraphQL fields"),
]
ELEMENT_CLASSES = {
    "apischema.serialization.FieldToOrder": ("name", "ordering"),
    "apischema.json_schema.schema.Property": ("name", "ordering"),
    "apischema.graphql.schema.NormalField": ("name", "ordering"),
    "apischema.graphql.schema.FlattenedField": ("name", "ordering"),
}


def check(ctx):
    model = ctx.model
    ctx.explanations.append(
        "C16: decided - serialization, both JSON schemas and GraphQL each pass their element list through "
        "sort_by_order(cls, elts, name, ordering) and nothing re-orders its result (R1); at every element construction the "
        "`name` is the Python name (field.name / func.__name__, never the alias) and the ordering is the element's own "
        "`.ordering`, fields are added before methods (R2); get_order_overriding gives precedence to the most derived class and "
        "sort_by_order consults the override before the element's ordering (R3). Not decided: that sort_by_order computes the "
        "documented permutation and never loses an element."
    )
    ctx.rule("C16.R1", "each view orders its elements with sort_by_order and does not re-order the result", floor=3)
    for q, what in SITES:
        fi = model.func(q)
        calls = [c for c in model.calls_in(fi) if dotted(c.func) == "sort_by_order"]
        ctx.check(len(calls) == 1, "C16.R1", q, fi.node.body[0], f"{what}: not exactly one sort_by_order call ({len(calls)}): this view would order fields differently from the others", fi, fi.node, detail="one sort_by_order call")
        for c in calls:
            ctx.require(len(c.args) >= 4, f"sort_by_order call shape changed in {q}")
            name_l, ord_l = c.args[2], c.args[3]
            ok = isinstance(name_l, ast.Lambda) and norm(name_l.body).endswith(".name") and isinstance(ord_l, ast.Lambda) and norm(ord_l.body).endswith(".ordering")
            ctx.check(ok, "C16.R1", q + ":getters", c, f"{what}: sort_by_order is given name=`{short(name_l, 30)}` order=`{short(ord_l, 30)}`; order(after=...) refers to Python names", fi, c, detail="lambda x: x.name / x.ordering")
            # no other ordering applied to the result
            parents = {ch: p for p in ast.walk(fi.node) for ch in ast.iter_child_nodes(p)}
            tgt = None
            p = parents.get(c)
            while p is not None and not isinstance(p, ast.stmt):
                p = parents.get(p)
            if isinstance(p, ast.Assign) and isinstance(p.targets[0], ast.Name):
                tgt = p.targets[0].id
            bad = []
            for n in walk_no_nested(fi.node):
                if isinstance(n, ast.Call) and dotted(n.func) in ("sorted", "reversed") and tgt and tgt in {x.id for x in ast.walk(n) if isinstance(x, ast.Name)}:
                    bad.append(n)
                if isinstance(n, ast.Call) and isinstance(n.func, ast.Attribute) and n.func.attr in ("sort", "reverse") and tgt and norm(n.func.value) == tgt:
                    bad.append(n)
            ctx.check(not bad, "C16.R1", q + ":no-reorder", bad[0] if bad else c, f"{what}: the sorted elements are re-ordered afterwards", fi, bad[0] if bad else c, detail="result used as is")

    ctx.rule("C16.R2", "element names are Python names, orderings are the elements' own, fields come before methods", floor=8)
    scopes = {}
    n_el = 0
    for fi in model.functions.values():
        if not fi.module.name.startswith(("apischema.serialization", "apischema.json_schema.schema", "apischema.graphql.schema")):
            continue
        for c in walk_no_nested(fi.node, include_lambda=True):
            if not isinstance(c, ast.Call):
                continue
            q = model.resolve_dotted(fi.module, dotted(c.func) or "")
            if q not in ELEMENT_CLASSES:
                continue
            n_el += 1
            params = init_params(model, model.classes[q])
            bound = bind_args(params, c)
            sc = scopes.setdefault(fi.qualname, AliasScope(model, fi))
            nm = bound.get("name")
            od = bound.get("ordering")
            kind = sc.classify(nm) if nm is not None else "?"
            ctx.check(kind == NAME, "C16.R2", f"{fi.qualname}:{q.split('.')[-1]}.name", c,
                      f"`name={short(nm, 40)}` is {kind}, not the Python name: order(after=<field>) / class-level order() are resolved by name, this element would never match", fi, c, detail="name <- NAME")
            ok = od is not None and norm(od).endswith(".ordering")
            ctx.check(ok, "C16.R2", f"{fi.qualname}:{q.split('.')[-1]}.ordering", c, f"`ordering={short(od, 40)}` is not the element's own ordering metadata", fi, c, detail=short(od, 40))
    ctx.require(n_el >= 6, f"only {n_el} ordered element constructions found")
    # fields first, methods after
    so = model.func(SITES[0][0])
    lines_f = [c.lineno for c in walk_no_nested(so.node) if isinstance(c, ast.Call) and dotted(c.func) == "FieldToOrder" and "field.name" in norm(c)]
    lines_m = [c.lineno for c in walk_no_nested(so.node) if isinstance(c, ast.Call) and dotted(c.func) == "FieldToOrder" and "serialized" in norm(c)]
    ctx.check(lines_f and lines_m and max(lines_f) < min(lines_m), "C16.R2", so.qualname + ":fields-then-methods", so.node.body[0], "serialization: serialized methods are no longer appended after the fields", so, so.node, detail="fields appended before methods")
    sp = model.func("apischema.json_schema.schema.SerializationSchemaBuilder.properties")
    ret = [n for n in walk_no_nested(sp.node) if isinstance(n, ast.Return)]
    ok = len(ret) == 1 and isinstance(ret[0].value, ast.BinOp) and isinstance(ret[0].value.op, ast.Add) and "for field in fields" in norm(ret[0].value.left) and "get_serialized_methods" in norm(ret[0].value.right)
    ctx.check(ok, "C16.R2", sp.qualname + ":fields-then-methods", ret[0] if ret else sp.node, "schema: properties are not [fields...] + [serialized methods...]", sp, sp.node, detail="[fields] + [methods]")
    go = model.func("apischema.graphql.schema.OutputSchemaBuilder.object")
    lf = [c.lineno for c in walk_no_nested(go.node) if isinstance(c, ast.Call) and dotted(c.func) in ("NormalField", "FlattenedField") and "field.name" in norm(c)]
    lr = [c.lineno for c in walk_no_nested(go.node) if isinstance(c, ast.Call) and dotted(c.func) == "NormalField" and "resolver" in norm(c)]
    ctx.check(lf and lr and max(lf) < min(lr), "C16.R2", go.qualname + ":fields-then-methods", go.node.body[0], "GraphQL: resolvers are no longer added after the fields", go, go.node, detail="fields before resolvers")

    ctx.rule("C16.R3", "class-level overrides: most derived class wins, and the override is consulted before the element's own ordering", floor=2)
    goo = model.func(f"{ORD}.get_order_overriding")
    rets = [n for n in walk_no_nested(goo.node) if isinstance(n, ast.Return)]
    ctx.require(len(rets) == 1, "get_order_overriding is not a single return")
    v = rets[0].value
    verdict, why = None, ""
    if isinstance(v, ast.DictComp):
        its = [norm(g.iter) for g in v.generators]
        if any(i == "reversed(cls.__mro__)" for i in its):
            verdict, why = True, "dict comprehension over reversed(cls.__mro__): later (more derived) entries overwrite earlier ones"
        elif any(i == "cls.__mro__" for i in its):
            verdict, why = False, "dict comprehension over cls.__mro__: base-class entries overwrite those of the subclass"
    elif isinstance(v, ast.Call) and (dotted(v.func) or "").endswith("ChainMap"):
        t = norm(v)
        if "reversed(cls.__mro__)" in t:
            verdict, why = False, "ChainMap gives precedence to its *first* mapping: over reversed(cls.__mro__) the base-most override shadows the subclass's"
        elif "cls.__mro__" in t:
            verdict, why = True, "ChainMap over cls.__mro__: the most derived mapping comes first"
    if verdict is None:
        raise AnalysisError("get_order_overriding uses an idiom the precedence table does not know (dict comprehension / ChainMap over the MRO expected)")
    ctx.check(verdict, "C16.R3", goo.qualname, v, f"class-level order(): {why}, so a subclass cannot re-order what a parent ordered", goo, v, detail=why)
    sbo = model.func(f"{ORD}.sort_by_order")
    ok = any(isinstance(n, ast.Assign) and norm(n.value) == "order_overriding.get(name(elt), order(elt))" for n in walk_no_nested(sbo.node))
    ctx.check(ok, "C16.R3", sbo.qualname, sbo.node.body[0], "sort_by_order no longer takes the class-level override first and the element's own ordering as default", sbo, sbo.node, detail="order_overriding.get(name(elt), order(elt))")
    ok = "get_order_overriding(cls)" in norm(sbo.node)
    ctx.check(ok, "C16.R3", sbo.qualname + ":lookup", sbo.node.body[0], "sort_by_order does not look class-level overrides up", sbo, sbo.node, detail="get_order_overriding(cls)")


def mutants(mb):
    O = "apischema/ordering.py"
    S = "apischema/serialization/__init__.py"
    J = "apischema/json_schema/schema.py"
    G = "apischema/graphql/schema.py"
    mb.add_text("mro-not-reversed", O, "        for sub_cls in reversed(cls.__mro__)\n", "        for sub_cls in cls.__mro__\n", "C16.R3", "get_order_overriding")
    mb.add_text("chainmap-reversed", O, "    return {\n        get_field_name(field, methods=True): ordering\n        for sub_cls in reversed(cls.__mro__)\n        if sub_cls in _order_overriding\n        for field, ordering in _order_overriding[sub_cls].items()\n    }\n",
                "    from collections import ChainMap\n    return ChainMap(*({get_field_name(f, methods=True): o for f, o in _order_overriding[sub_cls].items()} for sub_cls in reversed(cls.__mro__) if sub_cls in _order_overriding))\n", "C16.R3", "get_order_overriding")
    mb.add_text("override-as-default", O, "ordering = order_overriding.get(name(elt), order(elt))", "ordering = order(elt) or order_overriding.get(name(elt))", "C16.R3", "sort_by_order")
    mb.add_text("ser-sorted-by-alias", S, "                cls, fields_to_order, lambda f: f.name, lambda f: f.ordering\n", "                cls, fields_to_order, lambda f: f.field.alias, lambda f: f.ordering\n", "C16.R1", "getters")
    mb.add_text("ser-no-sort", S, "            for f in sort_by_order(\n                cls, fields_to_order, lambda f: f.name, lambda f: f.ordering\n            )\n", "            for f in fields_to_order\n", "C16.R1", "SerializationMethodVisitor.object")
    mb.add_text("schema-resorted", J, "        flattened_schemas: List[JsonSchema] = []\n        pattern_properties = {}", "        properties = sorted(properties, key=lambda p: p.alias)\n        flattened_schemas: List[JsonSchema] = []\n        pattern_properties = {}", "C16.R1", "no-reorder")
    mb.add_text("element-name-alias", S, "            fields_to_order.append(FieldToOrder(field.name, field.ordering, base_field))", "            fields_to_order.append(FieldToOrder(field.alias, field.ordering, base_field))", "C16.R2", "FieldToOrder.name")
    mb.add_text("property-name-alias", J, "                AliasedStr(serialized.alias),\n                serialized.func.__name__,\n", "                AliasedStr(serialized.alias),\n                serialized.alias,\n", "C16.R2", "Property.name")
    mb.add_text("graphql-ordering-none", G, "                    self._field(tp, field),\n                    field.ordering,\n                )\n                visited_fields.append(normal_field)\n            elif field.flattened:\n                flattened_factory", "                    self._field(tp, field),\n                    None,\n                )\n                visited_fields.append(normal_field)\n            elif field.flattened:\n                flattened_factory", "C16.R2", "ordering")
    mb.add_text("neg-chainmap-mro", O, "    return {\n        get_field_name(field, methods=True): ordering\n        for sub_cls in reversed(cls.__mro__)\n        if sub_cls in _order_overriding\n        for field, ordering in _order_overriding[sub_cls].items()\n    }\n",
                "    from collections import ChainMap\n    return ChainMap(*({get_field_name(f, methods=True): o for f, o in _order_overriding[sub_cls].items()} for sub_cls in cls.__mro__ if sub_cls in _order_overriding))\n", negative=True)
