"""C16 - field order is a deterministic function of declaration and order() specs.

Decides only that the three views pass identically-named elements, built in the
same sequence (fields first, methods after), through the one ordering function,
and that class-level overrides are looked up with subclass precedence before the
element's own ordering. The permutation computed by sort_by_order (a runtime
algorithm) is not decided.
"""
import ast
from typing import List

from ..aliasflow import NAME, AliasScope
from ..model import AnalysisError
from ..util import dotted, norm, short, walk_no_nested
from .c11 import bind_args, init_params

ORD = "apischema.ordering"
SITES = [
    ("apischema.serialization.SerializationMethodVisitor.object", "serialized keys"),
    ("apischema.json_schema.schema.SchemaBuilder.object", "schema properties"),
    ("apischema.graphql.schema.merge_fields", "GraphQL fields"),
]
ELEMENT_CLASSES = {
    "apischema.serialization.FieldToOrder": ("name", "ordering"),
    "apischema.json_schema.schema.Property": ("name", "ordering"),
    "apischema.graphql.schema.NormalField": ("name", "ordering"),
    "apischema.graphql.schema.FlattenedField": ("name", "ordering"),
}


def check(ctx):
    model = ctx.model
    ctx.explanations.append(
        "C16: decided - serialization, both JSON schemas and GraphQL each pass their element list through "
        "sort_by_order(cls, elts, name, ordering) and nothing re-orders its result (R1); at every element construction the "
        "`name` is the Python name (field.name / func.__name__, never the alias) and the ordering is the element's own "
        "`.ordering`, fields are added before methods (R2); get_order_overriding gives precedence to the most derived class and "
        "sort_by_order consults the override before the element's ordering (R3); sort_by_order puts each element in exactly one "
        "bucket, guards the by-name buckets with membership in the element names, never re-buckets, drains groups in ascending "
        "order value and emits before-elements, the element, after-elements (R4: conservation and the shape of the permutation). "
        "Not decided: cyclic after/before specifications (user error), equality of the permutation for every specification."
    )
    ctx.rule("C16.R1", "each view orders its elements with sort_by_order and does not re-order the result", floor=3)
    for q, what in SITES:
        fi = model.func(q)
        calls = [c for c in model.calls_in(fi) if dotted(c.func) == "sort_by_order"]
        ctx.check(len(calls) == 1, "C16.R1", q, fi.node.body[0], f"{what}: not exactly one sort_by_order call ({len(calls)}): this view would order fields differently from the others", fi, fi.node, detail="one sort_by_order call")
        for c in calls:
            ctx.require(len(c.args) >= 4, f"sort_by_order call shape changed in {q}")
            name_l, ord_l = c.args[2], c.args[3]
            ok = isinstance(name_l, ast.Lambda) and norm(name_l.body).endswith(".name") and isinstance(ord_l, ast.Lambda) and norm(ord_l.body).endswith(".ordering")
            ctx.check(ok, "C16.R1", q + ":getters", c, f"{what}: sort_by_order is given name=`{short(name_l, 30)}` order=`{short(ord_l, 30)}`; order(after=...) refers to Python names", fi, c, detail="lambda x: x.name / x.ordering")
            # no other ordering applied to the result
            parents = {ch: p for p in ast.walk(fi.node) for ch in ast.iter_child_nodes(p)}
            tgt = None
            p = parents.get(c)
            while p is not None and not isinstance(p, ast.stmt):
                p = parents.get(p)
            if isinstance(p, ast.Assign) and isinstance(p.targets[0], ast.Name):
                tgt = p.targets[0].id
            bad = []
            for n in walk_no_nested(fi.node):
                if isinstance(n, ast.Call) and dotted(n.func) in ("sorted", "reversed") and tgt and tgt in {x.id for x in ast.walk(n) if isinstance(x, ast.Name)}:
                    bad.append(n)
                if isinstance(n, ast.Call) and isinstance(n.func, ast.Attribute) and n.func.attr in ("sort", "reverse") and tgt and norm(n.func.value) == tgt:
                    bad.append(n)
            ctx.check(not bad, "C16.R1", q + ":no-reorder", bad[0] if bad else c, f"{what}: the sorted elements are re-ordered afterwards", fi, bad[0] if bad else c, detail="result used as is")

    ctx.rule("C16.R2", "element names are Python names, orderings are the elements' own, fields come before methods", floor=8)
    scopes = {}
    n_el = 0
    for fi in model.functions.values():
        if not fi.module.name.startswith(("apischema.serialization", "apischema.json_schema.schema", "apischema.graphql.schema")):
            continue
        for c in walk_no_nested(fi.node, include_lambda=True):
            if not isinstance(c, ast.Call):
                continue
            q = model.resolve_dotted(fi.module, dotted(c.func) or "")
            if q not in ELEMENT_CLASSES:
                continue
            n_el += 1
            params = init_params(model, model.classes[q])
            bound = bind_args(params, c)
            sc = scopes.setdefault(fi.qualname, AliasScope(model, fi))
            nm = bound.get("name")
            od = bound.get("ordering")
            kind = sc.classify(nm) if nm is not None else "?"
            ctx.check(kind == NAME, "C16.R2", f"{fi.qualname}:{q.split('.')[-1]}.name", c,
                      f"`name={short(nm, 40)}` is {kind}, not the Python name: order(after=<field>) / class-level order() are resolved by name, this element would never match", fi, c, detail="name <- NAME")
            ok = od is not None and norm(od).endswith(".ordering")
            ctx.check(ok, "C16.R2", f"{fi.qualname}:{q.split('.')[-1]}.ordering", c, f"`ordering={short(od, 40)}` is not the element's own ordering metadata", fi, c, detail=short(od, 40))
    ctx.require(n_el >= 6, f"only {n_el} ordered element constructions found")
    # fields first, methods after
    so = model.func(SITES[0][0])
    lines_f = [c.lineno for c in walk_no_nested(so.node) if isinstance(c, ast.Call) and dotted(c.func) == "FieldToOrder" and "field.name" in norm(c)]
    lines_m = [c.lineno for c in walk_no_nested(so.node) if isinstance(c, ast.Call) and dotted(c.func) == "FieldToOrder" and "serialized" in norm(c)]
    ctx.check(lines_f and lines_m and max(lines_f) < min(lines_m), "C16.R2", so.qualname + ":fields-then-methods", so.node.body[0], "serialization: serialized methods are no longer appended after the fields", so, so.node, detail="fields appended before methods")
    sp = model.func("apischema.json_schema.schema.SerializationSchemaBuilder.properties")
    ret = [n for n in walk_no_nested(sp.node) if isinstance(n, ast.Return)]
    ok = len(ret) == 1 and isinstance(ret[0].value, ast.BinOp) and isinstance(ret[0].value.op, ast.Add) and "for field in fields" in norm(ret[0].value.left) and "get_serialized_methods" in norm(ret[0].value.right)
    ctx.check(ok, "C16.R2", sp.qualname + ":fields-then-methods", ret[0] if ret else sp.node, "schema: properties are not [fields...] + [serialized methods...]", sp, sp.node, detail="[fields] + [methods]")
    go = model.func("apischema.graphql.schema.OutputSchemaBuilder.object")
    lf = [c.lineno for c in walk_no_nested(go.node) if isinstance(c, ast.Call) and dotted(c.func) in ("NormalField", "FlattenedField") and "field.name" in norm(c)]
    lr = [c.lineno for c in walk_no_nested(go.node) if isinstance(c, ast.Call) and dotted(c.func) == "NormalField" and "resolver" in norm(c)]
    ctx.check(lf and lr and max(lf) < min(lr), "C16.R2", go.qualname + ":fields-then-methods", go.node.body[0], "GraphQL: resolvers are no longer added after the fields", go, go.node, detail="fields before resolvers")

    ctx.rule("C16.R3", "class-level overrides: most derived class wins, and the override is consulted before the element's own ordering", floor=2)
    goo = model.func(f"{ORD}.get_order_overriding")
    rets = [n for n in walk_no_nested(goo.node) if isinstance(n, ast.Return)]
    ctx.require(len(rets) == 1, "get_order_overriding is not a single return")
    v = rets[0].value
    verdict, why = None, ""
    if isinstance(v, ast.Name):
        # explicit loop over the MRO filling the returned dict
        loops_ = [n for n in goo.node.body if isinstance(n, ast.For) and "__mro__" in norm(n.iter)]
        if len(loops_) == 1:
            lp = loops_[0]
            stores = [n for n in ast.walk(lp) if isinstance(n, ast.Subscript) and isinstance(n.ctx, ast.Store) and norm(n.value) == v.id]
            defaults = [n for n in ast.walk(lp) if isinstance(n, ast.Call) and isinstance(n.func, ast.Attribute) and n.func.attr == "setdefault" and norm(n.func.value) == v.id]
            rev = norm(lp.iter) == "reversed(cls.__mro__)"
            if stores and not defaults:
                verdict = rev
                why = ("loop over reversed(cls.__mro__) with plain stores: the most derived class is written last and wins" if rev
                       else "loop over cls.__mro__ with plain stores: base-class entries are written last and overwrite those of the subclass")
            elif defaults and not stores:
                verdict = not rev
                why = ("loop over cls.__mro__ with setdefault: the most derived class is written first and kept" if not rev
                       else "loop over reversed(cls.__mro__) with setdefault: the base-most entry is kept")
        v = loops_[0] if len(loops_) == 1 else v
    if isinstance(v, ast.DictComp):
        its = [norm(g.iter) for g in v.generators]
        if any(i == "reversed(cls.__mro__)" for i in its):
            verdict, why = True, "dict comprehension over reversed(cls.__mro__): later (more derived) entries overwrite earlier ones"
        elif any(i == "cls.__mro__" for i in its):
            verdict, why = False, "dict comprehension over cls.__mro__: base-class entries overwrite those of the subclass"
    elif isinstance(v, ast.Call) and (dotted(v.func) or "").endswith("ChainMap"):
        t = norm(v)
        if "reversed(cls.__mro__)" in t:
            verdict, why = False, "ChainMap gives precedence to its *first* mapping: over reversed(cls.__mro__) the base-most override shadows the subclass's"
        elif "cls.__mro__" in t:
            verdict, why = True, "ChainMap over cls.__mro__: the most derived mapping comes first"
    if verdict is None:
        raise AnalysisError("get_order_overriding uses an idiom the precedence table does not know (dict comprehension / ChainMap over the MRO expected)")
    ctx.check(verdict, "C16.R3", goo.qualname, v, f"class-level order(): {why}, so a subclass cannot re-order what a parent ordered", goo, v, detail=why)
    sbo = model.func(f"{ORD}.sort_by_order")
    ok = any(isinstance(n, ast.Assign) and norm(n.value) == "order_overriding.get(name(elt), order(elt))" for n in walk_no_nested(sbo.node))
    ctx.check(ok, "C16.R3", sbo.qualname, sbo.node.body[0], "sort_by_order no longer takes the class-level override first and the element's own ordering as default", sbo, sbo.node, detail="order_overriding.get(name(elt), order(elt))")
    ok = "get_order_overriding(cls)" in norm(sbo.node)
    ctx.check(ok, "C16.R3", sbo.qualname + ":lookup", sbo.node.body[0], "sort_by_order does not look class-level overrides up", sbo, sbo.node, detail="get_order_overriding(cls)")

    # ---------------- R4: conservation in sort_by_order
    ctx.rule("C16.R4", "sort_by_order never loses or duplicates an element: each element goes to exactly one bucket; a bucket reached by name only receives elements whose target is an element; the traversal drains every bucket once", floor=8)
    sb = model.func("apischema.ordering.sort_by_order")
    fn = sb.node
    from ..pathcond import parents_of, path_condition
    pm = parents_of(fn)
    elts_p = sb.params[1]
    loops = [n for n in fn.body if isinstance(n, ast.For) and norm(n.iter) == elts_p
             and any(isinstance(c, ast.Call) and isinstance(c.func, ast.Attribute) and c.func.attr == "append" and c.args and norm(c.args[0]) == norm(n.target) for c in ast.walk(n))]
    ctx.require(len(loops) == 1, f"sort_by_order: classification loop over `{elts_p}` not found")
    loop = loops[0]
    ev = norm(loop.target)

    def appends(stmts):
        lo = hi = 0
        for st in stmts:
            if isinstance(st, ast.If):
                a, b = appends(st.body), appends(st.orelse)
                if a is None and b is None:
                    return None
                a = a or (10, 0)
                b = b or (10, 0)
                if a == (10, 0):
                    lo, hi = lo + b[0], hi + b[1]
                elif b == (10, 0):
                    lo, hi = lo + a[0], hi + a[1]
                else:
                    lo, hi = lo + min(a[0], b[0]), hi + max(a[1], b[1])
            elif isinstance(st, ast.Raise):
                return None  # this path ends by raising
            else:
                k = sum(1 for c in ast.walk(st) if isinstance(c, ast.Call) and isinstance(c.func, ast.Attribute) and c.func.attr == "append" and c.args and norm(c.args[0]) == ev)
                lo, hi = lo + k, hi + k
        return lo, hi

    cnt = appends(loop.body)
    ctx.check(cnt == (1, 1), "C16.R4", f"{sb.qualname}:classified-once", loop, f"an element is put in {cnt} buckets depending on the path (expected exactly one on every non-raising path): it is lost or duplicated", sb, loop, detail="exactly one append per path")
    # buckets
    buckets = {}
    for c in ast.walk(loop):
        if isinstance(c, ast.Call) and isinstance(c.func, ast.Attribute) and c.func.attr == "append" and c.args and norm(c.args[0]) == ev:
            recv = c.func.value
            alts = [recv.body, recv.orelse] if isinstance(recv, ast.IfExp) else [recv]
            for r in alts:
                if isinstance(r, ast.Subscript) and isinstance(r.value, ast.Name):
                    buckets.setdefault(r.value.id, []).append((c, r, recv))
    # how each bucket is drained after the loop
    rest = fn.body[fn.body.index(loop) + 1:]
    by_name, by_iter = set(), set()
    for st in rest:
        for n in ast.walk(st):
            if isinstance(n, ast.For) and isinstance(n.iter, ast.Subscript) and isinstance(n.iter.value, ast.Name):
                b, key = n.iter.value.id, n.iter.slice
                outer = pm.get(n)
                while outer is not None and not (isinstance(outer, ast.For) and norm(outer.target) == norm(key)):
                    outer = pm.get(outer)
                if outer is not None and b in {x.id for x in ast.walk(outer.iter) if isinstance(x, ast.Name)}:
                    by_iter.add(b)     # for k in sorted(B): for e in B[k]
                else:
                    by_name.add(b)     # for e in B[<name of the current element>]
    names_sets = {t.targets[0].id for t in fn.body if isinstance(t, ast.Assign) and isinstance(t.targets[0], ast.Name)
                  and norm(t.value) in (f"set(map({sb.params[2]}, {elts_p}))", f"{{{sb.params[2]}({ev}) for {ev} in {elts_p}}}", f"{{{sb.params[2]}(e) for e in {elts_p}}}")}
    for b, sites in sorted(buckets.items()):
        ctx.check(b in by_iter or b in by_name, "C16.R4", f"{sb.qualname}:{b}:drained", sites[0][0], f"bucket `{b}` is filled but never read back into the result", sb, sites[0][0], detail="drained by iteration or by name")
        if b in by_name and b not in by_iter:
            for c, r, recv in sites:
                key = norm(r.slice)
                conds = [norm(x) for x in ast.walk(path_condition(fn, c, pm)) if isinstance(x, ast.Compare)]
                if isinstance(recv, ast.IfExp) and r is recv.body:
                    conds.append(norm(recv.test))
                ok = any(cd == f"{key} in {ns}" for cd in conds for ns in names_sets)
                ctx.check(ok, "C16.R4", f"{sb.qualname}:{b}[{key}]", c,
                          f"`{short(c, 60)}`: bucket `{b}` is only read under the name of an element being emitted; when `{key}` is not the name of an element of this view (a serialized method in the deserialization view) the element is never emitted: the field disappears from the schema / GraphQL type",
                          sb, c, detail=f"guarded by `{key} in <names of all elements>`")
    # groups: default order value 0, explicit value as key, drained in ascending order
    keys = {norm(r.slice) for c, r, recv in buckets.get("groups", [])}
    ctx.check(keys == {"0", "ordering.order"}, "C16.R4", f"{sb.qualname}:group-keys", loop, f"elements are grouped under {sorted(keys)}: expected the default value 0 and the element's own order value", sb, loop, detail="groups[0] / groups[ordering.order]")
    drains = [n for st in rest for n in ast.walk(st) if isinstance(n, ast.For) and "groups" in norm(n.iter) and not isinstance(n.iter, ast.Subscript)]
    ctx.check(len(drains) == 1 and norm(drains[0].iter) == "sorted(groups)", "C16.R4", f"{sb.qualname}:ascending", drains[0] if drains else fn.body[-1], "groups are not drained in ascending order value (`sorted(groups)`)", sb, drains[0] if drains else fn, detail="for value in sorted(groups)")
    # no re-bucketing between classification and traversal
    for st in rest:
        for n in ast.walk(st):
            mut = None
            if isinstance(n, ast.Call) and isinstance(n.func, ast.Attribute) and n.func.attr in ("pop", "extend", "append", "clear", "update", "insert", "remove", "popitem", "setdefault"):
                base = n.func.value
                while isinstance(base, (ast.Subscript, ast.Attribute)):
                    base = base.value
                if isinstance(base, ast.Name) and base.id in buckets:
                    mut = n
            if isinstance(n, (ast.Delete,)) and any(isinstance(t, ast.Subscript) and isinstance(t.value, ast.Name) and t.value.id in buckets for t in n.targets):
                mut = n
            if isinstance(n, ast.Subscript) and isinstance(n.ctx, ast.Store) and isinstance(n.value, ast.Name) and n.value.id in buckets:
                mut = n
            if mut is not None:
                ctx.fail("C16.R4", f"{sb.qualname}:rebucketing", mut, f"`{short(mut, 60)}` moves elements between buckets after the classification: their position no longer follows the documented rule (declaration order within a group, attached elements next to their target)", sb.module.relpath, mut.lineno)
    # traversal: the emitting function appends once and recurses into both name buckets
    emit = [f for f in sb.nested.values() if any(isinstance(c, ast.Call) and norm(c.func) == "result.append" for c in ast.walk(f.node))]
    ctx.check(len(emit) == 1, "C16.R4", f"{sb.qualname}:emitter", fn.body[-1], "the recursive emitter of sort_by_order was not recognised", sb, fn, detail="one emitter")
    if len(emit) == 1:
        e = emit[0]
        n_app = sum(1 for c in ast.walk(e.node) if isinstance(c, ast.Call) and norm(c.func) == "result.append")
        rec = {n.iter.value.id for n in ast.walk(e.node) if isinstance(n, ast.For) and isinstance(n.iter, ast.Subscript) and isinstance(n.iter.value, ast.Name) and any(isinstance(c, ast.Call) and norm(c.func) == e.name for c in ast.walk(n))}
        ctx.check(n_app == 1 and rec == by_name, "C16.R4", f"{sb.qualname}:emitter-shape", e.node, f"the emitter appends {n_app} time(s) and recurses into {sorted(rec)} (name buckets: {sorted(by_name)})", sb, e.node, detail="append once; recurse into every name bucket")
        order_ok = [norm(n.iter.value) if isinstance(n, ast.For) else "append" for n in e.node.body if isinstance(n, ast.For) or (isinstance(n, ast.Expr) and "result.append" in norm(n))]
        ctx.check(order_ok == ["before", "append", "after"], "C16.R4", f"{sb.qualname}:emitter-order", e.node, f"emission order is {order_ok}: elements marked before= must precede and after= must follow their target", sb, e.node, detail="before, element, after")
    # ---------------- R8: "declaration order" is the order of the resolved annotations
    ctx.rule("C16.R8", "the field list an object hook hands to the views follows the order of the resolved annotations (`types`), in which regular fields and InitVar pseudo-fields are interleaved as declared: sort_by_order takes the incoming sequence for the declaration order", floor=3)
    ov = model.cls("apischema.objects.visitor.ObjectVisitor")
    for hook in ("dataclass", "named_tuple", "typed_dict"):
        m_ = ov.methods.get(hook)
        ctx.require(m_ is not None, f"ObjectVisitor.{hook} vanished")
        tparam = m_.params[2]
        calls8 = [c for c in ast.walk(m_.node) if isinstance(c, ast.Call) and norm(c.func) == "self._override_fields" and len(c.args) == 2]
        ctx.require(len(calls8) == 1, f"ObjectVisitor.{hook}: self._override_fields(tp, <fields>) not found")
        arg = calls8[0].args[1]
        src = arg
        if isinstance(arg, ast.Name):
            defs8 = [a.value for a in walk_no_nested(m_.node) if isinstance(a, ast.Assign) and norm(a.targets[0]) == arg.id]
            src = defs8[-1] if defs8 else arg
            multi = len(defs8) > 1
        else:
            multi = False
        ok8 = isinstance(src, ast.ListComp) and norm(src.generators[0].iter) in (tparam, f"{tparam}.items()", f"{tparam}.keys()") and not multi
        if not ok8 and isinstance(arg, ast.Name) and isinstance(src, ast.List) and not src.elts and not multi:
            # explicit loop: the list starts empty and is only appended to inside `for ... in types`
            apps = [c for c in ast.walk(m_.node) if isinstance(c, ast.Call) and norm(c.func) == f"{arg.id}.append"]
            par8 = {c_: p_ for p_ in ast.walk(m_.node) for c_ in ast.iter_child_nodes(p_)}

            def in_types_loop(n):
                p_ = par8.get(n)
                while p_ is not None:
                    if isinstance(p_, ast.For) and norm(p_.iter) in (tparam, f"{tparam}.items()", f"{tparam}.keys()"):
                        return True
                    p_ = par8.get(p_)
                return False
            others = [c for c in ast.walk(m_.node) if isinstance(c, ast.Call) and isinstance(c.func, ast.Attribute) and norm(c.func.value) == arg.id and c.func.attr in ("extend", "insert", "sort", "reverse")]
            ok8 = bool(apps) and all(in_types_loop(c) for c in apps) and not others
        ctx.check(ok8, "C16.R8", f"{m_.qualname}:order", None,
                  f"the fields are listed by `{short(src, 60)}`" + (" (then rebuilt)" if multi else "") + f", not by iterating over `{tparam}`: regular fields come first and init variables after them, whatever their place in the class - the deserialization schema, the GraphQL input type and object_fields() show another order than the declared one, and elements attached with order(after=<init var>) move with it",
                  m_, calls8[0], detail=f"[... for name in {tparam} ...]")

    # ---------------- R7: an ordered dataclass is not handed to the JSON library as it is
    ctx.rule("C16.R7", "PassThroughOptions(dataclasses=True): a dataclass is passed through untouched only when ordering left its fields in declaration order - the test compares each sorted field with the declared one (identity), a bare truth test of the field object is always true", floor=1)
    so_ = model.func("apischema.serialization.SerializationMethodVisitor.object")
    guards = [n for n in ast.walk(so_.node) if isinstance(n, ast.Call) and dotted(n.func) == "all" and n.args and isinstance(n.args[0], ast.GeneratorExp) and "zip(base_fields, fields_to_order)" in norm(n.args[0])]
    ctx.require(len(guards) == 1, "serialization object(): comparison of the ordered fields with the declared ones not found")
    elt = guards[0].args[0].elt
    tg = guards[0].args[0].generators[0].target
    names7 = [norm(x) for x in tg.elts] if isinstance(tg, ast.Tuple) else []
    ok7 = isinstance(elt, ast.Compare) and len(elt.ops) == 1 and isinstance(elt.ops[0], (ast.Is, ast.Eq)) and len(names7) == 2 \
        and {norm(elt.left), norm(elt.comparators[0])} == {names7[0], f"{names7[1]}.field"}
    ctx.check(ok7, "C16.R7", f"{so_.qualname}:declaration-order", None,
              f"`all({short(elt, 40)} for ...)` does not compare the ordered fields with the declared ones: with @order(['b', 'a']) the dataclass instance is returned as it is and the JSON library serializes it in declaration order (a, b) while serialize() without pass-through gives (b, a)",
              so_, guards[0], detail="all(f is f2.field for f, f2 in zip(base_fields, fields_to_order))")

    # ---------------- R6: one ordering for the serialized method and the GraphQL field of a resolver
    ctx.rule("C16.R6", "resolver(serialized=True, ...) registers the serialized method with every option the two decorators share (order, alias, conversion, schema, error_handler, owner): the serialized object and the GraphQL type order the method alike", floor=5)
    rs = model.func("apischema.graphql.resolvers.resolver")
    sd = [f for f in model.funcs_in_module("apischema.serialization.serialized_methods") if f.name == "serialized" and f.parent is None]
    ctx.require(sd, "serialized() not found")
    s_params = set()
    for f in sd:
        s_params |= {a.arg for a in f.node.args.kwonlyargs}
    r_params = {a.arg for a in rs.node.args.kwonlyargs}
    shared = sorted(s_params & r_params)
    ctx.require(len(shared) >= 5, f"options shared by resolver() and serialized(): only {shared}")
    calls = [c for c in ast.walk(rs.node) if isinstance(c, ast.Call) and dotted(c.func) in ("register_serialized", "serialized")]
    ctx.require(len(calls) == 1, "resolver(): the registration of the serialized method was not found")
    kws = {k.arg: k.value for k in calls[0].keywords}
    for opt in shared:
        v = kws.get(opt)
        ok = v is not None and any(isinstance(x, ast.Name) and (x.id == opt or x.id.rstrip("2") == opt) for x in ast.walk(v))
        ctx.check(ok, "C16.R6", f"{rs.qualname}:serialized({opt}=)", None,
                  f"`{short(calls[0], 60)}` does not forward `{opt}`: " + ("serialize() and the JSON schema place the method by declaration order while the GraphQL type uses the given order" if opt == "order" else f"the serialized method ignores the resolver's {opt}"),
                  rs, calls[0], detail=f"{opt}={opt}")

    # ---------------- R5: every element is reached, once (attachment cycles)
    ctx.rule("C16.R5", "elements attached to each other (after= / before= forming a cycle, or an element attached to itself) are reached from no order group: sort_by_order sweeps all the elements through the emitter after the groups, and the emitter emits an element at most once", floor=3)
    if len(emit) == 1:
        e = emit[0]
        sweeps = [n for n in rest if isinstance(n, ast.For) and norm(n.iter) == elts_p
                  and any(isinstance(c, ast.Call) and norm(c.func) == e.name and c.args and norm(c.args[0]) == norm(n.target) for c in ast.walk(n))]
        drain_pos = [rest.index(st) for st in rest if any(d in list(ast.walk(st)) for d in drains)]
        ctx.check(bool(sweeps) and (not drain_pos or rest.index(sweeps[0]) > max(drain_pos)), "C16.R5", f"{sb.qualname}:sweep", drains[0] if drains else fn.body[-1],
                  "only the elements of the order groups and those attached to them are emitted: elements whose after= / before= targets form a cycle (or name the element itself) are silently dropped from the serialized object, the schemas and the GraphQL type",
                  sb, fn, detail=f"for elt in {elts_p}: {e.name}(elt) after the groups")
        # the guard: `if <k> in <S>: return` then `<S>.add(<k>)` before any append / recursion
        body = e.node.body
        guard_i = next((i for i, st in enumerate(body) if isinstance(st, ast.If) and not st.orelse and len(st.body) == 1 and isinstance(st.body[0], ast.Return)
                        and isinstance(st.test, ast.Compare) and len(st.test.ops) == 1 and isinstance(st.test.ops[0], ast.In) and isinstance(st.test.comparators[0], ast.Name)), None)
        first_emit = next((i for i, st in enumerate(body) if any(isinstance(c, ast.Call) and norm(c.func) in ("result.append", e.name) for c in ast.walk(st))), len(body))
        ok = False
        if guard_i is not None and guard_i < first_emit:
            g = body[guard_i]
            S, k = g.test.comparators[0].id, norm(g.test.left)
            marks = [i for i, st in enumerate(body) if isinstance(st, ast.Expr) and norm(st.value) == f"{S}.add({k})"]
            created = any(isinstance(t, ast.Assign) and norm(t.targets[0]) == S and norm(t.value) in ("set()",) for t in fn.body)
            ok = bool(marks) and guard_i < marks[0] < first_emit and created
            kdef = [st for st in body[:guard_i] if isinstance(st, ast.Assign) and norm(st.targets[0]) == k]
            ok = ok and (k == e.params[0] or (len(kdef) == 1 and norm(kdef[0].value) == f"{sb.params[2]}({e.params[0]})"))
        ctx.check(ok, "C16.R5", f"{sb.qualname}:once", e.node, "the emitter does not skip an element already emitted (guard on a set of emitted names, marked before recursing): with the final sweep an element is emitted twice, and an attachment cycle recurses forever",
                  sb, e.node, detail="if name in added: return; added.add(name) before append / recursion")
        ctx.check(any(isinstance(st, ast.Return) and norm(st.value) == "result" for st in fn.body[-1:]), "C16.R5", f"{sb.qualname}:returns-result", fn.body[-1], "sort_by_order does not end by returning the emitted list", sb, fn, detail="return result")
    # the shortcut returns the single group only when nothing is attached
    for n in fn.body:
        if isinstance(n, ast.If) and any(isinstance(x, ast.Return) for x in n.body):
            t = norm(n.test)
            ctx.check(all(f"not {b}" in t for b in by_name) and "len(groups) == 1" in t, "C16.R4", f"{sb.qualname}:shortcut", n, "the single-group shortcut does not require the name buckets to be empty: attached elements are lost", sb, n, detail="not after and not before and len(groups) == 1")


def mutants(mb):
    mb.add_text("neg-dataclass-fields-loop", "apischema/objects/visitor.py", "        object_fields = [\n            by_name[name]\n            for name in types\n            if name in by_name and by_name[name].kind != self._field_kind_filtered\n        ]\n", "        object_fields = []\n        for name in types:\n            if name in by_name and by_name[name].kind != self._field_kind_filtered:\n                object_fields.append(by_name[name])\n", negative=True)
    mb.add_text("dataclass-fields-by-group", "apischema/objects/visitor.py", "        object_fields = [\n            by_name[name]\n            for name in types\n            if name in by_name and by_name[name].kind != self._field_kind_filtered\n        ]\n", "        object_fields = [f for f in by_name.values() if f.kind != self._field_kind_filtered]\n", "C16.R8", "dataclass")
    mb.add_text("dataclass-passthrough-ignores-order", "apischema/serialization/__init__.py", "            and all(f is f2.field for f, f2 in zip(base_fields, fields_to_order))\n", "            and all(f2.field for f, f2 in zip(base_fields, fields_to_order))\n", "C16.R7", "declaration-order")
    mb.add_text("resolver-serialized-order-dropped", "apischema/graphql/resolvers.py", "                    order=order,\n                    owner=owner,\n                )(func)", "                    owner=owner,\n                )(func)", "C16.R6", "order")
    O = "apischema/ordering.py"
    mb.add_text("groups-descending", O, "    for value in sorted(groups):", "    for value in sorted(groups, reverse=True):", "C16.R4", "ascending")
    mb.add_text("default-group-one", O, "        if ordering is None:\n            groups[0].append(elt)", "        if ordering is None:\n            groups[1].append(elt)", "C16.R4", "group-keys")
    mb.add_text("after-target-unguarded", O, "            (after[target] if target in names else groups[0]).append(elt)", "            after[target].append(elt)", "C16.R4", "after[target]")
    mb.add_text("names-from-groups-only", O, "    names = set(map(name, elts))\n", "    names = set()\n", "C16.R4", "[target]")
    mb.add_text("emitter-order-swapped", O, "        for before_elt in before[elt_name]:\n            add_to_result(before_elt)\n        result.append(elt)\n", "        result.append(elt)\n        for before_elt in before[elt_name]:\n            add_to_result(before_elt)\n", "C16.R4", "emitter-order")
    mb.add_text("shortcut-ignores-before", O, "    if not after and not before and len(groups) == 1:", "    if not after and len(groups) == 1:", "C16.R4", "shortcut")
    mb.add_text("classified-twice", O, "        elif ordering.order is not None:\n            groups[ordering.order].append(elt)\n", "        elif ordering.order is not None:\n            groups[ordering.order].append(elt)\n            groups[0].append(elt)\n", "C16.R4", "classified-once")
    mb.add_text("no-cycle-sweep", O, "    for elt in elts:\n        add_to_result(elt)\n    return result\n", "    return result\n", "C16.R5", "sweep")
    mb.add_text("sweep-before-groups", O, "    for value in sorted(groups):\n        for elt in groups[value]:\n            add_to_result(elt)\n    # elements attached to each other in a cycle are reached from no group\n    for elt in elts:\n        add_to_result(elt)\n",
                "    for elt in elts:\n        add_to_result(elt)\n    for value in sorted(groups):\n        for elt in groups[value]:\n            add_to_result(elt)\n", "C16.R5", "sweep")
    mb.add_text("emitter-unguarded", O, "        if elt_name in added:\n            return\n        added.add(elt_name)\n", "", "C16.R5", "once")
    mb.add_text("emitter-marks-late", O, "        added.add(elt_name)\n        for before_elt in before[elt_name]:\n            add_to_result(before_elt)\n", "        for before_elt in before[elt_name]:\n            add_to_result(before_elt)\n        added.add(elt_name)\n", "C16.R5", "once")
    mb.add_text("neg-sweep-renamed", O, "    for elt in elts:\n        add_to_result(elt)\n    return result\n", "    for remaining in elts:\n        add_to_result(remaining)\n    return result\n", negative=True)
    O = "apischema/ordering.py"
    S = "apischema/serialization/__init__.py"
    J = "apischema/json_schema/schema.py"
    G = "apischema/graphql/schema.py"
    mb.add_text("mro-loop-not-reversed", O, "    return {\n        get_field_name(field, methods=True): ordering\n        for sub_cls in reversed(cls.__mro__)\n        if sub_cls in _order_overriding\n        for field, ordering in _order_overriding[sub_cls].items()\n    }\n",
                "    overriding = {}\n    for sub_cls in cls.__mro__:\n        if sub_cls not in _order_overriding:\n            continue\n        for field, ordering in _order_overriding[sub_cls].items():\n            overriding[get_field_name(field, methods=True)] = ordering\n    return overriding\n", "C16.R3", "get_order_overriding")
    mb.add_text("neg-mro-loop-reversed", O, "    return {\n        get_field_name(field, methods=True): ordering\n        for sub_cls in reversed(cls.__mro__)\n        if sub_cls in _order_overriding\n        for field, ordering in _order_overriding[sub_cls].items()\n    }\n",
                "    overriding = {}\n    for sub_cls in reversed(cls.__mro__):\n        if sub_cls not in _order_overriding:\n            continue\n        for field, ordering in _order_overriding[sub_cls].items():\n            overriding[get_field_name(field, methods=True)] = ordering\n    return overriding\n", negative=True)
    mb.add_text("mro-not-reversed", O, "        for sub_cls in reversed(cls.__mro__)\n", "        for sub_cls in cls.__mro__\n", "C16.R3", "get_order_overriding")
    mb.add_text("chainmap-reversed", O, "    return {\n        get_field_name(field, methods=True): ordering\n        for sub_cls in reversed(cls.__mro__)\n        if sub_cls in _order_overriding\n        for field, ordering in _order_overriding[sub_cls].items()\n    }\n",
                "    from collections import ChainMap\n    return ChainMap(*({get_field_name(f, methods=True): o for f, o in _order_overriding[sub_cls].items()} for sub_cls in reversed(cls.__mro__) if sub_cls in _order_overriding))\n", "C16.R3", "get_order_overriding")
    mb.add_text("override-as-default", O, "ordering = order_overriding.get(name(elt), order(elt))", "ordering = order(elt) or order_overriding.get(name(elt))", "C16.R3", "sort_by_order")
    mb.add_text("ser-sorted-by-alias", S, "                cls, fields_to_order, lambda f: f.name, lambda f: f.ordering\n", "                cls, fields_to_order, lambda f: f.field.alias, lambda f: f.ordering\n", "C16.R1", "getters")
    mb.add_text("ser-no-sort", S, "            for f in sort_by_order(\n                cls, fields_to_order, lambda f: f.name, lambda f: f.ordering\n            )\n", "            for f in fields_to_order\n", "C16.R1", "SerializationMethodVisitor.object")
    mb.add_text("schema-resorted", J, "        flattened_schemas: List[JsonSchema] = []\n        pattern_properties = {}", "        properties = sorted(properties, key=lambda p: p.alias)\n        flattened_schemas: List[JsonSchema] = []\n        pattern_properties = {}", "C16.R1", "no-reorder")
    mb.add_text("element-name-alias", S, "            fields_to_order.append(FieldToOrder(field.name, field.ordering, base_field))", "            fields_to_order.append(FieldToOrder(field.alias, field.ordering, base_field))", "C16.R2", "FieldToOrder.name")
    mb.add_text("property-name-alias", J, "                AliasedStr(serialized.alias),\n                serialized.func.__name__,\n", "                AliasedStr(serialized.alias),\n                serialized.alias,\n", "C16.R2", "Property.name")
    mb.add_text("graphql-ordering-none", G, "                    self._field(tp, field),\n                    field.ordering,\n                )\n                visited_fields.append(normal_field)\n            elif field.flattened:\n                flattened_factory", "                    self._field(tp, field),\n                    None,\n                )\n                visited_fields.append(normal_field)\n            elif field.flattened:\n                flattened_factory", "C16.R2", "ordering")
    mb.add_text("neg-chainmap-mro", O, "    return {\n        get_field_name(field, methods=True): ordering\n        for sub_cls in reversed(cls.__mro__)\n        if sub_cls in _order_overriding\n        for field, ordering in _order_overriding[sub_cls].items()\n    }\n",
                "    from collections import ChainMap\n    return ChainMap(*({get_field_name(f, methods=True): o for f, o in _order_overriding[sub_cls].items()} for sub_cls in cls.__mro__ if sub_cls in _order_overriding))\n", negative=True)
