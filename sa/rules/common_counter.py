"""Counter discipline of the `len(data) != fields_count` shortcut.

The object nodes skip the scan for unexpected properties when the number of keys
of the datum equals the number of declared (non-aggregate) fields found in it.
That shortcut is sound only if the counter never over-counts:
    fields_count <= |keys(data) & aliases(self.fields)|
which the code guarantees by the idiom
    fields_count = 0
    for field in self.fields:
        if field.alias in data:
            fields_count += 1
    ...
    if len(data) != fields_count: <scan data.keys() - self.all_aliases>
An over-count (initialising to len(fields), counting a missing field, adding a
term to the comparison, rebinding / shrinking `data` between the count and the
comparison) silently accepts, or fails to report, unexpected properties.

Shared by C01 (acceptance), C02 (a violation must not hide a sibling violation)
and C13 (discriminated dispatch must reject what the alternative rejects).
"""
import ast
from typing import List

from ..cfg import CFG
from ..model import AnalysisError
from ..nodes import deser_nodes, own_methods
from ..util import dotted, norm, short, walk_no_nested


def _len_operand(node):
    if isinstance(node, ast.Call) and isinstance(node.func, ast.Name) and node.func.id == "len" and len(node.args) == 1:
        return node.args[0]
    return None


def check_counters(ctx, rule: str):
    model = ctx.model
    ctx.rule(rule, "unexpected-property shortcut: the counter compared with len(data) counts exactly the declared keys present in data (no over-count, data unchanged in between)", floor=2)
    found = 0
    for m in own_methods(deser_nodes(model)):
        fn = m.node
        aug = {}
        for n in walk_no_nested(fn):
            if isinstance(n, ast.AugAssign) and isinstance(n.target, ast.Name):
                aug.setdefault(n.target.id, []).append(n)
        compares = []
        for n in walk_no_nested(fn):
            if isinstance(n, ast.Compare) and len(n.ops) == 1:
                sides = [n.left, n.comparators[0]]
                for i in (0, 1):
                    op = _len_operand(sides[i])
                    other = sides[1 - i]
                    if op is not None and isinstance(op, ast.Name):
                        counters = [x.id for x in ast.walk(other) if isinstance(x, ast.Name) and x.id in aug]
                        if counters:
                            compares.append((n, op.id, other, counters))
        if not compares:
            continue
        cfg = CFG(fn, exc_edges=True)  # handlers inside the counting loop matter
        parents = {}
        for p in ast.walk(fn):
            for c in ast.iter_child_nodes(p):
                parents[c] = p
        for cmp_node, data_name, other, counters in compares:
            found += 1
            construct = f"{m.qualname}:{counters[0]}"
            problems: List[str] = []
            bad_stmt = cmp_node
            # (c) comparison shape
            if not (isinstance(other, ast.Name) and isinstance(cmp_node.ops[0], (ast.NotEq, ast.Eq))):
                problems.append(f"the shortcut compares len({data_name}) with `{norm(other)}` instead of the bare counter: any added term lets some unexpected keys through")
            c = counters[0]
            # (a) assignments to the counter
            inits = []
            for n in walk_no_nested(fn):
                tgt = None
                if isinstance(n, ast.Assign) and len(n.targets) == 1 and isinstance(n.targets[0], ast.Name):
                    tgt, val = n.targets[0].id, n.value
                elif isinstance(n, ast.AnnAssign) and isinstance(n.target, ast.Name) and n.value is not None:
                    tgt, val = n.target.id, n.value
                if tgt == c:
                    inits.append((n, val))
            for n, val in inits:
                if not (isinstance(val, ast.Constant) and val.value == 0):
                    problems.append(f"counter initialised with `{norm(val)}` instead of 0 (L{n.lineno})")
                    bad_stmt = n
            if not inits:
                problems.append("counter never initialised to 0")
            loop = None
            for a in aug.get(c, []):
                if not (isinstance(a.op, ast.Add) and isinstance(a.value, ast.Constant) and a.value.value == 1):
                    problems.append(f"counter updated by `{norm(a)}` (L{a.lineno}); only `+= 1` per present key is sound")
                    bad_stmt = a
                    continue
                # (b) direct child of `if <x>.alias in data:` directly inside `for x in self.fields`
                par = parents.get(a)
                ok = False
                if isinstance(par, ast.If) and a in par.body:
                    t = par.test
                    if (
                        isinstance(t, ast.Compare) and len(t.ops) == 1 and isinstance(t.ops[0], ast.In)
                        and isinstance(t.left, ast.Attribute) and t.left.attr == "alias" and isinstance(t.left.value, ast.Name)
                        and isinstance(t.comparators[0], ast.Name) and t.comparators[0].id == data_name
                    ):
                        gp = parents.get(par)
                        if isinstance(gp, ast.For) and par in gp.body and isinstance(gp.target, ast.Name) and gp.target.id == t.left.value.id and dotted(gp.iter) == "self.fields":
                            ok = True
                            loop = gp
                if not ok:
                    problems.append(f"`{norm(a)}` (L{a.lineno}) is not the direct body of `if <field>.alias in {data_name}` inside `for <field> in self.fields`: a field that is absent (or counted twice) inflates the counter")
                    bad_stmt = a
            if not aug.get(c):
                problems.append("no increment found")
            # (d) data unchanged between the counting loop and the comparison
            if loop is not None and not problems:
                loop_node = cfg.stmt_node.get(loop)
                cmp_stmt = None
                for st in ast.walk(fn):
                    if isinstance(st, (ast.If, ast.While)) and any(x is cmp_node for x in ast.walk(st.test)):
                        cmp_stmt = st
                test_node = cfg.stmt_node.get(cmp_stmt) if cmp_stmt is not None else None
                if loop_node is None or test_node is None:
                    raise AnalysisError(f"cannot place the counter comparison of {m.qualname} in its CFG")
                for n in walk_no_nested(fn):
                    writes = False
                    if isinstance(n, (ast.Assign, ast.AugAssign, ast.AnnAssign)):
                        tg = n.targets if isinstance(n, ast.Assign) else [n.target]
                        for t in tg:
                            for x in ast.walk(t):
                                if isinstance(x, ast.Name) and x.id == data_name and isinstance(x.ctx, ast.Store):
                                    writes = True
                                if isinstance(x, ast.Subscript) and isinstance(x.value, ast.Name) and x.value.id == data_name and isinstance(x.ctx, ast.Store):
                                    writes = True
                    elif isinstance(n, ast.Delete):
                        for t in n.targets:
                            if isinstance(t, ast.Subscript) and isinstance(t.value, ast.Name) and t.value.id == data_name:
                                writes = True
                    elif isinstance(n, ast.Expr) and isinstance(n.value, ast.Call) and isinstance(n.value.func, ast.Attribute) and isinstance(n.value.func.value, ast.Name) and n.value.func.value.id == data_name and n.value.func.attr in ("pop", "clear", "update", "popitem", "setdefault"):
                        writes = True
                    if not writes:
                        continue
                    wn = cfg.stmt_node.get(n)
                    if wn is None:
                        continue
                    between = wn in cfg.reachable(loop_node) and test_node in cfg.reachable(wn) and wn is not test_node
                    if between:
                        problems.append(f"`{short(n, 60)}` (L{n.lineno}) changes `{data_name}` between the counting loop and the comparison with len({data_name})")
                        bad_stmt = n
            ctx.check(not problems, rule, construct, bad_stmt,
                      "unexpected-property shortcut unsound: " + "; ".join(problems) + " - data carrying unexpected properties can skip the scan (accepted or under-reported)",
                      m, bad_stmt, detail=f"len({data_name}) {norm(cmp_node.ops[0]) if False else '!='} {c}: init 0, +1 under `alias in {data_name}` in `for field in self.fields`, data unchanged in between")
    if found == 0:
        raise AnalysisError("the `len(data) != fields_count` shortcut was not found in any object node: idiom changed, rule needs re-confirmation")


def counter_mutants(mb, rule: str):
    P = "apischema/deserialization/methods.py"
    mb.add_text("counter-init-len", P, "        fields_count: int = 0\n        field_errors: Optional[dict] = None\n        for field in self.fields:\n            if field.alias in data:\n                fields_count += 1\n                try:\n                    field.method.deserialize(data[field.alias])",
                "        fields_count: int = len(self.fields)\n        field_errors: Optional[dict] = None\n        for field in self.fields:\n            if field.alias in data:\n                fields_count += 0\n                try:\n                    field.method.deserialize(data[field.alias])", rule, "SimpleObjectMethod")
    mb.add_text("counter-extra-term", P, "        elif len(data) != fields_count:\n", "        elif len(data) != fields_count + (discriminator is not None):\n", rule, "ObjectMethod")
    mb.add_text("counter-count-missing", P, "            elif field.required:\n                field_errors = set_child_error(\n                    field_errors, field.alias, ValidationError(self.missing)\n                )\n        has_discriminator = False",
                "            elif field.required:\n                fields_count += 1\n                field_errors = set_child_error(\n                    field_errors, field.alias, ValidationError(self.missing)\n                )\n        has_discriminator = False", rule, "SimpleObjectMethod")
    mb.add_text("counter-neg-rename", P, "        if len(data) != fields_count and not self.typed_dict:\n", "        if fields_count != len(data) and not self.typed_dict:\n", negative=True)
