"""Recursion totality of the compiled method tree.

A node that holds child methods (directly, in a tuple / dict, or through a
descriptor such as Field.method) must invoke each of them on the corresponding
part of the datum, and must use the result unless it is one of the declared
check-only (discarding) variants. A child that is never invoked means its
sub-tree of the type is not validated / not serialized at all.
"""
import ast
from typing import Dict, List, Optional, Set

from ..model import AnalysisError
from ..nodes import DESER_BASE, DESER_MOD, SER_BASE, SER_MOD, deser_nodes, ser_nodes
from ..util import dotted, norm, short, walk_no_nested
from ..visitors import classify_impl


def _bindings(fn) -> Dict[str, ast.AST]:
    """local name -> expression it was bound from (assignment value or iterable)"""
    out: Dict[str, ast.AST] = {}
    for n in ast.walk(fn):
        if isinstance(n, (ast.For, ast.comprehension)):
            it = n.iter
            if isinstance(it, ast.Call) and dotted(it.func) in ("enumerate", "zip", "reversed", "iter") and it.args:
                its = it.args
            else:
                its = [it]
            tg = n.target
            names = [tg] if isinstance(tg, ast.Name) else [x for x in ast.walk(tg) if isinstance(x, ast.Name)]
            for nm in names:
                for i in its:
                    out.setdefault(nm.id, i)
        elif isinstance(n, ast.Assign) and len(n.targets) == 1 and isinstance(n.targets[0], ast.Name):
            out.setdefault(n.targets[0].id, n.value)
        elif isinstance(n, ast.AnnAssign) and isinstance(n.target, ast.Name) and n.value is not None:
            out.setdefault(n.target.id, n.value)
    return out


def _positions(fn) -> Dict[str, tuple]:
    """local name -> (kind, position) for names bound by `for a, b in X.items()` / `enumerate(X)`"""
    out: Dict[str, tuple] = {}
    for n in ast.walk(fn):
        if isinstance(n, (ast.For, ast.comprehension)) and isinstance(n.target, ast.Tuple) and isinstance(n.iter, ast.Call):
            f = n.iter.func
            kind = "items" if isinstance(f, ast.Attribute) and f.attr == "items" else "enumerate" if isinstance(f, ast.Name) and f.id == "enumerate" else None
            if kind:
                for i, t in enumerate(n.target.elts):
                    if isinstance(t, ast.Name):
                        out[t.id] = (kind, i)
    return out


def derived_from(e, param: str, bind: Dict[str, ast.AST], depth=0) -> bool:
    """does the expression mention the datum parameter, directly or through local bindings?"""
    if depth > 6:
        return False
    for x in ast.walk(e):
        if isinstance(x, ast.Name) and isinstance(x.ctx, ast.Load):
            if x.id == param:
                return True
            if x.id in bind and bind[x.id] is not e and derived_from(bind[x.id], param, bind, depth + 1):
                return True
    return False


def root_self_attr(e, bind: Dict[str, ast.AST], depth=0) -> Optional[str]:
    if depth > 5 or e is None:
        return None
    if isinstance(e, ast.Attribute):
        if isinstance(e.value, ast.Name) and e.value.id == "self":
            return e.attr
        return root_self_attr(e.value, bind, depth + 1)
    if isinstance(e, ast.Subscript):
        return root_self_attr(e.value, bind, depth + 1)
    if isinstance(e, ast.Call):
        if isinstance(e.func, ast.Attribute) and e.func.attr in ("values", "items", "get", "keys"):
            return root_self_attr(e.func.value, bind, depth + 1)
        if isinstance(e.func, ast.Name) and e.func.id == "super":
            return "super()"
        if isinstance(e.func, ast.Attribute) and isinstance(e.func.value, ast.Name) and e.func.value.id == "self":
            return e.func.attr  # a factory held by the node: self.factory(cls) -> method
        return None
    if isinstance(e, ast.Name):
        if e.id in bind:
            return root_self_attr(bind[e.id], bind, depth + 1)
    return None


def child_attrs(model, cls_q: str, base_name: str, bearers: Set[str]) -> Dict[str, str]:
    """attribute -> 'direct' | 'via:<descriptor class>'"""
    out: Dict[str, str] = {}
    for c in reversed(model.mro(cls_q)):
        ci = model.classes[c]
        for name, ann in ci.annotations.items():
            t = norm(ann)
            if t.startswith("Lazy[") or t.startswith("ClassVar"):
                continue
            if base_name in t or "AnyMethod" in t and base_name.startswith("Serialization"):
                out[name] = "direct"
            else:
                for b in bearers:
                    if b in t.replace("[", " ").replace("]", " ").replace(",", " ").split():
                        out[name] = f"via:{b}"
    return out


def children_rule(ctx, rule: str, side: str):
    model = ctx.model
    base = DESER_BASE if side == "deser" else SER_BASE
    modname = DESER_MOD if side == "deser" else SER_MOD
    verb = "deserialize" if side == "deser" else "serialize"
    base_name = base.split(".")[-1]
    pairs = deser_nodes(model) if side == "deser" else ser_nodes(model)
    # descriptor classes: dataclasses of the module with a `method` field of node type, that are not nodes
    bearers: Set[str] = set()
    for ci in model.classes_in_module(modname):
        if model.is_subclass(ci.qualname, base):
            continue
        for c in model.mro(ci.qualname):
            ann = model.classes[c].annotations.get("method")
            if ann is not None and base_name in norm(ann):
                bearers.add(ci.name)
    with_method = set(bearers)
    # abstract bases of descriptor classes (BaseField) stand for their subclasses in annotations
    for ci in model.classes_in_module(modname):
        if ci.name in bearers:
            for c in model.mro(ci.qualname)[1:]:
                if c in model.classes and model.classes[c].module.name == modname and not model.is_subclass(c, base):
                    bearers.add(model.classes[c].name)
    n = 0
    for cls, m in pairs:
        if m.cls is not cls or classify_impl(m) == "abstract":
            continue
        attrs = child_attrs(model, cls.qualname, base_name, bearers)
        if not attrs:
            continue
        bind = _bindings(m.node)
        invoked: Set[str] = set()
        for c in ast.walk(m.node):
            if isinstance(c, ast.Call) and isinstance(c.func, ast.Attribute) and c.func.attr in (verb, "update_result"):
                r = root_self_attr(c.func.value, bind)
                if r:
                    invoked.add(r)
                # result use: `x = child(...)` must be read afterwards
        params = m.params
        param = params[1] if len(params) > 1 else None
        pos = _positions(m.node)
        for c in ast.walk(m.node):
            if not (isinstance(c, ast.Call) and isinstance(c.func, ast.Attribute) and c.func.attr == verb and c.args and param):
                continue
            r = root_self_attr(c.func.value, bind)
            if not r or r == "super()":
                continue
            n += 1
            arg = c.args[0]
            ctx.check(derived_from(arg, param, bind), rule, f"{cls.name}.{r}:arg", c,
                      f"`{short(c, 70)}`: the child is not applied to (a part of) `{param}`", m, c, detail=f"argument derives from `{param}`")
            if isinstance(arg, ast.Name) and arg.id in pos:
                kind, i = pos[arg.id]
                want = 0 if (kind == "items" and r.startswith("key")) else 1
                n += 1
                ctx.check(i == want, rule, f"{cls.name}.{r}:part", c,
                          f"`{short(c, 70)}`: `{r}` is applied to element {i} of the {kind}() pair instead of element {want}", m, c, detail=f"{kind}()[{want}]")
        for a, how in sorted(attrs.items()):
            n += 1
            construct = f"{cls.name}.{a}"
            ok = a in invoked
            if not ok and "super()" in invoked:
                # inherited behaviour handles the inherited attribute
                parent = model.find_method(cls.qualname, verb, after=cls.qualname)
                ok = parent is not None
            ctx.check(ok, rule, construct, m.node.body[0],
                      f"{cls.name} holds child method(s) in `{a}` ({how}) but its {verb}() never invokes them: that part of the type is neither checked nor converted",
                      m, m.node, detail=f"self.{a} -> .{verb}()")
        # results of child calls bound to a local must be used
        for st in walk_no_nested(m.node):
            if isinstance(st, (ast.Assign, ast.AnnAssign)):
                v = st.value
                t = st.targets[0] if isinstance(st, ast.Assign) else st.target
                if isinstance(v, ast.Call) and isinstance(v.func, ast.Attribute) and v.func.attr == verb and isinstance(t, ast.Name) and root_self_attr(v.func.value, bind):
                    loads = [x for x in ast.walk(m.node) if isinstance(x, ast.Name) and x.id == t.id and isinstance(x.ctx, ast.Load)]
                    n += 1
                    ctx.check(bool(loads), rule, f"{cls.name}:{t.id}", st,
                              f"`{short(st, 70)}`: the child's result is bound to `{t.id}` and never used: the node returns a value that ignores it", m, st, detail=f"`{t.id}` is read later")
    # descriptor classes that apply their own method (serialization field strategies)
    for ci in model.classes_in_module(modname):
        if ci.name not in with_method or "update_result" not in ci.methods:
            continue
        ur = ci.methods["update_result"]
        n += 1
        ok = any(isinstance(c, ast.Call) and isinstance(c.func, ast.Attribute) and c.func.attr == verb and norm(c.func.value) == "self.method" for c in ast.walk(ur.node))
        ctx.check(ok, rule, f"{ci.name}.method", ur.node.body[0], f"{ci.name}.update_result never applies self.method: the field value is stored unconverted", ur, ur.node, detail=f"self.method.{verb}()")
    if n < 10:
        raise AnalysisError(f"only {n} child-method obligations found on the {side} side")
