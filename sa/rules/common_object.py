"""Object-node protocol: which events are recorded under which conditions.

For every object-deserialization node (a node class with `fields`, `missing` and
`unexpected` attributes) the reach conditions of its event sites are read off the
source (sa.pathcond), evaluated as propositional functions of atoms that are
themselves sub-expressions of the source (sa.boolx), and compared, valuation by
valuation, with the function the documentation prescribes:

  child applied      <=>  alias in data
  MISSING recorded   <=>  alias not in data  and (required or (required_by set and one requiring key present))
  child error kept   <=>  alias in data and child failed and (required or not fall_back_on_default)
  UNEXPECTED(key)    <=>  key not declared and key is not the discriminator and additional properties are rejected
                          and no additional-properties field captures it
  typed-dict copy    <=>  key not declared and additional properties allowed and the class is a TypedDict ...

The shortcut guards (`remain`, `len(data) != fields_count`) are fixed to True in
the UNEXPECTED / copy tables: they are implied by the existence of an undeclared
key (C01.R5 proves the counter discipline); a flipped guard therefore shows as a
table difference.
"""
import ast
from typing import Callable, Dict, List

from ..boolx import BoolEval, Unknown, show, valuations
from ..model import AnalysisError
from ..nodes import DESER_BASE
from ..pathcond import HANDLER, complements, parents_of, path_condition
from ..util import dotted, norm, short
from .common_children import _bindings, derived_from

ATOMS = {
    "field.alias in data": "in_data",
    "field.required": "required",
    "field.required_by is not None": "rb_set",
    "field.required_by": "rb_set",
    "field.required_by.isdisjoint(data)": "!rb_hit",
    "field.required_by.isdisjoint(data.keys())": "!rb_hit",
    "field.fall_back_on_default": "fbd",
    "flattened_field.fall_back_on_default": "fbd",
    "pattern_field.fall_back_on_default": "fbd",
    "self.additional_field.fall_back_on_default": "fbd",
    HANDLER: "failed",
    "self.aggregate_fields": "agg",
    "self.additional_field is not None": "addl",
    "self.additional_field": "addl",
    "remain": "remain",
    "len(data) != fields_count": "mismatch",
    "fields_count != len(data)": "mismatch",
    "self.additional_properties": "addprops",
    "self.typed_dict": "typed",
    "key != discriminator": "!isdisc",
    "discriminator != key": "!isdisc",
    "isinstance(data, dict)": "is_dict",      # the entry check as a guard clause: a given for everything after it
}
NAMES = ["in_data", "required", "rb_set", "rb_hit", "fbd", "failed", "agg", "addl", "remain", "mismatch", "addprops", "typed", "isdisc", "is_dict"]


def _mentions(e, text: str, fn, depth=0) -> bool:
    """does `e` (or the nearest preceding local definition of a name it reads) mention `text`?"""
    if depth > 4:
        return False
    for x in ast.walk(e):
        if isinstance(x, ast.Attribute) and norm(x) == text:
            return True
        if isinstance(x, ast.Name) and isinstance(x.ctx, ast.Load):
            best = None
            for a in ast.walk(fn):
                if isinstance(a, ast.Assign) and len(a.targets) == 1 and isinstance(a.targets[0], ast.Name) and a.targets[0].id == x.id and a.lineno < x.lineno:
                    if best is None or a.lineno > best.lineno:
                        best = a
            if best is not None and _mentions(best.value, text, fn, depth + 1):
                return True
    return False


def _handler_names(fn) -> set:
    return {h.name for h in ast.walk(fn) if isinstance(h, ast.ExceptHandler) and h.name}


def object_nodes(model):
    out = []
    for q in model.subclasses(DESER_BASE, strict=True):
        ann = {}
        for c in model.mro(q):
            ann.update(model.classes[c].annotations)
        if {"fields", "missing", "unexpected"} <= set(ann):
            m = model.classes[q].methods.get("deserialize")
            if m is not None:
                out.append((model.classes[q], m))
    if len(out) < 2:
        raise AnalysisError(f"only {len(out)} object node classes (fields/missing/unexpected) found, expected ObjectMethod and SimpleObjectMethod")
    return out


def object_protocol_rule(ctx, rule: str, clauses):
    model = ctx.model
    atoms = complements(ATOMS)
    for cls, m in object_nodes(model):
        fn = m.node
        parents = parents_of(fn)
        bind = _bindings(fn)
        hnames = _handler_names(fn)
        has_addprops = any("additional_properties" in model.classes[c].annotations for c in model.mro(cls.qualname))
        sites: Dict[str, List[ast.AST]] = {"missing": [], "child": [], "unexpected": [], "copy": [], "applied": []}
        for c in ast.walk(fn):
            if isinstance(c, ast.Call) and (isinstance(c.func, ast.Name) and c.func.id == "set_child_error") and len(c.args) == 3:
                e = c.args[2]
                if _mentions(e, "self.missing", fn):
                    sites["missing"].append(c)
                elif _mentions(e, "self.unexpected", fn):
                    sites["unexpected"].append(c)
                elif isinstance(e, ast.Name) and e.id in hnames and norm(c.args[1]) == "field.alias":
                    sites["child"].append(c)
            if isinstance(c, ast.Call) and isinstance(c.func, ast.Attribute) and c.func.attr == "deserialize" and norm(c.func.value) == "field.method":
                sites["applied"].append(c)
            if isinstance(c, ast.Assign) and len(c.targets) == 1 and norm(c.targets[0]) == "values[key]" and norm(c.value) == "data[key]":
                sites["copy"].append(c)

        ev = BoolEval(atoms)

        def reach(kind) -> Callable:
            fs = [ev.compile(path_condition(fn, s, parents)) for s in sites[kind]]
            return lambda v: any(bool(f(v)) for f in fs)

        free = lambda v: (not v["rb_hit"] or v["rb_set"]) and (not v["addl"] or v["agg"]) and v["is_dict"]
        undeclared = lambda v: free(v) and v["remain"] and v["mismatch"]
        captured = lambda v: v["agg"] and v["addl"]
        if has_addprops:
            want_unexpected = lambda v: not v["addprops"] and not v["isdisc"] and not captured(v)
        else:  # node selected only when typed_dict == additional_properties
            want_unexpected = lambda v: not v["typed"] and not v["isdisc"]
        has_rb = any("required_by" in norm(s) for s in ast.walk(fn) if isinstance(s, ast.Attribute))
        expected = {
            "applied": (free, lambda v: v["in_data"], "the child method is applied exactly when the alias is present"),
            "missing": (free, (lambda v: not v["in_data"] and (v["required"] or (v["rb_set"] and v["rb_hit"]))) if has_rb else (lambda v: not v["in_data"] and v["required"]),
                        "MISSING is recorded exactly for an absent field that is required (or required by a present key)"),
            "child": (free, lambda v: v["in_data"] and v["failed"] and (v["required"] or not v["fbd"]),
                      "a child error is kept unless the field is optional and falls back on its default"),
            "unexpected": (undeclared, want_unexpected, "UNEXPECTED is recorded for every undeclared non-discriminator key when additional properties are rejected"),
            "copy": (undeclared, lambda v: v["addprops"] and v["typed"] and not captured(v), "undeclared keys of a TypedDict are copied when additional properties are allowed"),
        }
        for kind in clauses:
            if kind not in expected:
                continue
            dom, want, text = expected[kind]
            construct = f"{cls.name}:{kind}"
            if not sites[kind]:
                if kind == "copy" and not has_addprops:
                    continue
                ctx.fail(rule, construct, None, f"{cls.name}.deserialize has no site for `{kind}` ({text})", m.module.relpath, fn.lineno)
                continue
            try:
                got = reach(kind)
                bad = None
                n = 0
                for v in valuations(NAMES, dom):
                    n += 1
                    if bool(got(v)) != bool(want(v)):
                        bad = v
                        break
            except Unknown as err:
                ctx.undecided(rule, f"{construct}: {err}")
                continue
            s0 = sites[kind][0]
            ctx.check(bad is None, rule, construct, s0,
                      f"{text}: under [{show(bad) if bad else ''}] the code {'records' if bad and got(bad) else 'does not record'} it (sites: {', '.join(str(s.lineno) for s in sites[kind])})",
                      m, s0, detail=f"{len(sites[kind])} site(s), {n} valuations")
        if "child" in clauses:
            # aggregate fields (flattened / pattern / additional): both halves of the child's error are kept
            # unless the field falls back on its default
            per_handler: Dict[ast.AST, set] = {}
            for c in ast.walk(fn):
                if isinstance(c, ast.Call) and isinstance(c.func, ast.Name) and c.func.id in ("extend_errors", "update_children_errors") and len(c.args) == 2:
                    a = c.args[1]
                    if isinstance(a, ast.Attribute) and isinstance(a.value, ast.Name) and a.value.id in hnames:
                        h = c
                        while h is not None and not isinstance(h, ast.ExceptHandler):
                            h = parents.get(h)
                        if h is None:
                            continue
                        per_handler.setdefault(h, set()).add(a.attr)
                        construct = f"{cls.name}:aggregate:{a.attr}@{norm(parents[h].body[-1])[:40]}"
                        try:
                            got = ev.compile(path_condition(fn, c, parents))
                            bad = None
                            for v in valuations(NAMES, lambda v: free(v) and v["agg"] and v["addl"]):
                                if bool(got(v)) != bool(v["failed"] and not v["fbd"]):
                                    bad = v
                                    break
                        except Unknown as err:
                            ctx.undecided(rule, f"{construct}: {err}")
                            continue
                        ctx.check(bad is None, rule, construct, c, f"`{short(c, 60)}` is reached under the wrong condition ([{show(bad) if bad else ''}]): an aggregate field's error is kept iff it does not fall back on its default",
                                  m, c, detail="failed and not fall_back_on_default")
            for h, halves in per_handler.items():
                ctx.check(halves == {"messages", "children"}, rule, f"{cls.name}:aggregate:halves@{norm(parents[h].body[-1])[:40]}", h.body[0],
                          f"the handler keeps only {sorted(halves)} of the aggregate field's error (messages and children are both part of it)", m, h, detail="messages + children")
        if "attribution" in clauses:
            # the declared keys are those of the normal fields only (aggregate fields have no key of their own)
            from .c11 import bind_args, init_params
            built = [(fi_, c_) for fi_ in model.functions.values() if fi_.module.name == "apischema.deserialization" for c_ in ast.walk(fi_.node)
                     if isinstance(c_, ast.Call) and (dotted(c_.func) or "").split(".")[-1] == cls.name]
            for fi_, c_ in built:
                arg = bind_args(init_params(model, cls), c_).get("all_aliases")
                src = arg
                if isinstance(arg, ast.Name):
                    src = next((a_.value for a_ in ast.walk(fi_.node) if isinstance(a_, ast.Assign) and norm(a_.targets[0]) == arg.id), arg)
                ok_ = isinstance(src, (ast.SetComp, ast.GeneratorExp, ast.ListComp)) or (isinstance(src, ast.Call) and src.args and isinstance(src.args[0], (ast.GeneratorExp, ast.ListComp, ast.SetComp)))
                comp = src if isinstance(src, (ast.SetComp, ast.GeneratorExp, ast.ListComp)) else (src.args[0] if ok_ else None)
                ok_ = comp is not None and norm(comp.generators[0].iter) == "normal_fields" and norm(comp.elt).endswith(".alias")
                ctx.check(ok_, rule, f"{cls.name}:attribution:all_aliases", c_, f"{cls.name}.all_aliases is built from `{short(src, 60)}`: it must hold the (aliased) keys of the normal fields only; with the aggregate fields' own aliases a key named like a flattened / properties field is neither validated nor reported as unexpected", fi_, c_, detail="{field.alias for field in normal_fields}")
        if "attribution" in clauses and has_addprops:
            # which keys of the datum feed each aggregate field
            def arg_comp(call):
                a = call.args[0] if call.args else None
                v = bind.get(a.id) if isinstance(a, ast.Name) else a
                return v if isinstance(v, ast.DictComp) else None
            rem_def = bind.get("remain")
            ctx.check(rem_def is not None and isinstance(rem_def, ast.BinOp) and isinstance(rem_def.op, ast.Sub) and norm(rem_def.right) == "self.all_aliases" and derived_from(rem_def.left, "data", bind),
                      rule, f"{cls.name}:attribution:remain", fn.body[0], "`remain` is not the keys of data minus the declared aliases", m, fn, detail="data.keys() - self.all_aliases")
            for c in ast.walk(fn):
                if not (isinstance(c, ast.Call) and isinstance(c.func, ast.Attribute) and c.func.attr == "deserialize"):
                    continue
                recv = norm(c.func.value)
                kind = {"flattened_field.method": "flattened", "pattern_field.method": "pattern", "self.additional_field.method": "additional"}.get(recv)
                if kind is None:
                    continue
                dc = arg_comp(c)
                construct = f"{cls.name}:attribution:{kind}"
                if dc is None:
                    ctx.fail(rule, construct, c, f"the datum given to the {kind} field is not a dict comprehension over the keys of data: attribution cannot be decided", m.module.relpath, c.lineno)
                    continue
                g = dc.generators[0]
                k = norm(g.target)
                ok_val = norm(dc.key) == k and norm(dc.value) == f"data[{k}]"
                conds = [norm(x) for x in g.ifs]
                if kind == "flattened":
                    # every alias of the flattened object present in the datum, whoever else uses that key
                    ok = norm(g.iter) == "flattened_field.aliases" and conds == [f"{k} in data"]
                    why = "a flattened field receives each of its aliases present in data (a key may also belong to the enclosing object or another flattened field)"
                elif kind == "pattern":
                    ok = norm(g.iter) == "remain" and f"isinstance({k}, str)" in " ".join(conds) and f"pattern_field.pattern.match({k})" in " ".join(conds)
                    why = "a pattern field receives the not-yet-attributed string keys matching its pattern"
                else:
                    ok = norm(g.iter) == "remain" and not conds
                    why = "the additional-properties field receives every key left"
                ctx.check(ok and ok_val, rule, construct, dc, f"`{short(dc, 80)}`: {why}", m, dc, detail=why)
                if kind in ("flattened", "pattern"):
                    # the attributed keys leave `remain` before the next field / the unexpected-key scan
                    st = c
                    while st is not None and not isinstance(st, ast.Try):
                        st = parents.get(st)
                    blk = parents.get(st)
                    body = getattr(blk, "body", []) if blk is not None else []
                    before = body[: body.index(st)] if st in body else []
                    var = c.args[0].id if c.args and isinstance(c.args[0], ast.Name) else "?"
                    ok2 = any(norm(x) == f"remain.difference_update({var})" for x in before)
                    ctx.check(ok2, rule, f"{construct}:consumed", c, f"the keys given to the {kind} field are not removed from `remain`: they would also be reported as unexpected / given to the additional field", m, c, detail=f"remain.difference_update({var})")
        if "discriminated" in clauses:
            # a datum arriving through a DiscriminatorMethod is unwrapped: its discriminator key is remembered, its dict re-checked
            branch = next((n for n in ast.walk(fn) if isinstance(n, ast.If) and norm(n.test) == "isinstance(data, Discriminated)"), None)
            construct = f"{cls.name}:discriminated"
            if branch is None:
                ctx.fail(rule, construct, None, f"{cls.name}.deserialize no longer unwraps Discriminated data: members of a discriminated union are rejected (or the discriminator key reported as unexpected)", m.module.relpath, fn.lineno)
            else:
                # assignments of the branch, tuple assignments taken apart: (target text, value node), in order
                pairs = []
                for x in ast.walk(ast.Module(body=branch.body, type_ignores=[])):
                    if isinstance(x, (ast.Assign, ast.AnnAssign)) and getattr(x, "value", None) is not None:
                        tg = x.targets[0] if isinstance(x, ast.Assign) else x.target
                        if isinstance(tg, ast.Tuple) and isinstance(x.value, ast.Tuple) and len(tg.elts) == len(x.value.elts):
                            pairs.extend((norm(t_), v_, x.lineno) for t_, v_ in zip(tg.elts, x.value.elts))
                        else:
                            pairs.append((norm(tg), x.value, x.lineno))
                defs = {t_: v_ for t_, v_, _ in pairs}

                def comes_from(v_, text, depth=0):
                    """the value is `text`, possibly through locals of the branch"""
                    if norm(v_) == text:
                        return True
                    return depth < 3 and isinstance(v_, ast.Name) and v_.id in defs and norm(defs[v_.id]) != v_.id and comes_from(defs[v_.id], text, depth + 1)
                disc_vars = [t_ for t_, v_, _ in pairs if comes_from(v_, "data.discriminator") and not t_.startswith("_xk")]
                unwrap = [ln for t_, v_, ln in pairs if t_ == "data" and comes_from(v_, "data.data")]
                ok = bool(disc_vars) and bool(unwrap)
                var = disc_vars[-1] if disc_vars else None
                ctx.check(ok, rule, construct, branch, "the Discriminated wrapper is not unwrapped as (discriminator key remembered, data = data.data)", m, branch, detail="discriminator = data.discriminator; data = data.data")
                # the unwrapped datum is checked to be a dict: `data.data` before the unwrapping, `data` after it (inside the branch, or right after it)
                blk_after = []
                pb = parents.get(branch)
                for fld in ("body", "orelse"):
                    lst = getattr(pb, fld, None) if pb is not None else None
                    if isinstance(lst, list) and branch in lst:
                        blk_after = lst[lst.index(branch) + 1:]
                u_line = unwrap[0] if unwrap else 0

                def dict_check(x, text):
                    if not isinstance(x, ast.If):
                        return False
                    # the datum is `text`, or a local of the branch holding it (`wrapped = data.data`)
                    subjects = {text} | {t_ for t_, v_, _ in pairs if comes_from(v_, text) and t_ != "data"}
                    neg = any(norm(x.test) == f"not isinstance({s_}, dict)" for s_ in subjects) and any(isinstance(y, ast.Raise) for y in x.body)
                    pos = any(norm(x.test) == f"isinstance({s_}, dict)" for s_ in subjects) and bool(x.orelse) and any(isinstance(y, ast.Raise) for y in x.orelse)
                    return neg or pos
                rechecked = any(dict_check(x, "data.data") and x.lineno <= u_line for x in ast.walk(ast.Module(body=branch.body, type_ignores=[]))) \
                    or any(dict_check(x, "data") and x.lineno >= u_line for x in ast.walk(ast.Module(body=branch.body, type_ignores=[]))) \
                    or any(dict_check(x, "data") for x in blk_after[:1])
                ctx.check(rechecked, rule, construct + ":recheck", branch, "the unwrapped datum is not re-checked to be a dict", m, branch, detail="if not isinstance(data, dict): raise bad_type")
                uses = [c for c in ast.walk(fn) if isinstance(c, ast.Compare) and var and len(c.comparators) == 1 and {norm(c.left), norm(c.comparators[0])} == {var, "key"}]
                ctx.check(bool(uses), rule, construct + ":exempt", branch, f"the remembered discriminator key `{var}` is never compared with the undeclared keys: it is reported as an unexpected property", m, branch, detail="key != discriminator")
        # iteration source of the undeclared-key loops
        for kind in ("unexpected", "copy"):
            if kind not in clauses:
                continue
            for s in sites[kind]:
                loop = s
                while loop is not None and not (isinstance(loop, ast.For) and norm(loop.target) == "key"):
                    loop = parents.get(loop)
                construct = f"{cls.name}:{kind}:keys"
                if loop is None:
                    ctx.fail(rule, construct, s, "undeclared-key site is not inside a `for key in ...` loop", m.module.relpath, s.lineno)
                    continue
                it = loop.iter
                src = bind.get(it.id) if isinstance(it, ast.Name) else it
                ok = isinstance(src, ast.BinOp) and isinstance(src.op, ast.Sub) and norm(src.right) == "self.all_aliases" and derived_from(src.left, "data", bind)
                ctx.check(ok, rule, construct, loop, f"`{short(loop, 60)}` does not range over the keys of data minus the declared aliases", m, loop, detail="data.keys() - self.all_aliases")
