"""C20 - concurrent first use from several threads is safe.

Decides: no write to state shared between threads on a first-use path is both
unsynchronised and state-dependent. Shared state = module-level containers,
objects returned by cached functions (and attributes aliasing them), attributes
of the compiled node objects. Each write reachable from the public entry points
must be under a module-level lock (lexically or in every caller) or be an
idempotent memo.
"""
import ast
from ..visitors import _always_exits
import copy
from typing import Dict, List, Optional, Set, Tuple

from ..callgraph import CallGraph
from ..model import AnalysisError, FuncInfo
from ..nodes import DESER_BASE, SER_BASE
from ..scope import Env
from ..util import dotted, names_in, norm, short, walk_no_nested
from .c09 import MUTATING, discover, is_self_memo

ENTRIES = [
    "apischema.deserialization.deserialize", "apischema.deserialization.deserialization_method",
    "apischema.serialization.serialize", "apischema.serialization.serialization_method", "apischema.serialization.serialization_default",
    "apischema.json_schema.schema.deserialization_schema", "apischema.json_schema.schema.serialization_schema",
    "apischema.json_schema.schema.definitions_schema", "apischema.graphql.schema.graphql_schema",
]
CACHE_DECO = "apischema.cache.cache"
LOCK_CTORS = {"threading.Lock", "threading.RLock"}


def module_locks(model) -> Set[str]:
    out = set()
    for mod in model.modules.values():
        for name, sts in mod.assigns.items():
            v = sts[-1].value
            if isinstance(v, ast.Call):
                q = model.resolve_dotted(mod, dotted(v.func) or "")
                if q in LOCK_CTORS or (dotted(v.func) or "").split(".")[-1] in ("Lock", "RLock"):
                    out.add(f"{mod.name}.{name}")
    return out


def with_lock_blocks(model, fi: FuncInfo, locks: Set[str]) -> List[ast.With]:
    env = Env(model, fi)
    out = []
    for n in walk_no_nested(fi.node):
        if isinstance(n, ast.With):
            for i in n.items:
                if env.resolve(i.context_expr) in locks:
                    out.append(n)
    return out


def strip_locked(fi: FuncInfo, blocks: List[ast.With]) -> FuncInfo:
    """copy of fi whose `with <lock>:` bodies are removed (call sites under a lock)."""
    ids = {id(b) for b in blocks}

    class Strip(ast.NodeTransformer):
        def visit_With(self, node):
            if getattr(node, "_locked", False):
                return ast.copy_location(ast.Pass(), node)
            return self.generic_visit(node)
    for b in blocks:
        b._locked = True
    new_node = Strip().visit(copy.deepcopy(fi.node))
    for b in blocks:
        del b._locked
    clone = FuncInfo(fi.qualname, new_node, fi.module, fi.cls, fi.parent)
    clone.nested = fi.nested
    return clone


def check(ctx):
    model = ctx.model
    ctx.explanations.append(
        "C20: lockset-style classification of shared writes. SHARED = module-level mutable containers, objects returned by "
        "@cache'd functions (and attributes / locals aliasing them), attributes of the compiled node objects. For every write "
        "to SHARED in a function reachable from the public entry points (call graph with CHA + RTA): the write is lexically "
        "inside `with <module-level lock>`, or the function is reachable only through call sites inside such a block (R1), "
        "or it is an idempotent memo - `if self.x is None: self.x = f(...)` whose right-hand side reads nothing that is "
        "written, or a module memo keyed by the function's own parameter (R2); anything else is a check-then-act / "
        "state-dependent publication and is reported. Not decided: interpreter-level visibility, races in user code, "
        "cache.reset() concurrent with use, two threads compiling equal but distinct method trees."
    )
    ctx.extra["trusted_base"] = ["functools.lru_cache is internally locked (CPython)"]
    locks = module_locks(model)
    ctx.extra["module_level_locks"] = sorted(locks)
    cg = CallGraph(model)

    # --- reachability from the entries, with and without the call sites under a lock
    for e in ENTRIES:
        model.func(e)
    prev_all_ctx = cg.reachable_ctx(ENTRIES)
    prev_all = {}
    for (fq, k), src in prev_all_ctx.items():
        prev_all.setdefault(fq, (fq, k))
    # unlocked reachability: strip `with lock` bodies
    locked_blocks: Dict[str, List[ast.With]] = {}
    for q in prev_all:
        fi = model.functions[q]
        b = with_lock_blocks(model, fi, locks)
        if b:
            locked_blocks[q] = b
    cg2 = CallGraph(model)
    for q, blocks in locked_blocks.items():
        fi = model.functions[q]
        clone = strip_locked(fi, blocks)
        cg2._edges.pop(q, None)
        cg2._edges[q] = CallGraph.summary(cg2, clone)
    prev_unlocked_ctx = cg2.reachable_ctx(ENTRIES)
    prev_unlocked = {}
    for node in prev_unlocked_ctx:
        prev_unlocked.setdefault(node[0], node)
    ctx.extra["reachable_from_entries"] = len(prev_all)
    ctx.extra["reachable_without_lock"] = len(prev_unlocked)

    # --- shared state
    wrapped, plain = discover(model)
    containers = set(wrapped) | set(plain)
    cached_funcs = {f.qualname for f in model.functions.values() if any(model.resolve_dotted(f.module, d) == CACHE_DECO for d in f.decorators)}
    # functions returning a mutable container they own -> shared object factories
    shared_factories = set()
    for q in cached_funcs:
        f = model.functions[q]
        for n in walk_no_nested(f.node):
            if isinstance(n, ast.Return) and isinstance(n.value, (ast.Dict, ast.List, ast.Set)) :
                shared_factories.add(q)
    ctx.require(shared_factories, "no cached function returning a shared container found (recursion_cache vanished?)")
    # attributes aliasing a shared object: self.x = <call of shared factory>
    shared_attrs: Dict[str, Set[str]] = {}
    for f in model.functions.values():
        if f.cls is None:
            continue
        env = Env(model, f)
        for n in walk_no_nested(f.node):
            if isinstance(n, ast.Assign) and isinstance(n.value, ast.Call) and env.resolve(n.value.func) in shared_factories:
                for t in n.targets:
                    if isinstance(t, ast.Attribute) and isinstance(t.value, ast.Name) and t.value.id == "self":
                        shared_attrs.setdefault(f.cls.qualname, set()).add(t.attr)

    ctx.rule("C20.R1", "writes to shared containers (module-level, or returned by a cached function) are under a module-level lock", floor=2)
    ctx.rule("C20.R2", "attribute writes on compiled (shared) node objects are idempotent memos", floor=2)
    n_shared_writes = 0
    for q in sorted(prev_all):
        fi = model.functions[q]
        env = Env(model, fi)
        owner = model.enclosing_class(fi)
        attrs = set()
        if owner is not None:
            for c in model.mro(owner.qualname):
                attrs |= shared_attrs.get(c, set())
        local_alias: Set[str] = set()
        for n in walk_no_nested(fi.node):
            if isinstance(n, ast.Assign):
                vals = n.value.elts if isinstance(n.value, ast.Tuple) else [n.value]
                tgts = n.targets[0].elts if isinstance(n.targets[0], ast.Tuple) else [n.targets[0]]
                for t, v in zip(tgts, vals):
                    if isinstance(t, ast.Name) and isinstance(v, ast.Call) and env.resolve(v.func) in shared_factories:
                        local_alias.add(t.id)
        blocks = locked_blocks.get(q, [])
        locked_ids = {id(x) for b in blocks for x in ast.walk(b)}
        for n in walk_no_nested(fi.node):
            target, what = None, None
            if isinstance(n, ast.Subscript) and isinstance(n.ctx, (ast.Store, ast.Del)):
                target, what = n.value, "item store"
            elif isinstance(n, ast.Call) and isinstance(n.func, ast.Attribute) and n.func.attr in MUTATING:
                target, what = n.func.value, f".{n.func.attr}()"
            if target is None:
                continue
            shared = None
            if isinstance(target, ast.Attribute) and isinstance(target.value, ast.Name) and target.value.id == "self" and target.attr in attrs:
                shared = f"self.{target.attr} (the object returned by a cached function, shared by every instance)"
            elif isinstance(target, ast.Name) and target.id in local_alias:
                shared = f"{target.id} (bound to the object returned by a cached function)"
            else:
                r = env.resolve(target)
                if r in containers:
                    shared = r
            if shared is None:
                continue
            n_shared_writes += 1
            construct = f"{q}:{short(n, 50)}"
            lexical = id(n) in locked_ids
            caller_locked = q not in prev_unlocked
            if lexical or caller_locked:
                ctx.ok("C20.R1", construct, "under lock: " + ("lexically" if lexical else f"every path from the entry points passes a `with lock` call site ({' -> '.join(CallGraph.chain_ctx(prev_all_ctx, prev_all[q], 5))})"), where=f"{fi.module.relpath}:{n.lineno}")
                continue
            r = env.resolve(target)
            if r in plain and is_self_memo(fi, r, env):
                ctx.ok("C20.R1", construct, "idempotent module memo keyed by the function's parameter", where=fi.loc)
                continue
            if r in wrapped:
                # registries are written by registration APIs; reaching one from an entry point means first-use registration
                pass
            ctx.fail("C20.R1", construct, n,
                     f"{what} on shared state {shared} reachable from the public entry points ({' -> '.join(CallGraph.chain_ctx(prev_unlocked_ctx, prev_unlocked[q], 7))}) with no lock held: "
                     f"the stored value depends on this thread's traversal and on a prior read of the same object (check-then-act); another thread can interleave",
                     fi.module.relpath, n.lineno)
    ctx.extra["shared_container_writes"] = n_shared_writes

    # --- node objects
    for base in (DESER_BASE, SER_BASE):
        verb = "deserialize" if base == DESER_BASE else "serialize"
        for cq in model.subclasses(base, strict=True):
            c = model.classes[cq]
            m = c.methods.get(verb)
            if m is None:
                continue
            stores = [n for n in walk_no_nested(m.node) if isinstance(n, ast.Attribute) and isinstance(n.ctx, (ast.Store, ast.Del)) and isinstance(n.value, ast.Name) and n.value.id == "self"]
            if not stores:
                continue
            written = {s.attr for s in stores}
            parents = {ch: p for p in ast.walk(m.node) for ch in ast.iter_child_nodes(p)}
            for s in stores:
                st = parents.get(s)
                while st is not None and not isinstance(st, ast.stmt):
                    st = parents.get(st)
                guard = parents.get(st)
                memo_guard = isinstance(guard, ast.If) and norm(guard.test) == f"self.{s.attr} is None"
                value = st.value if isinstance(st, (ast.Assign, ast.AnnAssign)) else None
                single_target = isinstance(st, ast.Assign) and len(st.targets) == 1 and st.targets[0] is s
                reads_written = set()
                if value is not None:
                    reads_written = {x.attr for x in ast.walk(value) if isinstance(x, ast.Attribute) and isinstance(x.value, ast.Name) and x.value.id == "self"} & written
                ok = memo_guard and single_target and not reads_written
                why = []
                if not memo_guard:
                    why.append(f"not guarded by `if self.{s.attr} is None`")
                if not single_target:
                    why.append("part of a multiple / tuple assignment (several attributes change non-atomically)")
                if reads_written:
                    why.append(f"its value reads {sorted(reads_written)}, which this method also writes")
                ctx.check(ok, "C20.R2", f"{c.name}.{verb}:self.{s.attr}", st,
                          f"`{short(st, 70)}` writes an attribute of a compiled node shared by all threads and is not an idempotent memo ({'; '.join(why)}): "
                          f"a second thread can observe the intermediate state",
                          m, st, detail=f"`if self.{s.attr} is None: self.{s.attr} = <pure of unwritten attributes>`")
    # --- R3: is_recursive reads its verdict where the checker wrote it
    ctx.rule("C20.R3", "is_recursive: the verdict is read from the dictionary the checker has filled - not from a separately fetched recursion_cache() result, which a cache reset (a registration made by another thread, set_size) makes a different object", floor=2)
    ir = model.func("apischema.recursion.is_recursive")
    all_rets = [n for n in walk_no_nested(ir.node) if isinstance(n, ast.Return) and isinstance(n.value, ast.Subscript)]
    runs = [c for c in walk_no_nested(ir.node) if isinstance(c, ast.Call) and isinstance(c.func, ast.Attribute) and c.func.attr in ("visit_with_conv", "visit")]
    ctx.require(len(runs) == 1, "is_recursive: the run of the recursion checker was not found")
    run = runs[0]
    par20 = {c_: p_ for p_ in ast.walk(ir.node) for c_ in ast.iter_child_nodes(p_)}

    def after_run(r) -> bool:
        """r is executed after the run of the checker: it follows (an enclosing statement of) the run in some statement list."""
        chain = []
        cur = run
        while cur is not None and cur is not ir.node:
            chain.append(cur)
            cur = par20.get(cur)
        for blk_owner in ast.walk(ir.node):
            for field in ("body", "orelse", "finalbody"):
                stmts = getattr(blk_owner, field, None)
                if not isinstance(stmts, list):
                    continue
                idx = [i for i, s_ in enumerate(stmts) if any(s_ is c_ for c_ in chain)]
                if idx and any(any(x is r for x in ast.walk(s_)) for s_ in stmts[idx[0] + 1:]):
                    # ... unless the branch that holds the run always leaves the function before reaching the rest of this list
                    holder = stmts[idx[0]]
                    leaves = False
                    if isinstance(holder, ast.If):
                        for branch in (holder.body, holder.orelse):
                            if any(any(x is run for x in ast.walk(s2)) for s2 in branch) and _always_exits(branch):
                                leaves = True
                    if not leaves:
                        return True
        return False
    rets = [r for r in all_rets if after_run(r)]
    ctx.require(len(rets) >= 1, "is_recursive: `return <cache>[rec_key]` after the run of the checker not found")
    ck = run.func.value
    for r3 in rets:
        base = r3.value.value
        cvar = norm(base)
        shares_arg = isinstance(base, ast.Name) and isinstance(ck, ast.Call) and any(isinstance(a, ast.Name) and a.id == cvar for a in list(ck.args) + [k.value for k in ck.keywords])
        reread = False
        if isinstance(ck, ast.Name):
            ctor = [n for n in walk_no_nested(ir.node) if isinstance(n, ast.Assign) and norm(n.targets[0]) == ck.id and isinstance(n.value, ast.Call)]
            shares_arg = isinstance(base, ast.Name) and any(isinstance(a, ast.Name) and a.id == cvar for n in ctor for a in list(n.value.args) + [k.value for k in n.value.keywords])
            assigns = [n for n in walk_no_nested(ir.node) if isinstance(n, ast.Assign) and norm(n.targets[0]) == cvar and n.lineno > run.lineno and n.lineno <= r3.lineno]
            reread = cvar == f"{ck.id}._cache" or (bool(assigns) and norm(max(assigns, key=lambda n: n.lineno).value) == f"{ck.id}._cache")
        ctx.check(shares_arg or reread, "C20.R3", f"{ir.qualname}:same-dict", None,
                  f"`{short(r3, 40)}` reads `{cvar}`, fetched with recursion_cache() by is_recursive, while the checker writes into the dictionary it fetched itself: when the caches are reset between the two fetches (CacheAwareDict.__setitem__ in another thread while this one waits for the lock; cache.set_size(0)) the key is missing - KeyError out of deserialize / serialize",
                  ir, r3, detail=f"{cvar} = <checker>._cache after the run (or the dictionary is handed to the checker)")
    inside = any(any(x is rets[0] for x in ast.walk(b)) and any(x is run for x in ast.walk(b)) for b in with_lock_blocks(model, ir, locks))
    ctx.check(inside, "C20.R3", f"{ir.qualname}:under-lock", None, "the run of the checker and the read of its verdict are not inside the same `with <lock>` block", ir, rets[0], detail="with _recursion_lock: run; return")

    # --- R4: containers captured by closures that outlive the call creating them
    ctx.rule("C20.R4", "a container created in a function and mutated by one of its nested functions is private to the call only if that nested function does not outlive it (it is called, never returned / stored / handed over, directly or through another closure): a lazily filled memo shared by escaping closures is a check-then-act on state shared by every thread using them", floor=1)
    MUT4 = {"append", "extend", "add", "update", "insert", "pop", "clear", "remove", "discard", "setdefault", "popitem"}
    n4 = 0
    for fi in list(model.functions.values()):
        if fi.parent is None or not fi.module.name.startswith("apischema"):
            continue
        local = {a.arg for a in fi.node.args.args + fi.node.args.kwonlyargs + fi.node.args.posonlyargs}
        if fi.node.args.vararg:
            local.add(fi.node.args.vararg.arg)
        if fi.node.args.kwarg:
            local.add(fi.node.args.kwarg.arg)
        for n in walk_no_nested(fi.node):
            if isinstance(n, ast.Name) and isinstance(n.ctx, ast.Store):
                local.add(n.id)
        for n in walk_no_nested(fi.node):
            tgt = None
            if isinstance(n, ast.Call) and isinstance(n.func, ast.Attribute) and n.func.attr in MUT4 and isinstance(n.func.value, ast.Name):
                tgt = n.func.value.id
            if isinstance(n, ast.Subscript) and isinstance(n.ctx, (ast.Store, ast.Del)) and isinstance(n.value, ast.Name):
                tgt = n.value.id
            if tgt is None or tgt in local:
                continue
            g = fi.parent
            owner_f = None
            while g is not None:
                if any(isinstance(a, (ast.Assign, ast.AnnAssign)) and any(isinstance(t, ast.Name) and t.id == tgt for t in (a.targets if isinstance(a, ast.Assign) else [a.target]))
                       and isinstance(a.value, (ast.List, ast.Dict, ast.Set, ast.ListComp, ast.DictComp, ast.SetComp, ast.Call)) for a in walk_no_nested(g.node)):
                    owner_f = g
                    break
                g = g.parent
            if owner_f is None:
                continue
            n4 += 1
            # does fi (or a closure referring to it) outlive the call of owner_f?
            sibs = owner_f.nested
            escaping = set()
            for nm, sf in sibs.items():
                for x in ast.walk(owner_f.node):
                    if isinstance(x, ast.Name) and x.id == nm and isinstance(x.ctx, ast.Load):
                        par_ = None
                        for p_ in ast.walk(owner_f.node):
                            if any(ch is x for ch in ast.iter_child_nodes(p_)):
                                par_ = p_
                        is_direct_call = isinstance(par_, ast.Call) and par_.func is x
                        in_decorator = False
                        if not is_direct_call and not in_decorator:
                            escaping.add(nm)
            changed = True
            while changed:
                changed = False
                for nm, sf in sibs.items():
                    if nm in escaping:
                        for x in ast.walk(sf.node):
                            if isinstance(x, ast.Name) and x.id in sibs and x.id not in escaping and x.id != nm:
                                escaping.add(x.id)
                                changed = True
            # lambdas of owner_f referring to a sibling make it escape too
            for lam in ast.walk(owner_f.node):
                if isinstance(lam, ast.Lambda):
                    for x in ast.walk(lam):
                        if isinstance(x, ast.Name) and x.id in sibs:
                            escaping.add(x.id)
            chain = fi
            top = fi
            while top.parent is not owner_f and top.parent is not None:
                top = top.parent
            outlives = top.name in escaping or any(nm in escaping and any(isinstance(x, ast.Name) and x.id == top.name for x in ast.walk(sf.node)) for nm, sf in sibs.items())
            lexical = any(any(x is n for x in ast.walk(b)) for b in with_lock_blocks(model, fi, locks))
            ctx.check((not outlives) or lexical, "C20.R4", f"{fi.qualname}:{tgt}", None,
                      f"`{short(n, 50)}` fills `{tgt}`, a container of {owner_f.qualname} captured by closures that outlive the call ({', '.join(sorted(escaping))}): two threads inside the window on first use both fill it (check-then-act without lock) - e.g. a memo list extended twice, after which every later use fails or differs",
                      fi, n, detail="mutated only by closures that do not escape, or under a module-level lock")
    ctx.check(n4 >= 1, "C20.R4", "closure-cells", None, "no container captured and mutated by a nested function found (rule instance vanished)", None, None, detail=f"{n4} site(s)", nontrivial=False)

    # lru_cache'd per-instance memo of LazyConversion is created at construction time only
    lc = model.classes.get("apischema.conversions.conversions.LazyConversion")
    if lc is not None:
        for name, m in lc.methods.items():
            if name == "__post_init__":
                continue
            sets = [n for n in walk_no_nested(m.node) if isinstance(n, ast.Call) and norm(n.func) == "object.__setattr__"]
            ctx.check(not sets, "C20.R2", f"LazyConversion.{name}", sets[0] if sets else None, "LazyConversion mutates itself after construction", m, m.node, detail="no post-construction mutation")


def fixtures(ctx):
    src = "def f(self):\n    if self.m is None:\n        lazy, self.lazy = self.lazy, None\n        self.m = lazy()\n"
    fn = ast.parse(src).body[0]
    stores = [n for n in ast.walk(fn) if isinstance(n, ast.Attribute) and isinstance(n.ctx, ast.Store)]
    if {s.attr for s in stores} != {"lazy", "m"}:
        raise AnalysisError("C20 positive fixture failed")


def mutants(mb):
    R = "apischema/recursion.py"
    mb.add_text("object-serialization-unsynchronised-memo", "apischema/objects/conversions.py", "    def __init__(self, obj):\n        _, new_init = _fields_and_init(cls, fields_and_methods)\n", "    resolved: list = []\n\n    def fields_and_init():\n        if not resolved:\n            resolved.extend(_fields_and_init(cls, fields_and_methods))\n        return resolved\n\n    def __init__(self, obj):\n        _, new_init = fields_and_init()\n", "C20.R4", "resolved")
    DM = "apischema/deserialization/methods.py"
    SM = "apischema/serialization/methods.py"
    mb.add_text("no-lock", R, "    with _recursion_lock:\n        cache = recursion_cache(checker_cls, default_conversion)\n        if rec_key not in cache:\n            checker = checker_cls(default_conversion)\n            checker.visit_with_conv(tp, conversion)\n            # caches can be reset at any time (registration in another thread,\n            # cache.set_size(0)): read the result where the checker has written it\n            cache = checker._cache\n        return cache[rec_key]\n", "    cache = recursion_cache(checker_cls, default_conversion)\n    if rec_key not in cache:\n        checker = checker_cls(default_conversion)\n        checker.visit_with_conv(tp, conversion)\n        cache = checker._cache\n    return cache[rec_key]\n", "C20.R1", "RecursiveChecker.visit")
    mb.add_text("lock-too-narrow", R, "    with _recursion_lock:\n        cache = recursion_cache(checker_cls, default_conversion)\n        if rec_key not in cache:\n            checker = checker_cls(default_conversion)\n            checker.visit_with_conv(tp, conversion)\n            # caches can be reset at any time (registration in another thread,\n            # cache.set_size(0)): read the result where the checker has written it\n            cache = checker._cache\n        return cache[rec_key]\n", "    with _recursion_lock:\n        cache = recursion_cache(checker_cls, default_conversion)\n        missing = rec_key not in cache\n    if missing:\n        checker = checker_cls(default_conversion)\n        checker.visit_with_conv(tp, conversion)\n        cache = checker._cache\n    return cache[rec_key]\n", "C20.R1", "RecursiveChecker.visit")
    mb.add_text("local-lock", R, "    with _recursion_lock:\n        cache = recursion_cache(checker_cls, default_conversion)\n", "    with RLock():\n        cache = recursion_cache(checker_cls, default_conversion)\n", "C20.R1", "RecursiveChecker.visit")
    mb.add_text("verdict-from-own-fetch", R, "            cache = checker._cache\n", "", "C20.R3", "same-dict")
    mb.add_text("verdict-refetched", R, "            cache = checker._cache\n", "            cache = recursion_cache(checker_cls, default_conversion)\n", "C20.R3", "same-dict")
    mb.add_text("recmethod-clears-lazy", DM, "        if self.method is None:\n            self.method = self.lazy()\n        return self.method.deserialize(data)", "        if self.method is None:\n            lazy, self.lazy = self.lazy, None\n            self.method = lazy()\n        return self.method.deserialize(data)", "C20.R2", "RecMethod")
    mb.add_text("ser-recmethod-unguarded", SM, "        if self.method is None:\n            self.method = self.lazy()\n        return self.method.serialize(obj)", "        self.method = self.lazy()\n        return self.method.serialize(obj)", "C20.R2", "RecMethod")
    mb.add_text("node-counter", DM, "    def deserialize(self, data: Any) -> Any:\n        if type(data) in self.constraints:", "    def deserialize(self, data: Any) -> Any:\n        self.calls = getattr(self, 'calls', 0) + 1\n        if type(data) in self.constraints:", "C20.R2", "AnyMethod")
    mb.add_text("module-memo-unlocked", "apischema/deserialization/__init__.py", "def get_constraints(schema: Optional[Schema]) -> Optional[Constraints]:\n    return schema.constraints if schema is not None else None\n", "_seen: Dict[Any, int] = {}\n\n\ndef get_constraints(schema: Optional[Schema]) -> Optional[Constraints]:\n    _seen[id(schema)] = len(_seen)\n    return schema.constraints if schema is not None else None\n", "C20.R1", "get_constraints")
    mb.add_text("neg-lock-renamed", R, "_recursion_lock = RLock()", "_checker_lock = RLock()", negative=True)
    mb.out[-1].new_src = mb.out[-1].new_src.replace("    with _recursion_lock:", "    with _checker_lock:")
