"""C11 - a field has one external name across every view.

Decides: every site that produces or consumes an external key derives it from
the field's alias, dynamically aliased exactly once (alias-flow lattice of
sa/aliasflow.py), in deserialization, serialization, both JSON schemas, error
locations and GraphQL; an aliaser in scope is forwarded to callees accepting one.
"""
import ast
from typing import Dict, List, Optional, Set, Tuple

from ..aliasflow import ALIAS, ALIASED, NAME, NONE, OTHER, AliasScope, is_bad
from ..model import AnalysisError, ClassInfo, FuncInfo
from ..util import dotted, norm, short, walk_no_nested

SCOPE_PREFIXES = (
    "apischema.deserialization", "apischema.serialization", "apischema.json_schema",
    "apischema.graphql", "apischema.validation", "apischema.objects",
)
SINK_FIELDS = {"alias", "aliases", "all_aliases", "required_by"}
SINK_MODULES = ("apischema.deserialization.methods", "apischema.serialization.methods", "apischema.json_schema.schema", "apischema.graphql.schema")
NAME_FIELDS_OK = {"field_name"}  # DiscriminateTypedDict.field_name indexes the Python TypedDict


def in_scope(fi: FuncInfo, prefixes=SCOPE_PREFIXES) -> bool:
    return fi.module.name.startswith(prefixes)


def init_params(model, cls: ClassInfo) -> List[str]:
    """positional parameter order of a dataclass __init__ (bases first), or of an
    explicit __init__."""
    m = model.find_method(cls.qualname, "__init__")
    if m is not None and not cls.is_dataclass():
        return [p for p in m.params if p != "self"]
    order: List[str] = []
    for c in reversed(model.mro(cls.qualname)):
        ci = model.classes[c]
        if not ci.is_dataclass():
            continue
        for name in ci.field_order:
            if name not in ci.annotations:
                continue
            ann = norm(ci.annotations[name])
            if ann.startswith("ClassVar") or ann.startswith("InitVar") and False:
                continue
            v = ci.attrs.get(name)
            if isinstance(v, ast.Call) and (dotted(v.func) or "").split(".")[-1] == "field" and any(k.arg == "init" and getattr(k.value, "value", True) is False for k in v.keywords):
                if name in order:
                    order.remove(name)
                continue
            if name not in order:
                order.append(name)
    return order


def bind_args(params: List[str], call: ast.Call) -> Dict[str, ast.AST]:
    out = {}
    for i, a in enumerate(call.args):
        if isinstance(a, ast.Starred):
            break
        if i < len(params):
            out[params[i]] = a
    for k in call.keywords:
        if k.arg:
            out[k.arg] = k.value
    return out


def scope_for(model, fi, cache):
    if fi.qualname not in cache:
        cache[fi.qualname] = AliasScope(model, fi)
    return cache[fi.qualname]


def check(ctx, prefixes=SCOPE_PREFIXES, P="C11", ids=None):
    model = ctx.model
    ids = ids or {k: f"{P}.{k}" for k in ("R1", "R2", "R4")}
    if P == "C11":
        ctx.explanations.append(
            "C11: alias-flow taint analysis (NAME / ALIAS / ALIASED). Decided: every application of a dynamic aliaser takes the "
            "static alias (R1), every external-key sink - node / strategy constructor fields alias, aliases, all_aliases, "
            "required_by; schema properties / required / dependentRequired / propertyName; GraphQL field and argument names; "
            "validator error relocation - receives the alias aliased exactly once (R2), the class aliaser is applied only in "
            "ObjectVisitor._object (R3), an aliaser in scope is forwarded to every callee that accepts one (R4), and the two "
            "places that resolve pending AliasedStr keys exist (R5). Not decided: override=False exemptions, the value of "
            "aliaser(class_aliaser(alias or name)) itself, locs for nested / flattened objects."
        )
    scopes: Dict[str, AliasScope] = {}
    funcs = [f for f in model.functions.values() if in_scope(f, prefixes)]

    # ---------------- R1: aliaser applications
    ctx.rule(ids["R1"], "every application of a dynamic aliaser (call, map, AliasedStr) takes the static alias", floor=10 if P == "C11" else 5)
    for fi in funcs:
        sc = scope_for(model, fi, scopes)
        parents = None
        for n in walk_no_nested(fi.node, include_lambda=True):
            if not isinstance(n, ast.Call):
                continue
            arg, how = None, None
            if sc.is_aliaser_call(n) and n.args:
                arg, how = n.args[0], "aliaser(...)"
            elif dotted(n.func) == "map" and len(n.args) >= 2 and sc.is_aliaser_ref(n.args[0]):
                arg, how = n.args[1], "map(aliaser, ...)"
            elif (dotted(n.func) or "").split(".")[-1] == "AliasedStr" and n.args and fi.cls is not None and fi.cls.name != "AliasGetter":
                arg, how = n.args[0], "AliasedStr(...)"
            if arg is None:
                continue
            kind = sc.classify(arg)
            if kind != ALIAS and isinstance(arg, ast.Name):
                # `aliaser(key)` under `isinstance(key, AliasedStr)`: an alias pending its aliaser
                if parents is None:
                    parents = {c: p for p in ast.walk(fi.node) for c in ast.iter_child_nodes(p)}
                p = parents.get(n)
                while p is not None:
                    if isinstance(p, ast.If) and isinstance(p.test, ast.Call) and dotted(p.test.func) == "isinstance" and len(p.test.args) == 2 and norm(p.test.args[0]) == arg.id and (dotted(p.test.args[1]) or "").endswith("AliasedStr"):
                        kind = ALIAS
                        break
                    p = parents.get(p)
            construct = f"{fi.qualname}:{how[:-5]}({norm(arg)})"
            msg = {
                NAME: "the dynamic aliaser is applied to the Python name, so alias(...) metadata and class aliasers are ignored in this view",
                ALIASED: "the key is aliased twice",
            }.get(kind, f"argument is {kind}, not the static alias")
            if is_bad(kind):
                msg = kind[4:]
            ctx.check(kind == ALIAS, ids["R1"], construct, n, msg, fi, n, detail=f"{how} <- {kind}")

    if P == "C11":
        # R1b: contract of the flattened-aliases helper
        ctx.rule("C11.R1b", "get_deserialization_flattened_aliases yields static aliases only", floor=1)
        v = model.classes.get("apischema.deserialization.flattened.InitFlattenedAliasVisitor")
        ctx.require(v is not None and "object" in v.methods, "InitFlattenedAliasVisitor.object vanished")
        fo = v.methods["object"]
        sc = scope_for(model, fo, scopes)
        for n in walk_no_nested(fo.node):
            if isinstance(n, ast.Yield) and n.value is not None:
                k = sc.classify(n.value)
                ctx.check(k == ALIAS, "C11.R1b", f"{fo.qualname}:yield {norm(n.value)}", n,
                          f"flattened alias collector yields {k}: the caller applies the dynamic aliaser to its result", fo, n, detail="yield field.alias")

    if P == "C11":
        # R8: descriptors of resolver parameters are built from the declared hint
        ctx.rule("C11.R8", "the ObjectField describing a resolver parameter is built from the declared type hint itself (types[param.name]), where an Annotated alias is the outermost constructor, in the schema builder and in the resolver wrapper alike", floor=2)
        for q in ("apischema.graphql.schema.OutputSchemaBuilder._resolver", "apischema.graphql.resolvers.resolver_resolve"):
            fi = model.func(q)
            ctors = [c for c in walk_no_nested(fi.node) if isinstance(c, ast.Call) and dotted(c.func) == "ObjectField"]
            ctx.require(len(ctors) == 1, f"{q}: ObjectField construction of the parameter not found")
            c = ctors[0]
            bound = bind_args(["name", "type", "required", "metadata", "default"], c)
            tvar = bound.get("type")
            ok = isinstance(tvar, ast.Name)
            why = "the type argument is not the looked-up hint"
            if ok:
                defs = [n for n in walk_no_nested(fi.node) if isinstance(n, (ast.Assign, ast.AnnAssign, ast.AugAssign))
                        and any(isinstance(t, ast.Name) and t.id == tvar.id for t in ([n.target] if not isinstance(n, ast.Assign) else n.targets))]
                before = [d for d in defs if d.lineno < c.lineno]
                ok = len(before) == 1 and isinstance(before[0], ast.Assign) and isinstance(before[0].value, ast.Subscript) \
                    and norm(before[0].value.value).split(".")[-1] == "types" and norm(before[0].value.slice).endswith(".name")
                if not ok:
                    extra = [d for d in before if not (isinstance(d, ast.Assign) and isinstance(d.value, ast.Subscript))]
                    why = (f"`{short(extra[0], 50)}` rewrites the hint before the descriptor is built" if extra else "the hint lookup `types[param.name]` is not the only definition reaching the descriptor")
            ctx.check(ok, "C11.R8", f"{q}:ObjectField.type", None,
                      f"{why}: ObjectField reads alias / schema metadata from an outermost Annotated only, so the argument is published (or read) under the Python name while the other side uses the alias",
                      fi, c, detail=f"ObjectField(param.name, {norm(tvar) if tvar is not None else '?'} = types[param.name], ...)")

    if P == "C11":
        ctx.rule("C11.R9", "name / alias domains: a container is looked up with keys of one domain only (Python names or external aliases); names and aliases are compared on the same field only", floor=20)
        from .common_domains import name_alias_domains_rule
        name_alias_domains_rule(ctx, "C11.R9", ("apischema.deserialization", "apischema.serialization", "apischema.json_schema", "apischema.graphql", "apischema.validation", "apischema.objects", "apischema.discriminators", "apischema.dependencies"))

    if P == "C11":
        ctx.rule("C11.R10", "schema generation serializes (the schema itself, embedded default values) with its own options: the aliaser of the call reaches every key (default values are serialized with the deferred aliaser AliasedStr) and the user's global pass-through setting is not inherited (it would return AliasedStr keys and nested schemas as they are)", floor=3)
        n10 = 0
        for fi in model.funcs_in_module("apischema.json_schema.schema"):
            for c in walk_no_nested(fi.node):
                if not (isinstance(c, ast.Call) and dotted(c.func) == "serialize"):
                    continue
                n10 += 1
                kws = {k.arg: k.value for k in c.keywords}
                is_schema = bool(c.args) and norm(c.args[0]) == "JsonSchema"
                pt = kws.get("pass_through")
                ctx.check(pt is not None and norm(pt) == "PassThroughOptions()", "C11.R10", f"{fi.qualname}:serialize({norm(c.args[0]) if c.args else '?'}):pass_through", None,
                          f"`{short(c, 60)}` inherits settings.serialization.pass_through: with PassThroughOptions(any=True) the Any method is the identity, property names (AliasedStr) are not aliased and nested schemas are not converted to the requested dialect",
                          fi, c, detail="pass_through=PassThroughOptions()")
                al = kws.get("aliaser")
                want = "aliaser" if is_schema else "AliasedStr"
                ctx.check(al is not None and norm(al) == want, "C11.R10", f"{fi.qualname}:serialize({norm(c.args[0]) if c.args else '?'}):aliaser", None,
                          (f"`{short(c, 60)}` does not apply the aliaser of the call" if is_schema else
                           f"`{short(c, 60)}`: the default value embedded in the schema is serialized with the global aliaser, not the one of the call: `default: {{'foo_bar': 0}}` next to `properties: {{'fooBar': ...}}` under aliaser=to_camel_case"),
                          fi, c, detail=f"aliaser={want}")
        ctx.require(n10 >= 3, f"serialize() calls of the schema generators: {n10} found")

    if P == "C11":
        ctx.rule("C11.R11", "every public entry point taking an `aliaser` falls back on the global one (settings.aliaser) when none is given: deserialize, serialize, the schema functions and validate report the same external names", floor=6)
        n11 = 0
        PUBLIC = [("apischema.deserialization", ("deserialize", "deserialization_method")), ("apischema.serialization", ("serialize", "serialization_method")),
                  ("apischema.json_schema.schema", ("deserialization_schema", "serialization_schema", "definitions_schema")), ("apischema.validation.validators", ("validate",))]
        for modname, names in PUBLIC:
            for fi in model.funcs_in_module(modname):
                if fi.name not in names or fi.parent is not None or fi.cls is not None:
                    continue
                if any((dotted(d) or "").endswith("overload") for d in fi.node.decorator_list):
                    continue
                allargs = fi.node.args.args + fi.node.args.kwonlyargs
                if not any(a.arg == "aliaser" for a in allargs):
                    continue
                n11 += 1
                defaults = dict(zip([a.arg for a in fi.node.args.args][len(fi.node.args.args) - len(fi.node.args.defaults):], fi.node.args.defaults))
                defaults.update({a.arg: d for a, d in zip(fi.node.args.kwonlyargs, fi.node.args.kw_defaults) if d is not None})
                d = defaults.get("aliaser")
                t = norm(fi.node)
                falls_back = "settings.aliaser" in t and ("opt_or(aliaser, settings.aliaser)" in t or "aliaser is None" in t)
                forwards = False
                if not falls_back:
                    for c in walk_no_nested(fi.node):
                        if isinstance(c, ast.Call) and (any(isinstance(a, ast.Name) and a.id == "aliaser" for a in c.args) or any(k.arg == "aliaser" and norm(k.value) == "aliaser" for k in c.keywords)):
                            kind, tg = model.resolve_call(fi, c)
                            for q_ in tg:
                                if q_ in model.functions:
                                    tt = norm(model.functions[q_].node)
                                    if "settings.aliaser" in tt and ("aliaser is None" in tt or "opt_or(aliaser, settings.aliaser)" in tt):
                                        forwards = True
                ok = d is not None and norm(d) == "None" and (falls_back or forwards)
                ctx.check(ok, "C11.R11", f"{fi.qualname}:aliaser-default", None,
                          f"{fi.name}() does not fall back on settings.aliaser when no aliaser is given (default `{norm(d) if d is not None else 'required'}`): with settings.camel_case = True, deserialize reports loc ['fooBar'] and {fi.name} ['foo_bar'] for the same field",
                          fi, fi.node, detail="aliaser=None -> settings.aliaser (or forwarded as is to a function that does)")
        ctx.require(n11 >= 6, f"public entry points with an aliaser parameter: {n11} found")

    if P == "C11":
        ctx.rule("C11.R12", "get_alias(obj).field is the static alias of the field wrapped in AliasedStr (so that the aliaser of the call is applied to it later, once); get_field(obj).field is the field descriptor", floor=2)
        ag = model.func("apischema.objects.getters.AliasGetter.__getattribute__")
        rets12 = [r for r in walk_no_nested(ag.node) if isinstance(r, ast.Return) and r.value is not None]
        ok12 = len(rets12) == 1 and isinstance(rets12[0].value, ast.Call) and dotted(rets12[0].value.func) == "AliasedStr" and len(rets12[0].value.args) == 1 \
            and isinstance(rets12[0].value.args[0], ast.Attribute) and rets12[0].value.args[0].attr == "alias" and "[name]" in norm(rets12[0].value.args[0].value)
        ctx.check(ok12, "C11.R12", f"{ag.qualname}:alias", None,
                  f"`{short(rets12[0], 70) if rets12 else ''}` is not AliasedStr(<field>.alias): an error yielded by a validator under get_alias(self).field is located under the Python name (or a string the aliaser of the call is never applied to) while deserialize consumes and reports the aliased key",
                  ag, rets12[0] if rets12 else ag.node, detail="AliasedStr(fields[name].alias)")
        fg = model.func("apischema.objects.getters.FieldGetter.__getattribute__")
        ctx.check(any(isinstance(r, ast.Return) and r.value is not None and norm(r.value).endswith("[name]") for r in walk_no_nested(fg.node)), "C11.R12", f"{fg.qualname}:field", None, "get_field(obj).x no longer returns the field descriptor itself", fg, fg.node, detail="fields[name]")
        for q12 in ("apischema.objects.getters.AliasGetter.__init__", "apischema.objects.getters.FieldGetter.__init__"):
            f12 = model.func(q12)
            ctx.check("object_fields2(obj)" in norm(f12.node), "C11.R12", f"{q12}:fields", None, "the getter is no longer built on the fields of the object's class", f12, f12.node, detail="self.fields = object_fields2(obj)", nontrivial=False)

    # ---------------- R2: sinks
    ctx.rule(ids["R2"], "every external-key sink receives the alias aliased exactly once", floor=12 if P == "C11" else 3)
    if P == "C11":
        ctx.rule("C11.R6", "the internal name slot of every field descriptor receives the Python field name", floor=8)
    sink_classes: Dict[str, List[str]] = {}
    for modname in SINK_MODULES:
        if modname not in model.modules:
            continue
        for ci in model.classes_in_module(modname):
            if modname == "apischema.graphql.schema" and not model.is_subclass(ci.qualname, "apischema.graphql.schema.BaseField"):
                continue  # Operation / Query / Mutation hold the *static* alias of an operation
            if modname == "apischema.json_schema.schema" and ci.name != "Property":
                continue
            params = init_params(model, ci)
            if SINK_FIELDS & set(params):
                sink_classes[ci.qualname] = params
    ctx.require(len(sink_classes) >= 8, f"only {len(sink_classes)} sink classes found")
    for fi in funcs:
        sc = scope_for(model, fi, scopes)
        for c in walk_no_nested(fi.node, include_lambda=True):
            if not isinstance(c, ast.Call):
                continue
            q = model.resolve_dotted(fi.module, dotted(c.func) or "")
            if q not in sink_classes:
                continue
            bound = bind_args(sink_classes[q], c)
            for pname in sorted(SINK_FIELDS & set(bound)):
                arg = bound[pname]
                kind = sc.classify(arg)
                ok = kind == ALIASED or (kind == NONE and pname == "alias")
                if kind == "EMPTY" and pname in ("required_by",):
                    ok = True
                clsname = q.split(".")[-1]
                construct = f"{fi.qualname}:{clsname}.{pname}"
                why = {
                    ALIAS: "the dynamic aliaser is never applied: this view keeps the raw alias while the other views use aliaser(alias)",
                    NAME: "the key is the Python name, not the alias",
                    OTHER: "cannot be shown to be aliaser(alias): its value is not derived from the field alias through the dynamic aliaser",
                }.get(kind, kind[4:] if is_bad(kind) else kind)
                ctx.check(ok, ids["R2"], construct, c,
                          f"{clsname}({pname}=`{short(arg, 50)}`): {why}", fi, c, detail=f"{pname} <- {kind}")
            if P == "C11" and "name" in bound:
                # the internal slot: values are stored / read in the Python object under the field's Python name
                arg = bound["name"]
                kind = sc.classify(arg)
                clsname = q.split(".")[-1]
                ctx.check(kind == NAME, "C11.R6", f"{fi.qualname}:{clsname}.name", c,
                          f"{clsname}(name=`{short(arg, 50)}`) is {kind}: the Python attribute / constructor keyword of a field is its name; with an alias different from the name the value is stored under (or read from) the wrong attribute",
                          fi, c, detail=f"name <- {kind}")
    if P == "C11":
        schema_sinks(ctx, scopes)
        # validator error relocation key
        v = model.func("apischema.validation.validators.validate")
        sc = scope_for(model, v, scopes)
        found = False
        for n in walk_no_nested(v.node):
            if isinstance(n, ast.Call) and (dotted(n.func) or "").endswith("ValidationError"):
                for kw in n.keywords:
                    if kw.arg == "children" and isinstance(kw.value, ast.Dict):
                        for k in kw.value.keys:
                            found = True
                            kind = sc.classify(k)
                            ctx.check(kind == ALIASED, "C11.R2", f"{v.qualname}:children-key", n,
                                      f"field-validator error relocated under `{norm(k)}` ({kind}), not under aliaser(alias)", v, n, detail="aliaser(getattr(get_alias(owner), field name))")
        ctx.require(found, "validator error relocation site not found in validate()")
        ga = [c for c in ast.walk(v.node) if isinstance(c, ast.Call) and dotted(c.func) == "get_alias"]
        ctx.check(len(ga) == 1 and [norm(a) for a in ga[0].args] == [v.params[0]], "C11.R2", f"{v.qualname}:alias-of-validated-class", ga[0] if ga else v.node.body[0],
                  f"the alias of a field validator's field is taken from `{norm(ga[0].args[0]) if ga and ga[0].args else '?'}` instead of the validated object: an inherited validator then reports under the alias of the class that defines it, ignoring the class aliaser (or alias overrides) of the subclass being validated", v, v.node, detail="get_alias(obj)")

    # ---------------- R3: class aliaser once
    if P == "C11":
        ctx.rule("C11.R3", "the class aliaser is applied only in ObjectVisitor._object, and object() hooks are reached only through _object", floor=2)
        users = []
        for fi in model.functions.values():
            for n in walk_no_nested(fi.node, include_lambda=True):
                if isinstance(n, ast.Name) and n.id == "get_class_aliaser" and isinstance(n.ctx, ast.Load):
                    users.append(fi)
        bad = [u for u in users if u.qualname != "apischema.objects.visitor.ObjectVisitor._object"]
        ctx.check(users and not bad, "C11.R3", "get_class_aliaser", bad[0].node if bad else None,
                  f"class aliaser looked up outside ObjectVisitor._object ({[b.qualname for b in bad]}): it would be applied twice or in one view only",
                  bad[0] if bad else None, bad[0].node if bad else None, detail="single lookup site")
        callers = []
        for fi in model.functions.values():
            if fi.cls is None or not model.is_subclass(fi.cls.qualname, "apischema.objects.visitor.ObjectVisitor"):
                continue
            for c in model.calls_in(fi):
                f = c.func
                if isinstance(f, ast.Attribute) and f.attr == "object" and isinstance(f.value, ast.Name) and f.value.id == "self":
                    callers.append(fi)
        badc = [c for c in callers if c.name != "_object"]
        ctx.check(callers and not badc, "C11.R3", "self.object(...)", badc[0].node if badc else None,
                  f"object() hook invoked directly from {[b.qualname for b in badc]}, bypassing _object (skip filter and class aliaser)",
                  badc[0] if badc else None, badc[0].node if badc else None, detail=f"{len(callers)} call site(s), all in _object")

    # ---------------- R4: aliaser threading
    ctx.rule(ids["R4"], "an aliaser in scope is forwarded to every package callee that accepts one", floor=6 if P == "C11" else 2)
    for fi in funcs:
        sc = scope_for(model, fi, scopes)
        owner = model.enclosing_class(fi)
        has_self_aliaser = owner is not None and class_has_attr(model, owner, "aliaser")
        has_local = "aliaser" in sc.params or "aliaser" in sc.assign
        if not (has_self_aliaser or has_local):
            continue
        for c in walk_no_nested(fi.node, include_lambda=True):
            if not isinstance(c, ast.Call):
                continue
            kind, targets = model.resolve_call(fi, c)
            params = None
            tq = None
            if kind == "func" and targets:
                tq = targets[0]
                params = model.functions[tq].params
            elif kind == "class" and targets:
                tq = targets[0]
                params = init_params(model, model.classes[tq])
            elif kind == "method" and targets:
                tq = targets[0]
                params = [p for p in model.functions[tq].params if p != "self"]
            if not params or "aliaser" not in params:
                continue
            bound = bind_args(params, c)
            construct = f"{fi.qualname}->{tq.split('.')[-1]}"
            if "aliaser" not in bound:
                ctx.fail(ids["R4"], construct, c,
                         f"{tq.split('.')[-1]}(...) accepts an `aliaser` but the call does not pass the one in scope: the callee falls back to its default and produces / expects un-aliased keys",
                         fi.module.relpath, c.lineno)
                continue
            a = bound["aliaser"]
            ok = sc.is_aliaser_ref(a) or (isinstance(a, ast.Name) and a.id == "aliaser")
            if isinstance(a, ast.Call) and dotted(a.func) == "opt_or" and a.args and sc.is_aliaser_ref(a.args[0]):
                ok = True  # opt_or(aliaser, settings.aliaser): the caller's aliaser, defaulted
            ctx.check(ok, ids["R4"], construct, c, f"`aliaser={norm(a)}` is not the aliaser in scope", fi, c, detail="forwarded")

    # ---------------- R5: the two resolution points of pending AliasedStr keys
    if P == "C11":
        ctx.rule("C11.R5", "pending AliasedStr keys are resolved by serialize (subprimitive -> WrapperMethod(self.aliaser)) and by apply_aliaser", floor=3)
        sp = model.func("apischema.serialization.SerializationMethodVisitor.subprimitive")
        ok = False
        for n in walk_no_nested(sp.node):
            if isinstance(n, ast.If) and "AliasedStr" in norm(n.test):
                for r in n.body:
                    if isinstance(r, ast.Return) and isinstance(r.value, ast.Call) and (dotted(r.value.func) or "").endswith("WrapperMethod") and r.value.args and norm(r.value.args[0]) == "self.aliaser":
                        ok = True
        ctx.check(ok, "C11.R5", sp.qualname, sp.node.body[0], "AliasedStr is no longer serialized through the visitor's aliaser: schema keys stay un-aliased", sp, sp.node, detail="cls is AliasedStr -> WrapperMethod(self.aliaser)")
        for site in ("apischema.json_schema.schema._schema", "apischema.json_schema.schema.definitions_schema"):
            fi = model.func(site)
            hit = False
            for c in model.calls_in(fi):
                if dotted(c.func) == "serialize" and c.args and norm(c.args[0]) == "JsonSchema":
                    kw = {k.arg: k.value for k in c.keywords}
                    hit = "aliaser" in kw and norm(kw["aliaser"]) == "aliaser"
            ctx.check(hit, "C11.R5", site, fi.node.body[-1], "the schema is not serialized with the caller's aliaser: AliasedStr keys are not aliased", fi, fi.node, detail="serialize(JsonSchema, ..., aliaser=aliaser)")
        ap = model.func("apischema.validation.errors.apply_aliaser")
        ok = any(isinstance(n, ast.If) and "AliasedStr" in norm(n.test) and any(isinstance(x, ast.Call) and dotted(x.func) == "aliaser" for s in n.body for x in ast.walk(s)) for n in walk_no_nested(ap.node))
        ctx.check(ok, "C11.R5", ap.qualname, ap.node.body[0], "apply_aliaser no longer aliases AliasedStr keys yielded by validators", ap, ap.node, detail="isinstance(key, AliasedStr) -> aliaser(key)")
        # the "something was aliased" flag is monotone, the aliased tree is what is returned when it is set, every child is kept
        flag = None
        for r in ast.walk(ap.node):
            if isinstance(r, ast.Return) and isinstance(r.value, ast.IfExp) and isinstance(r.value.test, ast.Name):
                flag = r.value.test.id
                ctx.check("ValidationError(" in norm(r.value.body) and norm(r.value.orelse) == ap.params[0], "C11.R5", ap.qualname + ":result", r, "apply_aliaser does not return the rebuilt error when something was aliased (or the original otherwise)", ap, r, detail="ValidationError(messages, aliased_children) if aliased else error")
        ctx.check(flag is not None, "C11.R5", ap.qualname + ":flag", ap.node.body[0], "apply_aliaser: the flag deciding between the rebuilt and the original error was not recognised", ap, ap.node, nontrivial=False)
        if flag is not None:
            for lp in [n for n in ast.walk(ap.node) if isinstance(n, ast.For)]:
                for a in ast.walk(lp):
                    bad = None
                    if isinstance(a, ast.Assign) and norm(a.targets[0]) == flag:
                        v = a.value
                        mono = (isinstance(v, ast.Constant) and v.value is True) or (isinstance(v, ast.BoolOp) and isinstance(v.op, ast.Or) and any(norm(x) == flag for x in v.values)) or (isinstance(v, ast.BinOp) and isinstance(v.op, ast.BitOr) and flag in (norm(v.left), norm(v.right)))
                        bad = None if mono else a
                    if isinstance(a, ast.AugAssign) and norm(a.target) == flag and not isinstance(a.op, ast.BitOr):
                        bad = a
                    if isinstance(a, (ast.Assign, ast.AugAssign)) and norm(a.targets[0] if isinstance(a, ast.Assign) else a.target) == flag:
                        ctx.check(bad is None, "C11.R5", ap.qualname + f":monotone:{norm(a)[:30]}", a, f"`{short(a, 60)}` can reset `{flag}` inside the loop over the children: once a sibling key has been aliased the rebuilt error must be returned, otherwise the aliased keys of earlier siblings are lost (the loc keeps the internal name)", ap, a, detail="True / |= / or-accumulation")
            stores = [n for n in ast.walk(ap.node) if isinstance(n, ast.Subscript) and isinstance(n.ctx, ast.Store)]
            ctx.check(len(stores) == 1 and isinstance(stores[0].value, ast.Name), "C11.R5", ap.qualname + ":children", stores[0] if stores else ap.node.body[0], "apply_aliaser does not store every (aliased key, aliased child) pair", ap, ap.node, detail="aliased_children[key] = child2")
        vd = model.func("apischema.validation.validators.validate")
        ok = any(isinstance(n, ast.Call) and dotted(n.func) == "apply_aliaser" and len(n.args) >= 2 and norm(n.args[1]) == "aliaser" for n in walk_no_nested(vd.node))
        ctx.check(ok, "C11.R5", vd.qualname + ":apply_aliaser", vd.node.body[0], "validate() does not pass validator errors through apply_aliaser", vd, vd.node, detail="err = apply_aliaser(e, aliaser)")


def class_has_attr(model, cls: ClassInfo, attr: str) -> bool:
    for c in model.mro(cls.qualname):
        ci = model.classes[c]
        if attr in ci.annotations or attr in ci.attrs:
            return True
        for m in ci.methods.values():
            for n in walk_no_nested(m.node):
                if isinstance(n, ast.Attribute) and n.attr == attr and isinstance(n.ctx, ast.Store) and isinstance(n.value, ast.Name) and n.value.id == "self":
                    return True
    return False


def schema_sinks(ctx, scopes):
    """JSON schema: keys placed under properties / required / dependentRequired / propertyName."""
    model = ctx.model
    so = model.func("apischema.json_schema.schema.SchemaBuilder.object")
    sc = scope_for(model, so, scopes)
    seen = set()
    for c in walk_no_nested(so.node):
        if isinstance(c, ast.Call) and dotted(c.func) == "json_schema":
            for kw in c.keywords:
                exprs = []
                if kw.arg == "properties":
                    v = kw.value
                    exprs = [v.key] if isinstance(v, ast.DictComp) else list(getattr(v, "keys", []))
                elif kw.arg == "required":
                    v = kw.value
                    exprs = [v.elt] if isinstance(v, ast.ListComp) else list(getattr(v, "elts", []))
                elif kw.arg == "dependentRequired":
                    v = kw.value
                    if isinstance(v, ast.DictComp):
                        exprs = [v.key, v.value]
                    else:
                        exprs = list(getattr(v, "keys", [])) + list(getattr(v, "values", []))
                for e in exprs:
                    seen.add(kw.arg)
                    kind = sc.classify(e)
                    ctx.check(kind == ALIASED, "C11.R2", f"{so.qualname}:{kw.arg}", c,
                              f"schema `{kw.arg}` entry `{short(e, 60)}` is {kind}: the aliaser given to the schema function is not applied to it "
                              f"(properties would be aliased but {kw.arg} not)", so, c, detail=f"{kw.arg} <- {kind}")
    ctx.require({"properties", "required", "dependentRequired"} <= seen, f"schema object sinks not all found ({sorted(seen)})")
    # propertyName of discriminators
    n_pn = 0
    for fi in model.funcs_in_module("apischema.json_schema.schema"):
        sc = scope_for(model, fi, scopes)
        for d in walk_no_nested(fi.node):
            if isinstance(d, ast.Dict):
                for k, v in zip(d.keys, d.values):
                    if isinstance(k, ast.Constant) and k.value == "propertyName":
                        n_pn += 1
                        kind = sc.classify(v)
                        ctx.check(kind == ALIASED, "C11.R2", f"{fi.qualname}:propertyName", d,
                                  f"discriminator propertyName `{norm(v)}` is {kind}, not the aliased discriminator alias", fi, d, detail="AliasedStr(discriminator.alias)")
    ctx.require(n_pn >= 1, "discriminator propertyName site not found")
    # Property objects are the only source of properties / required keys
    props = [c for fi in model.funcs_in_module("apischema.json_schema.schema") for c in model.calls_in(fi) if dotted(c.func) == "Property"]
    ctx.require(len(props) >= 3, "Property construction sites not found")


def fixtures(ctx):
    import textwrap
    src = textwrap.dedent('''
    class V:
        def object(self, tp, fields):
            a = [Field(f.name, self.aliaser(f.name)) for f in fields]
            b = [Field(f.name, self.aliaser(f.alias)) for f in fields]
            c = [Field(f.name, f.alias) for f in fields]
    ''')
    tree = ast.parse(src)
    fn = tree.body[0].body[0]

    class M:
        name = "x"
        relpath = "x"

    class FI:
        node = fn
        params = ["self", "tp", "fields"]
        parent = None
        nested = {}
        module = M
    sc = AliasScope(None, FI)
    calls = [n for n in ast.walk(fn) if isinstance(n, ast.Call) and dotted(n.func) == "Field"]
    got = [sc.classify(c.args[1]) for c in calls]
    if not (is_bad(got[0]) and got[1] == ALIASED and got[2] == ALIAS):
        raise AnalysisError(f"C11 positive fixture failed: {got}")


def mutants(mb):
    mb.add_text("get-alias-returns-name", "apischema/objects/getters.py", 'return AliasedStr(object.__getattribute__(self, "fields")[name].alias)', 'return AliasedStr(object.__getattribute__(self, "fields")[name].name)', "C11.R12", "alias")
    mb.add_text("get-alias-plain-str", "apischema/objects/getters.py", 'return AliasedStr(object.__getattribute__(self, "fields")[name].alias)', 'return object.__getattribute__(self, "fields")[name].alias', "C11.R12", "alias")
    mb.add_text("validate-identity-aliaser", "apischema/validation/validators.py", "    aliaser: Optional[Aliaser] = None,\n) -> T:\n    if aliaser is None:\n        from apischema import settings\n\n        aliaser = settings.aliaser\n", "    aliaser: Aliaser = lambda s: s,\n) -> T:\n", "C11.R11", "validate")
    mb.add_text("schema-inherits-pass-through", "apischema/json_schema/schema.py", "        # the schema must not depend on the serialization settings of the user\n        pass_through=PassThroughOptions(),\n", "", "C11.R10", "pass_through")
    mb.add_text("schema-default-global-aliaser", "apischema/json_schema/schema.py", "                    # keys are aliased with the rest of the schema\n                    aliaser=AliasedStr,\n", "", "C11.R10", "aliaser")
    mb.add_text("resolver-field-after-optional", "apischema/graphql/resolvers.py", "        param_type = types[param.name]\n        if is_union_of(param_type, graphql.GraphQLResolveInfo):\n            info_parameter = param.name\n        else:\n",
                "        param_type = types[param.name]\n        if is_union_of(param_type, graphql.GraphQLResolveInfo):\n            info_parameter = param.name\n        else:\n            if param.default is None:\n                param_type = Optional[param_type]\n", "C11.R8", "resolver_resolve")
    mb.add_text("validator-alias-of-owner", "apischema/validation/validators.py", "            alias = getattr(get_alias(obj), get_field_name(validator.field))\n", "            alias = getattr(get_alias(validator.owner), get_field_name(validator.field))\n", "C11.R2", "alias-of-validated-class")
    mb.add_text("apply-aliaser-flag-overwritten", "apischema/validation/errors.py", "        aliased |= child2 is not child\n", "        aliased = child2 is not child\n", "C11.R5", "monotone")
    mb.add_text("deser-field-slot-alias", "apischema/deserialization/__init__.py", "                        Field(\n                            field.name,\n", "                        Field(\n                            field.alias,\n", "C11.R6", "Field.name")
    mb.add_text("ser-field-slot-alias", "apischema/serialization/__init__.py", "                base_field = ComplexField(\n                    field.name,\n", "                base_field = ComplexField(\n                    field.alias,\n", "C11.R6", ".name")
    D = "apischema/deserialization/__init__.py"
    S = "apischema/serialization/__init__.py"
    J = "apischema/json_schema/schema.py"
    G = "apischema/graphql/schema.py"
    R = "apischema/graphql/resolvers.py"
    V = "apischema/validation/validators.py"
    mb.add_text("deser-field-name", D, "                            self.aliaser(field.alias),\n                            field_method,\n                            field.required,", "                            self.aliaser(field.name),\n                            field_method,\n                            field.required,", "C11.R1", "object")
    mb.add_text("deser-field-raw-alias", D, "                            self.aliaser(field.alias),\n                            field_method,\n                            field.required,", "                            field.alias,\n                            field_method,\n                            field.required,", "C11.R2", "Field.alias")
    mb.add_text("deser-alias-by-name-raw", D, "alias_by_name = {field.name: self.aliaser(field.alias) for field in fields}", "alias_by_name = {field.name: field.alias for field in fields}", "C11.R2", "")
    mb.add_text("deser-requiring-names", D, "                    requiring[req].add(alias_by_name[f])", "                    requiring[req].add(f)", "C11.R2", "required_by")
    mb.add_text("deser-discriminator-raw", D, "                self.aliaser(discriminator.alias),\n                {key: fact.merge", "                discriminator.alias,\n                {key: fact.merge", "C11.R2", "DiscriminatorMethod.alias")
    mb.add_text("deser-flattened-no-aliaser", D, "tuple(set(map(self.aliaser, flattened_aliases)))", "tuple(set(flattened_aliases))", "C11.R2", "FlattenedField.aliases")
    mb.add_text("ser-field-name", S, "field_alias = self.aliaser(field.alias) if not field.is_aggregate else None", "field_alias = self.aliaser(field.name) if not field.is_aggregate else None", "C11.R1", "object")
    mb.add_text("ser-serialized-raw", S, "                        self.aliaser(serialized.alias),\n", "                        serialized.alias,\n", "C11.R2", "SerializedField.alias")
    mb.add_text("ser-discriminator-raw", S, "                        self.aliaser(discriminator.alias),\n", "                        discriminator.alias,\n", "C11.R2", "DiscriminatedAlternative.alias")
    mb.add_text("ser-double-alias", S, "                        self.aliaser(serialized.alias),\n", "                        self.aliaser(self.aliaser(serialized.alias)),\n", "C11.R1", "object")
    mb.add_text("schema-prop-name", J, "                AliasedStr(field.alias),\n                field.name,\n                field.ordering,\n                field.required,", "                AliasedStr(field.name),\n                field.name,\n                field.ordering,\n                field.required,", "C11.R1", "properties")
    mb.add_text("schema-prop-raw", J, "                AliasedStr(serialized.alias),\n", "                serialized.alias,\n", "C11.R2", "Property.alias")
    mb.add_text("schema-depreq-raw", J, "aliases = {f.name: AliasedStr(f.alias) for f in fields}\n", "aliases = {f.name: f.alias for f in fields}\n", "C11.R2", "dependentRequired")
    mb.add_text("schema-propertyname-raw", J, '            "propertyName": AliasedStr(discriminator.alias)\n', '            "propertyName": discriminator.alias\n', "C11.R2", "propertyName")
    mb.add_text("schema-no-aliaser-serialize", J, "        json_schema,\n        aliaser=aliaser,\n        check_type=True,", "        json_schema,\n        check_type=True,", "C11.R5", "_schema")
    mb.add_text("graphql-out-name", G, "        flattened_factories = []\n        for field in fields:\n            if not field.is_aggregate:\n                normal_field = NormalField(\n                    self.aliaser(field.alias),", "        flattened_factories = []\n        for field in fields:\n            if not field.is_aggregate:\n                normal_field = NormalField(\n                    self.aliaser(field.name),", "C11.R1", "OutputSchemaBuilder.object")
    mb.add_text("graphql-in-name", G, "        visited_fields: List[BaseField] = []\n        for field in fields:\n            if not field.is_aggregate:\n                normal_field = NormalField(\n                    self.aliaser(field.alias),", "        visited_fields: List[BaseField] = []\n        for field in fields:\n            if not field.is_aggregate:\n                normal_field = NormalField(\n                    self.aliaser(field.name),", "C11.R1", "InputSchemaBuilder.object")
    mb.add_text("graphql-default-no-aliaser", G, "                            param.default,\n                            aliaser=self.aliaser,\n", "                            param.default,\n", "C11.R4", "_resolver")
    mb.add_text("graphql-resolver-raw", G, "                self.aliaser(resolver_field.resolver.alias),\n", "                resolver_field.resolver.alias,\n", "C11.R2", "NormalField.alias")
    mb.add_text("graphql-arg-name", G, "args[self.aliaser(param_field.alias)] = arg_thunk", "args[self.aliaser(param_field.name)] = arg_thunk", "C11.R1", "_resolver")
    mb.add_text("resolver-param-name", R, "                    aliaser(param_field.alias),\n", "                    aliaser(param.name),\n", "C11.R1", "resolver_resolve")
    mb.add_text("validate-reloc-raw", V, "err = ValidationError(children={aliaser(alias): err})", "err = ValidationError(children={alias: err})", "C11.R2", "children-key")
    mb.add_text("validate-no-apply-aliaser", V, "            err = apply_aliaser(e, aliaser)\n", "            err = e\n", "C11.R5", "validate")
    mb.add_text("validate-rec-no-aliaser", V, "validate(obj, next_validators, kwargs, aliaser=aliaser)", "validate(obj, next_validators, kwargs)", "C11.R4", "validate")
    mb.add_text("object-method-no-aliaser", "apischema/deserialization/methods.py", "            return validate(obj, validators, init, aliaser=self.aliaser)", "            return validate(obj, validators, init)", "C11.R4", "ObjectMethod")
    mb.add_text("class-aliaser-twice", "apischema/json_schema/schema.py", "        cls = get_origin_or_type(tp)\n        properties = sort_by_order(", "        cls = get_origin_or_type(tp)\n        from apischema.aliases import get_class_aliaser\n        class_aliaser = get_class_aliaser(cls)\n        properties = sort_by_order(", "C11.R3", "get_class_aliaser")
    mb.add_text("subprimitive-no-wrapper", S, "        if cls is AliasedStr:\n            return WrapperMethod(self.aliaser)\n        else:\n            return super().subprimitive(cls, superclass)", "        return super().subprimitive(cls, superclass)", "C11.R5", "subprimitive")
    # negatives
    mb.add_text("neg-local-alias-var", S, "                        self.aliaser(serialized.alias),\n", "                        self.aliaser(serialized_alias),\n", negative=True)
    mb.out[-1].new_src = mb.out[-1].new_src.replace("            ret_type = types[\"return\"]\n            fields_to_order.append(", "            ret_type = types[\"return\"]\n            serialized_alias = serialized.alias\n            fields_to_order.append(", 1)
    mb.add_text("neg-rename-loop", J, "aliases = {f.name: AliasedStr(f.alias) for f in fields}\n", "aliases = {fld.name: AliasedStr(fld.alias) for fld in fields}\n", negative=True)
