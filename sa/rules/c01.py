"""C01 - deserialization accepts exactly conforming data.

Decides: the compiler is total over the supported grammar; each leaf node's type
test matches the documented data model (computed accept-sets); the three
constraint tables agree and each constraint applies the operator JSON Schema
gives its keyword; the unexpected-property shortcut is sound. Not acceptance <=>
conformance for composite types and arbitrary data.
"""
import ast
import re
from typing import Dict, Set

from ..accept import accept_set
from ..model import AnalysisError
from ..nodes import DESER_MOD
from ..util import dotted, norm, short, walk_no_nested
from ..visitors import totality
from .common_children import children_rule
from .common_object import object_protocol_rule
from .common_counter import check_counters, counter_mutants

VISITOR = "apischema.deserialization.DeserializationMethodVisitor"

# Documented data model (docs/data_model.md "Primitive / Collection / Mapping", docs/de_serialization.md
# "Strictness": bool is not an int, int is accepted for float) - the row each leaf must implement.
LEAF_ROWS = {
    "NoneMethod": {"none"}, "BoolMethod": {"bool"}, "IntMethod": {"int"}, "FloatMethod": {"float", "int"},
    "StrMethod": {"str"}, "ConstrainedIntMethod": {"int"}, "ConstrainedFloatMethod": {"float", "int"},
    "ConstrainedStrMethod": {"str"},
    "ListCheckOnlyMethod": {"list"}, "ListMethod": {"list"}, "SetMethod": {"list"}, "TupleMethod": {"list"},
    "MappingCheckOnly": {"dict"}, "MappingMethod": {"dict"}, "SimpleObjectMethod": {"dict"}, "ObjectMethod": {"dict"},
    "DiscriminatorMethod": {"dict"},
}
JSON_TYPE_TAG = {"NoneType": "none", "bool": "bool", "str": "str", "int": "int", "float": "float", "list": "list", "dict": "dict"}

# JSON Schema validation vocabulary (draft 2020-12, section 6): keyword -> canonical test on (data, k)
OPERATORS = {
    "minimum": "data >= k", "maximum": "data <= k", "exclusiveMinimum": "data > k", "exclusiveMaximum": "data < k",
    "multipleOf": "not data % k",
    "minLength": "len(data) >= k", "maxLength": "len(data) <= k",
    "minItems": "len(data) >= k", "maxItems": "len(data) <= k",
    "minProperties": "len(data) >= k", "maxProperties": "len(data) <= k",
    "pattern": "k.match(data) is not None",
    "uniqueItems": "len(data) == len(set(map(to_hashable, data)))",  # canonical operand order (sa/canon.py)
}
FLIP = {ast.Lt: ">", ast.Gt: "<", ast.LtE: ">=", ast.GtE: "<=", ast.Eq: "==", ast.NotEq: "!="}
SYM = {ast.Lt: "<", ast.Gt: ">", ast.LtE: "<=", ast.GtE: ">=", ast.Eq: "==", ast.NotEq: "!=", ast.Is: "is", ast.IsNot: "is not"}


def case_functions(model):
    """re-implementation of utils.to_snake_case / to_pascal_case from the regexes read in the source."""
    um = model.mod("apischema.utils")
    pats = {}
    for name in ("SNAKE_CASE_REGEX", "CAMEL_CASE_REGEX"):
        v = model.module_value("apischema.utils", name)
        if not (isinstance(v, ast.Call) and dotted(v.func) == "re.compile" and v.args and isinstance(v.args[0], ast.Constant)):
            raise AnalysisError(f"utils.{name} is no longer a literal re.compile(...)")
        pats[name] = re.compile(v.args[0].value)
    for fn, frag in (("to_snake_case", 'm.group(1) + "_" + m.group(2).lower()'), ("to_camel_case", "m.group(1).upper()")):
        f = model.func(f"apischema.utils.{fn}")
        if frag.replace('"', "'") not in norm(f.node).replace('"', "'"):
            raise AnalysisError(f"utils.{fn} changed shape; the checker's re-implementation must be re-confirmed")

    def snake(s):
        return pats["CAMEL_CASE_REGEX"].sub(lambda m: m.group(1) + "_" + m.group(2).lower(), s)

    def pascal(s):
        c = pats["SNAKE_CASE_REGEX"].sub(lambda m: m.group(1).upper(), s)
        return c[0].upper() + c[1:] if c else c
    return snake, pascal


def constraint_rows(model):
    cons = model.cls("apischema.constraints.Constraints")
    rows = []
    for name in cons.field_order:
        v = cons.attrs.get(name)
        if isinstance(v, ast.Call) and dotted(v.func) == "constraint" and len(v.args) >= 2 and isinstance(v.args[0], ast.Constant):
            rows.append((name, v.args[0].value, dotted(v.args[1])))
    if len(rows) < 10:
        raise AnalysisError(f"only {len(rows)} constraint rows in Constraints")
    return rows


def canonical_test(m, field: str) -> str:
    """Normalise `return <test>` of a Constraint.validate into the table's notation
    (own field -> k, operand order data-first)."""
    body = [s for s in m.node.body if not (isinstance(s, ast.Expr) and isinstance(s.value, ast.Constant))]
    # the uniqueItems idiom wraps its test in try/except TypeError with a pairwise fallback
    if len(body) == 1 and isinstance(body[0], ast.Try):
        body = [s for s in body[0].body]
    if len(body) != 1 or not isinstance(body[0], ast.Return) or body[0].value is None:
        return "<not a single return>"
    e = body[0].value

    class Sub(ast.NodeTransformer):
        def visit_Attribute(self, node):
            if isinstance(node.value, ast.Name) and node.value.id == "self" and node.attr == field:
                return ast.Name(id="k", ctx=ast.Load())
            return self.generic_visit(node)
    e = Sub().visit(ast.parse(norm(e), mode="eval").body)
    if isinstance(e, ast.Compare) and len(e.ops) == 1 and norm(e.left) == "k" and type(e.ops[0]) in FLIP and norm(e.comparators[0]) != "k":
        return f"{norm(e.comparators[0])} {FLIP[type(e.ops[0])]} k"
    t = norm(e)
    t = t.replace("not (data % k)", "not data % k")
    return t


def check(ctx):
    model = ctx.model
    ctx.explanations.append(
        "C01: decided - DeserializationMethodVisitor implements every hook it can dispatch to (R1); each leaf node accepts "
        "exactly the Python classes of its data-model row, the accept-set being computed from its isinstance / is None guards "
        "by refinement dataflow, and every JSON type has an accepting leaf (R2); for every schema constraint the three tables "
        "(Constraints rows, *Constraint classes, settings.errors) agree (R3) and the class applies its keyword's JSON-Schema "
        "operator (R4); the unexpected-property shortcut cannot over-count (R5). Not decided: acceptance <=> conformance "
        "for composed types, key attribution to flattened / pattern / additional fields, defaults, the typed image."
    )
    # ---------------- R1
    ctx.rule("C01.R1", "DeserializationMethodVisitor: every dispatchable hook is implemented", floor=15)
    totality(ctx, "C01.R1", VISITOR)

    # ---------------- R2
    ctx.rule("C01.R2", "leaf node accept-sets equal the documented data-model rows", floor=16)
    accepted_tags: Set[str] = set()
    for cname, row in sorted(LEAF_ROWS.items()):
        q = f"{DESER_MOD}.{cname}"
        if q not in model.classes:
            raise AnalysisError(f"anchor vanished: leaf node {q}")
        acc = accept_set(model, q)
        accepted_tags |= acc
        m = model.find_method(q, "deserialize")
        extra, missing = acc - row, row - acc
        msg = ""
        if extra:
            msg += f"accepts {sorted(extra)} in addition to {sorted(row)}"
            if "bool" in extra:
                msg += " (bool is a subclass of int: a positive isinstance(data, int) needs an explicit bool exclusion)"
        if missing:
            msg += f"{'; ' if msg else ''}rejects {sorted(missing)} which the data model accepts"
        ctx.check(acc == row, "C01.R2", cname, m.node.body[0] if extra or missing else None,
                  f"{cname}.deserialize {msg}", m, m.node, detail=f"accept-set {sorted(acc)}")
    table = model.module_value("apischema.json_schema.types", "TYPE_TO_JSON_TYPE")
    ctx.require(isinstance(table, ast.Dict), "TYPE_TO_JSON_TYPE is no longer a dict literal")
    for k in table.keys:
        kn = dotted(k)
        tag = JSON_TYPE_TAG.get(kn)
        ctx.require(tag is not None, f"unknown key {kn} in TYPE_TO_JSON_TYPE")
        ctx.check(tag in accepted_tags, "C01.R2", f"TYPE_TO_JSON_TYPE[{kn}]", k, f"JSON type of `{kn}` has no leaf node accepting it", None, None, detail="has an accepting leaf")
    # new leaf classes must get a row: any node class whose guards restrict the accept-set
    from ..nodes import deser_nodes
    for cls, m in deser_nodes(model):
        if cls.name in LEAF_ROWS:
            continue
        acc = accept_set(model, cls.qualname)
        if len(acc) < 8 and cls.name not in LEAF_ROWS:
            ctx.fail("C01.R2", cls.name, None, f"{cls.name} restricts its input to {sorted(acc)} but has no row in the checker's data-model table: confirm and add it", cls.module.relpath, cls.node.lineno)

    # ---------------- R3 / R4
    ctx.rule("C01.R3", "constraint tables agree: Constraints row <-> *Constraint class <-> settings.errors attribute", floor=13)
    ctx.rule("C01.R4", "each *Constraint.validate applies the JSON-Schema operator of its keyword", floor=13)
    snake, pascal = case_functions(model)
    rows = constraint_rows(model)
    base = f"{DESER_MOD}.Constraint"
    classes = {model.classes[q].name: model.classes[q] for q in model.subclasses(base, strict=True)}
    errs = model.cls("apischema.settings.settings.errors")
    err_attrs = set(errs.annotations) | set(errs.attrs)
    used = set()
    for fname, alias, cls in rows:
        cname = pascal(alias) + "Constraint"
        used.add(cname)
        c = classes.get(cname)
        problems = []
        if c is None:
            problems.append(f"no class {cname} among Constraint subclasses (constraints_validators would raise KeyError)")
        if snake(alias) not in err_attrs:
            problems.append(f"settings.errors has no attribute `{snake(alias)}` (getattr would raise AttributeError)")
        own = []
        if c is not None:
            own = [f for f in c.field_order if f in c.annotations]
            if len(own) != 1:
                problems.append(f"{cname} has {len(own)} own fields; it is constructed positionally as {cname}(error, value)")
        ctx.check(not problems, "C01.R3", alias, None, "; ".join(problems), None, None, detail=f"{cname} / errors.{snake(alias)} / 1 field")
        if problems:
            ctx.findings[-1].file, ctx.findings[-1].line = "apischema/constraints.py", model.cls("apischema.constraints.Constraints").node.lineno
        if c is not None and len(own) == 1 and "validate" in c.methods:
            got = canonical_test(c.methods["validate"], own[0])
            want = OPERATORS.get(alias)
            ctx.require(want is not None, f"no operator row for keyword {alias}: extend the table with its JSON-Schema semantics")
            m = c.methods["validate"]
            ctx.check(got == want, "C01.R4", cname, m.node.body[-1],
                      f"{cname}.validate tests `{got}` but JSON Schema defines {alias} as `{want}` (k = the keyword's value): schema and deserialization disagree, boundary values are mis-accepted",
                      m, m.node, detail=f"{alias}: {want}")
    for cname in sorted(set(classes) - used):
        c = classes[cname]
        ctx.fail("C01.R3", cname, None, f"{cname} is not reachable from any Constraints row", c.module.relpath, c.node.lineno)
    # constraints_validators looks classes / messages up through the same alias
    cv = model.func("apischema.deserialization.constraints_validators")
    t = norm(cv.node)
    ctx.check("to_pascal_case(metadata.alias) + 'Constraint'" in t.replace('"', "'") and "to_snake_case(metadata.alias)" in t and "result[metadata.cls]" in t,
              "C01.R3", cv.qualname, cv.node.body[0], "constraints_validators no longer derives the class name, the message and the key from the constraint's own metadata row", cv, cv.node,
              detail="class, message and key all derive from the row's metadata")
    # float constraints apply to integers too
    ok = any(isinstance(n, ast.If) and norm(n.test) == "float in result" and any("result[int] = result[float]" == norm(s) for s in n.body) for n in walk_no_nested(cv.node))
    ctx.check(ok, "C01.R3", cv.qualname + ":int<-float", cv.node.body[-1], "number constraints are no longer applied to integer data", cv, cv.node, detail="result[int] = result[float]")

    # ---------------- R6: a constraint set to a falsy value (min=0, max_items=0) is still a constraint
    ctx.rule("C01.R6", "constraint values are tested with `is None`, never by truthiness (0 is a bound)", floor=4)
    targets = [model.func("apischema.constraints.merge_constraints"), model.func("apischema.constraints.Constraints.merge_into"),
               model.func("apischema.deserialization.constraints_validators"), model.func("apischema.utils.merge_opts")]
    nested = [f for f in model.functions.values() if f.parent is not None and f.parent.qualname == "apischema.utils.merge_opts"]
    for fi in targets + nested:
        # variables holding a constraint value: bound from attr_and_metata rows / getattr(c, name) / the wrapper's optionals
        valvars = set()
        for n in ast.walk(fi.node):
            if isinstance(n, (ast.For, ast.comprehension)) and "attr_and_metata" in norm(n.iter) and isinstance(n.target, ast.Tuple) and len(n.target.elts) >= 2 and isinstance(n.target.elts[1], ast.Name):
                valvars.add(n.target.elts[1].id)
            if isinstance(n, ast.Assign) and isinstance(n.value, ast.Call) and dotted(n.value.func) == "getattr" and isinstance(n.targets[0], ast.Name):
                valvars.add(n.targets[0].id)
        if fi.parent is not None and fi.parent.qualname == "apischema.utils.merge_opts":
            valvars |= set(fi.params)
        bad = []
        for n in walk_no_nested(fi.node):
            if isinstance(n, ast.BoolOp):
                for v in n.values:
                    if isinstance(v, ast.Name) and v.id in valvars:
                        bad.append(n)
                    if isinstance(v, ast.UnaryOp) and isinstance(v.op, ast.Not) and isinstance(v.operand, ast.Name) and v.operand.id in valvars:
                        bad.append(n)
            if isinstance(n, (ast.If, ast.IfExp, ast.While)):
                t = n.test
                if isinstance(t, ast.Name) and t.id in valvars:
                    bad.append(t)
                if isinstance(t, ast.UnaryOp) and isinstance(t.op, ast.Not) and isinstance(t.operand, ast.Name) and t.operand.id in valvars:
                    bad.append(t)
        ctx.check(not bad, "C01.R6", fi.qualname, bad[0] if bad else None,
                  f"`{short(bad[0], 70)}` tests a constraint value by truthiness: a constraint set to 0 (min=0, exc_min=0, max_items=0) is dropped when schemas of two levels are merged, so data violating it is accepted" if bad else "",
                  fi, bad[0] if bad else fi.node, detail=f"{sorted(valvars) or 'no value variable'}: only `is None` tests")

    # ---------------- R5
    check_counters(ctx, "C01.R5")

    # ---------------- R7
    ctx.rule("C01.R7", "every child method held by a node is applied to the matching part of the datum and its result used", floor=50)
    children_rule(ctx, "C01.R7", "deser")

    # ---------------- R8
    ctx.rule("C01.R8", "object nodes: child applied / MISSING / UNEXPECTED / TypedDict copy happen under exactly the documented conditions (truth tables of the reach conditions)", floor=7)
    object_protocol_rule(ctx, "C01.R8", ["applied", "missing", "unexpected", "copy", "attribution"])

    # ---------------- R9: booleans are not numbers in value lookups
    ctx.rule("C01.R9", "value tables compared with the datum by hash / equality keep booleans apart from 0 / 1 (True == 1 for Python, not for JSON): writer and reader of LiteralMethod.value_map agree on a (is-bool, value) key; to_hashable tags booleans", floor=4)
    lm = model.func(f"{DESER_MOD}.LiteralMethod.deserialize")
    looks = [n for n in ast.walk(lm.node) if isinstance(n, ast.Subscript) and norm(n.value) == "self.value_map"]
    ctx.check(len(looks) >= 2, "C01.R9", f"{lm.qualname}:lookups", lm.node.body[0], "LiteralMethod no longer looks the datum (and the coerced datum) up in value_map", lm, lm.node, detail=">= 2 lookups")
    for n in looks:
        k = n.slice
        ok = isinstance(k, ast.Tuple) and len(k.elts) == 2 and isinstance(k.elts[0], ast.Call) and dotted(k.elts[0].func) == "isinstance" and len(k.elts[0].args) == 2 \
            and norm(k.elts[0].args[1]) == "bool" and norm(k.elts[0].args[0]) == norm(k.elts[1])
        ctx.check(ok, "C01.R9", f"{lm.qualname}:key:{norm(k)[:30]}", n, f"`{short(n, 60)}`: the lookup key does not separate booleans from numbers: deserialize(Literal[1], True) returns 1 and an Enum of value 1 accepts true (the JSON schema says const: 1)", lm, n, detail="self.value_map[isinstance(x, bool), x]")
    lit = model.func("apischema.deserialization.DeserializationMethodVisitor.literal.<locals>.factory")
    built = [n for n in ast.walk(lit.node) if isinstance(n, ast.Call) and (dotted(n.func) or "").endswith("LiteralMethod")]
    ok = False
    if built and built[0].args:
        a0 = built[0].args[0]
        if isinstance(a0, ast.Name):
            a0 = next((x.value for x in ast.walk(lit.node) if isinstance(x, ast.Assign) and norm(x.targets[0]) == a0.id), a0)
        if isinstance(a0, ast.DictComp) and isinstance(a0.key, ast.Tuple) and len(a0.key.elts) == 2:
            e0, e1 = a0.key.elts
            ok = isinstance(e0, ast.Call) and dotted(e0.func) == "isinstance" and norm(e0.args[1]) == "bool" and norm(e0.args[0]) == norm(e1)
    ctx.check(ok, "C01.R9", f"{lit.qualname}:table", built[0] if built else lit.node.body[0], "the literal value table is not keyed by (is-bool, value): its reader looks values up under such keys (or True and 1 collide in the table)", lit, lit.node, detail="{(isinstance(key, bool), key): value}")
    th = model.func(f"{DESER_MOD}.to_hashable")
    from ..pathcond import parents_of as _po, path_condition as _pcond
    pm_t = _po(th.node)
    rets = [r for r in ast.walk(th.node) if isinstance(r, ast.Return)]
    tagged = [r for r in rets if "isinstance(data, bool)" in norm(_pcond(th.node, r, pm_t)) and not norm(_pcond(th.node, r, pm_t)).count("not isinstance(data, bool)") and isinstance(r.value, ast.Tuple)]
    plain = [r for r in rets if norm(r.value) == "data"]
    ok = bool(tagged) and all("not isinstance(data, bool)" in norm(_pcond(th.node, r, pm_t)) for r in plain)
    ctx.check(ok, "C01.R9", f"{th.qualname}:bool", th.node.body[0], "to_hashable returns booleans as is: [1, true] counts as duplicate items for uniqueItems although the JSON values are distinct", th, th.node, detail="booleans tagged before the fall-through")


    # ---------------- R10: type variables of generic bases
    ctx.rule("C01.R10", "generic inheritance: the arguments of C[...] are bound to C's declared parameters (`__parameters__`, the order given by Generic[...] when present), then substituted into the bases - not to the variables in their order of first appearance in the bases", floor=1)
    gm = model.func("apischema.typing._generic_mro")
    zips = [c for c in ast.walk(gm.node) if isinstance(c, ast.Call) and dotted(c.func) == "zip" and len(c.args) == 2 and "get_args(tp)" in norm(c.args[1])]
    ctx.require(len(zips) == 1, "_generic_mro: zip(parameters, get_args(tp)) not found")
    pv = zips[0].args[0]
    defs = [n.value for n in walk_no_nested(gm.node) if isinstance(n, ast.Assign) and isinstance(pv, ast.Name) and norm(n.targets[0]) == pv.id] if isinstance(pv, ast.Name) else [pv]
    declared = any("__parameters__" in norm(d) and "origin" in norm(d) for d in defs)
    ctx.check(declared, "C01.R10", f"{gm.qualname}:parameters", None,
              f"the arguments are zipped with `{norm(defs[0]) if defs else norm(pv)}` only: for `class E(A[U, T], Generic[T, U])`, E[int, str] binds U=int, T=str (order of appearance in the bases) instead of T=int, U=str - the fields inherited from A get each other's types, valid data is rejected and swapped data accepted",
              gm, zips[0], detail="origin.__parameters__")

    generic_substitution_rule(ctx, "C01.R12")

    # ---------------- R14: object-like classes are visited with their type arguments
    ctx.rule("C01.R14", "the base dispatcher resolves the annotations of dataclasses, NamedTuples and TypedDicts from the visited type itself (`tp`, a possibly parametrised generic) and hands `tp` to the hook: with the origin class alone the type arguments are lost and a field typed T accepts anything", floor=4)
    vv14 = model.func("apischema.visitor.Visitor.visit")
    for c in walk_no_nested(vv14.node):
        if isinstance(c, ast.Call) and dotted(c.func) == "resolve_type_hints" and c.args:
            ctx.check(norm(c.args[0]) == "tp", "C01.R14", f"{vv14.qualname}:resolve_type_hints({norm(c.args[0])})", None,
                      f"`{short(c, 50)}` resolves the hints of the origin class: for `class NT(NamedTuple, Generic[T])`, NT[int] keeps `x: T` unbound - deserialize(NT[int], {{'x': 'a'}}) is accepted and the schema says `x: {{}}`",
                      vv14, c, detail="resolve_type_hints(tp)")
        if isinstance(c, ast.Call) and norm(c.func) in ("self.named_tuple", "self.typed_dict", "self.dataclass") and c.args:
            ctx.check(norm(c.args[0]) == "tp", "C01.R14", f"{vv14.qualname}:{norm(c.func)}({norm(c.args[0])})", None, f"`{short(c, 60)}` hands the origin class to the hook instead of the visited type", vv14, c, detail=f"{norm(c.func)}(tp, ...)")
    dtf14 = model.func("apischema.visitor.dataclass_types_and_fields")
    ctx.check("resolve_type_hints(tp)" in norm(dtf14.node), "C01.R14", f"{dtf14.qualname}:resolve_type_hints", None, "dataclass fields are no longer resolved from the visited type", dtf14, dtf14.node, detail="resolve_type_hints(tp)")

    # ---------------- R13: literal_values is position-preserving
    ctx.rule("C01.R13", "literal_values returns one primitive per argument of the Literal / member of the Enum, in order: its caller zips the result with the arguments to build the value table (deduplicating with Python equality, where False == 0 and 1 == 1.0, shifts the pairs)", floor=2)
    lv = model.func("apischema.utils.literal_values")
    rets13 = [r for r in walk_no_nested(lv.node) if isinstance(r, ast.Return) and r.value is not None]
    ctx.require(len(rets13) == 1, "literal_values: single return not found")
    rv = rets13[0].value
    src13 = rv
    if isinstance(rv, ast.Name):
        d13 = [a.value for a in walk_no_nested(lv.node) if isinstance(a, ast.Assign) and norm(a.targets[0]) == rv.id]
        src13 = d13[-1] if len(d13) == 1 else None
    elementwise = isinstance(src13, ast.ListComp) and len(src13.generators) == 1 and norm(src13.generators[0].iter) == lv.params[0] and not src13.generators[0].ifs
    if isinstance(src13, ast.Call) and dotted(src13.func) in ("list", "tuple") and len(src13.args) == 1:
        inner = src13.args[0]
        elementwise = (isinstance(inner, ast.Call) and dotted(inner.func) == "map" and len(inner.args) == 2 and norm(inner.args[1]) == lv.params[0]) or \
            (isinstance(inner, ast.GeneratorExp) and len(inner.generators) == 1 and norm(inner.generators[0].iter) == lv.params[0] and not inner.generators[0].ifs)
    ctx.check(elementwise, "C01.R13", f"{lv.qualname}:one-per-argument", None,
              f"`return {short(rv, 50)}` is not the element-wise image of `{lv.params[0]}`: with a deduplicated / filtered result, `zip(literal_values(values), values)` in the deserialization visitor pairs keys with the wrong values - Literal[False, 0] rejects 0, Literal[1, True, 'high', 2] maps 'high' to True",
              lv, rets13[0], detail=f"[... for v in {lv.params[0]}]")
    lit13 = model.func("apischema.deserialization.DeserializationMethodVisitor.literal.<locals>.factory")
    ctx.check("zip(keys, values)" in norm(lit13.node) and "keys = literal_values(values)" in norm(lit13.node), "C01.R13", f"{lit13.qualname}:zip", None, "the literal value table is no longer built by zipping literal_values(values) with values (rule to be re-derived)", lit13, lit13.node, detail="zip(literal_values(values), values)", nontrivial=False)

    # ---------------- R11: merged multipleOf
    ctx.rule("C01.R11", "multipleOf constraints of two levels merge into their least common multiple computed on integers (floor division): a float result loses precision on large integers, which are then rejected although they are multiples", floor=2)
    mm = model.func("apischema.constraints.merge_mult_of")
    rets = [r for r in walk_no_nested(mm.node) if isinstance(r, ast.Return) and r.value is not None]
    ctx.require(len(rets) == 1, "merge_mult_of: single return not found")
    v = rets[0].value
    true_div = [b for b in ast.walk(v) if isinstance(b, ast.BinOp) and isinstance(b.op, ast.Div)]
    is_lcm = (isinstance(v, ast.BinOp) and isinstance(v.op, ast.FloorDiv) and "gcd(" in norm(v.right)) or (isinstance(v, ast.Call) and (dotted(v.func) or "").endswith("lcm"))
    ctx.check(is_lcm and not true_div, "C01.R11", f"{mm.qualname}:lcm", None,
              f"`return {short(v, 50)}` computes the merged multiple with a true division: the result is a float (12.0) and `value % 12.0` is inexact beyond 2**53 - 12 * (2**53 + 1) is refused as 'not a multiple of 12.0'",
              mm, rets[0], detail="m1 * m2 // gcd(m1, m2)")
    guards = [n for n in walk_no_nested(mm.node) if isinstance(n, ast.If) and any(isinstance(x, ast.Raise) for x in n.body)]
    ok = len(guards) == 1 and isinstance(guards[0].test, ast.BoolOp) and isinstance(guards[0].test.op, ast.Or) and all("isinstance" in norm(x) and "int" in norm(x) for x in guards[0].test.values)
    ctx.check(ok, "C01.R11", f"{mm.qualname}:integers-only", None, "merge_mult_of does not refuse the merge as soon as one of the two values is not an integer (gcd is only defined on integers)", mm, guards[0] if guards else mm.node, detail="not int(m1) or not int(m2) -> TypeError")

def generic_substitution_rule(ctx, rule):
    model = ctx.model
    # ---------------- R12: substitution into generic bases and inherited hints reaches nested variables
    ctx.rule(rule, "generic inheritance: the arguments of the subclass are substituted into a base (and into an inherited hint) through its `__parameters__`, i.e. wherever the variables occur - Box[List[T]] as well as Box[T]; substituting the top-level arguments only leaves nested variables unbound (the field is then handled as Any: anything is accepted and returned raw)", floor=2)
    gm12 = model.func("apischema.typing._generic_mro")
    rth = model.func("apischema.typing.resolve_type_hints")
    for fi12, what in ((gm12, "base"), (rth, "hint")):
        subs = [n for n in ast.walk(fi12.node) if isinstance(n, ast.Call) and dotted(n.func) in ("tuple", "list") and n.args and isinstance(n.args[0], (ast.GeneratorExp, ast.ListComp))
                and "substitution.get(" in norm(n.args[0].elt)]
        ctx.require(len(subs) >= 1, f"{fi12.qualname}: arguments rebuilt with the substitution not found")
        for sub_ in subs:
            it = sub_.args[0].generators[0].iter
            it_text = norm(it)
            if isinstance(it, ast.Name):
                defs12 = [norm(a.value) for a in walk_no_nested(fi12.node) if isinstance(a, ast.Assign) and norm(a.targets[0]) == it.id]
                it_text = " ".join(defs12) or it_text
            deep = "__parameters__" in it_text
            ctx.check(deep, rule, f"{fi12.qualname}:{what}-substitution", None,
                      f"`{short(sub_, 70)}` substitutes over `{short(it, 30)}`, the top-level arguments: for `class Batch(Box[List[T]])`, Batch[UUID] keeps `content: List[T]` with T unbound - deserialize returns the raw strings where UUIDs are expected (and accepts anything)",
                      fi12, sub_, detail="tuple(substitution.get(p, p) for p in <alias>.__parameters__)")


def mutants(mb):
    mb.add_text("neg-literal-values-map", "apischema/utils.py", "    primitive_values = [v.value if isinstance(v, Enum) else v for v in values]\n", "    primitive_values = list(map(lambda v: v.value if isinstance(v, Enum) else v, values))\n", negative=True)
    mb.add_text("typed-dict-visited-by-origin", "apischema/visitor.py", "            return self.typed_dict(tp, resolve_type_hints(tp), required_keys)\n", "            return self.typed_dict(origin, resolve_type_hints(origin), required_keys)\n", "C01.R14", "typed_dict")
    mb.add_text("literal-values-deduplicated", "apischema/utils.py", "    return primitive_values\n", "    return list(dict.fromkeys(primitive_values))\n", "C01.R13", "one-per-argument")
    mb.add_text("generic-base-top-level-substitution", "apischema/typing.py", "            base_parameters = getattr(base, \"__parameters__\", ())\n            if base_parameters:\n                base = base[tuple(substitution.get(p, p) for p in base_parameters)]\n", "            if getattr(base, \"__parameters__\", ()):\n                base = get_origin(base)[tuple(substitution.get(a, a) for a in get_args(base))]\n", "C01.R12", "base-substitution")
    mb.add_text("mult-of-true-division", "apischema/constraints.py", "    return m1 * m2 // gcd(m1, m2)", "    return m1 * m2 / gcd(m1, m2)", "C01.R11", "lcm")
    mb.add_text("generic-params-by-appearance", "apischema/typing.py", "        parameters = getattr(origin, \"__parameters__\", None)\n        if parameters is None:\n            parameters = _collect_type_parameters(origin.__orig_bases__)\n", "        parameters = _collect_type_parameters(origin.__orig_bases__)\n", "C01.R10", "parameters")
    M = "apischema/deserialization/methods.py"
    mb.add_text("float-accepts-bool", M, "        elif isinstance(data, int) and not isinstance(data, bool):", "        elif isinstance(data, int):", "C01.R2", "FloatMethod")
    mb.add_text("int-accepts-bool", M, "        if not isinstance(data, int) or isinstance(data, bool):\n            raise bad_type(data, int)", "        if not isinstance(data, int):\n            raise bad_type(data, int)", "C01.R2", "IntMethod")
    mb.add_text("int-accepts-float", M, "        if not isinstance(data, int) or isinstance(data, bool):\n            raise bad_type(data, int)", "        if not isinstance(data, (int, float)) or isinstance(data, bool):\n            raise bad_type(data, int)", "C01.R2", "IntMethod")
    mb.add_text("float-rejects-int", M, "        elif isinstance(data, int) and not isinstance(data, bool):\n            try:\n                return float(data)\n            except OverflowError:\n                raise ValidationError(\"integer too large to be converted to float\")\n        else:", "        else:", "C01.R2", "FloatMethod")
    mb.add_text("str-no-guard", M, "        if not isinstance(data, str):\n            raise bad_type(data, str)\n        return data", "        return data", "C01.R2", "StrMethod")
    mb.add_text("bool-accepts-int", M, "        if not isinstance(data, bool):\n            raise bad_type(data, bool)", "        if not isinstance(data, int):\n            raise bad_type(data, bool)", "C01.R2", "BoolMethod")
    mb.add_text("list-accepts-tuple-dict", M, "        if not isinstance(data, list):\n            raise bad_type(data, list)\n        elt_errors: ErrorDict = {}", "        if not isinstance(data, (list, dict)):\n            raise bad_type(data, list)\n        elt_errors: ErrorDict = {}", "C01.R2", "SetMethod")
    mb.add_text("none-inverted", M, "        if data is not None:\n            raise bad_type(data, NoneType)", "        if data is None:\n            raise bad_type(data, NoneType)", "C01.R2", "NoneMethod")
    mb.add_text("min-exclusive", M, "        return data >= self.minimum", "        return data > self.minimum", "C01.R4", "MinimumConstraint")
    mb.add_text("excmax-inclusive", M, "        return data < self.exc_max", "        return data <= self.exc_max", "C01.R4", "ExclusiveMaximumConstraint")
    mb.add_text("maxitems-strict", M, "        return len(data) <= self.max_items", "        return len(data) < self.max_items", "C01.R4", "MaxItemsConstraint")
    mb.add_text("minlen-swapped", M, "        return len(data) >= self.min_len", "        return len(data) <= self.min_len", "C01.R4", "MinLengthConstraint")
    mb.add_text("pattern-fullmatch", M, "        return self.pattern.match(data) is not None", "        return self.pattern.fullmatch(data) is not None", "C01.R4", "PatternConstraint")
    mb.add_text("multiple-inverted", M, "            return not (data % self.mult_of)", "            return bool(data % self.mult_of)", "C01.R4", "MultipleOfConstraint")
    mb.add_text("constraint-class-renamed", M, "class MaxPropertiesConstraint(Constraint):", "class MaxPropsConstraint(Constraint):", "C01.R3", "maxProperties")
    mb.add_text("errors-attr-renamed", "apischema/settings.py", "        min_items: ConstraintError = ", "        minimum_items: ConstraintError = ", "C01.R3", "minItems")
    mb.add_text("row-alias-typo", "apischema/constraints.py", 'constraint("maxLength", str, min_)', 'constraint("maxLen", str, min_)', "C01.R3", "maxLen")
    mb.add_text("int-constraints-dropped", "apischema/deserialization/__init__.py", "    if float in result:\n        result[int] = result[float]\n", "", "C01.R3", "int<-float")
    mb.add_text("hook-unimplemented", "apischema/deserialization/__init__.py", "    def enum(self, cls: Type[Enum]) -> DeserializationMethodFactory:\n        return self.literal(list(cls))\n", "", "C01.R1", "enum")
    mb.add_text("merge-or", "apischema/constraints.py", "        if attr1 is None:\n            constraints[name] = attr2\n        elif attr2 is None:\n            constraints[name] = attr1\n        else:\n            constraints[name] = metadata.merge(attr1, attr2)",
                "        if attr1 is not None and attr2 is not None:\n            constraints[name] = metadata.merge(attr1, attr2)\n        else:\n            constraints[name] = attr1 or attr2", "C01.R6", "merge_constraints")
    mb.add_text("merge-into-truthy", "apischema/constraints.py", "            if attr is not None:\n                alias = metadata.alias", "            if attr:\n                alias = metadata.alias", "C01.R6", "merge_into")
    counter_mutants(mb, "C01.R5")
    mb.add_text("list-elt-unconverted", M, "                values[i] = self.value_method.deserialize(elt)", "                values[i] = elt", "C01.R7", "ListMethod.value_method")
    mb.add_text("mapping-key-unconverted", M, "                new_key = self.key_method.deserialize(key)\n", "                new_key = key\n", "C01.R7", "MappingMethod.key_method")
    mb.add_text("mapping-value-gets-key", M, "                items[new_key] = self.value_method.deserialize(value)\n", "                items[new_key] = self.value_method.deserialize(key)\n", "C01.R7", "MappingMethod.value_method:part")
    mb.add_text("tuple-elt-index", M, "                elts[i] = elt_method.deserialize(data[i])", "                elts[i] = elt_method.deserialize(i)", "C01.R7", "TupleMethod.elt_methods:arg")
    mb.add_text("additional-unconverted", M, "                    ] = self.additional_field.method.deserialize(additional)", "                    ] = additional", "C01.R7", "ObjectMethod.additional_field")
    mb.add_text("conversion-result-unused", M, "        value = self.method.deserialize(data)\n", "        value = data\n", "C01.R7", "ConversionWithValueErrorMethod")
    mb.add_text("neg-child-local-alias", M, "                values[i] = self.value_method.deserialize(elt)", "                vm = self.value_method\n                values[i] = vm.deserialize(elt)", negative=True)
    mb.add_text("missing-negated", M, "            elif field.required:\n                field_errors = set_child_error(\n                    field_errors, field.alias, ValidationError(self.missing)\n                )\n            elif field.required_by", "            elif not field.required:\n                field_errors = set_child_error(\n                    field_errors, field.alias, ValidationError(self.missing)\n                )\n            elif field.required_by", "C01.R8", "ObjectMethod:missing")
    mb.add_text("simple-missing-dropped", M, "            elif field.required:\n                field_errors = set_child_error(\n                    field_errors, field.alias, ValidationError(self.missing)\n                )\n        has_discriminator = False", "        has_discriminator = False", "C01.R8", "SimpleObjectMethod:missing")
    mb.add_text("required-by-polarity", M, "            elif field.required_by is not None and not field.required_by.isdisjoint(", "            elif field.required_by is not None and field.required_by.isdisjoint(", "C01.R8", "ObjectMethod:missing")
    mb.add_text("scan-guard-flipped", M, "        elif len(data) != fields_count:\n", "        elif len(data) == fields_count:\n", "C01.R8", "ObjectMethod:unexpected")
    mb.add_text("addprops-polarity", M, "        elif len(data) != fields_count:\n            if not self.additional_properties:", "        elif len(data) != fields_count:\n            if self.additional_properties:", "C01.R8", "ObjectMethod:")
    mb.add_text("discriminator-polarity", M, "                for key in data.keys() - self.all_aliases:\n                    if key != discriminator:", "                for key in data.keys() - self.all_aliases:\n                    if key == discriminator:", "C01.R8", "ObjectMethod:unexpected")
    mb.add_text("simple-typed-polarity", M, "        if len(data) != fields_count and not self.typed_dict:", "        if len(data) != fields_count and self.typed_dict:", "C01.R8", "SimpleObjectMethod:unexpected")
    mb.add_text("simple-guard-or", M, "        if len(data) != fields_count and not self.typed_dict:", "        if len(data) != fields_count or not self.typed_dict:", "C01.R8", "SimpleObjectMethod:unexpected")
    mb.add_text("typed-copy-polarity", M, "            elif self.typed_dict:\n                for key in data.keys() - self.all_aliases:", "            elif not self.typed_dict:\n                for key in data.keys() - self.all_aliases:", "C01.R8", "ObjectMethod:copy")
    mb.add_text("remain-all-keys", M, "                for key in data.keys() - self.all_aliases:\n                    if key != discriminator:", "                for key in data.keys():\n                    if key != discriminator:", "C01.R8", "ObjectMethod:unexpected:keys")
    mb.add_text("applied-when-absent", M, "            if field.alias in data:\n                fields_count += 1\n                try:\n                    values[field.name]", "            if field.alias not in data:\n                fields_count += 1\n                try:\n                    values[field.name]", "C01.R8", "ObjectMethod:")
    mb.add_text("flattened-from-remain", M, "                    for alias in flattened_field.aliases\n                    if alias in data\n", "                    for alias in flattened_field.aliases\n                    if alias in remain\n", "C01.R8", "attribution:flattened")
    mb.add_text("pattern-keys-not-consumed", M, "                remain.difference_update(matched)\n", "", "C01.R8", "attribution:pattern:consumed")
    mb.add_text("pattern-from-data", M, "                    for key in remain\n                    if isinstance(key, str) and pattern_field.pattern.match(key)", "                    for key in data\n                    if isinstance(key, str) and pattern_field.pattern.match(key)", "C01.R8", "attribution:pattern")
    mb.add_text("literal-lookup-raw-key", M, "            return self.value_map[isinstance(data, bool), data]", "            return self.value_map[False, data]", "C01.R9", "LiteralMethod")
    mb.add_text("literal-table-raw-key", "apischema/deserialization/__init__.py", "                {(isinstance(key, bool), key): value for key, value in zip(keys, values)},", "                {(False, key): value for key, value in zip(keys, values)},", "C01.R9", "table")
    mb.add_text("to-hashable-bool-untagged", M, "    elif isinstance(data, bool):  # True == 1 for Python, they are distinct for JSON\n        return bool, data\n", "", "C01.R9", "to_hashable")
    mb.add_text("all-aliases-with-aggregates", "apischema/deserialization/__init__.py", "            all_alliases = {field.alias for field in normal_fields}\n", "            all_alliases = set(alias_by_name.values())\n", "C01.R8", "all_aliases")
    mb.add_text("neg-guard-clause-form", M, "                    for key in remain:\n                        if key != discriminator:\n                            field_errors = set_child_error(\n                                field_errors, key, ValidationError(self.unexpected)\n                            )", "                    for key in remain:\n                        if key == discriminator:\n                            continue\n                        field_errors = set_child_error(\n                            field_errors, key, ValidationError(self.unexpected)\n                        )", negative=True)
    mb.add_text("neg-else-branch-form", M, "        elif len(data) != fields_count:\n            if not self.additional_properties:", "        elif not (len(data) == fields_count):\n            if not self.additional_properties:", negative=True)
    mb.add_text("neg-operand-order", M, "        return data >= self.minimum", "        return self.minimum <= data", negative=True)
    mb.add_text("neg-guard-form", M, "        if not isinstance(data, bool):\n            raise bad_type(data, bool)\n        return data", "        if isinstance(data, bool):\n            return data\n        raise bad_type(data, bool)", negative=True)
