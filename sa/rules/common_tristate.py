"""Tri-state options (Optional[bool]) must be defaulted on `is None`, never with
`or` / truthiness: `all_refs or version.all_refs` replaces an explicit False by
the default."""
import ast

from ..util import norm, short, walk_no_nested


def tri_state_rule(ctx, rule: str, prefixes):
    model = ctx.model
    n = 0
    for fi in model.functions.values():
        if not fi.module.name.startswith(tuple(prefixes)):
            continue
        args = fi.node.args
        opt_bool = {a.arg for a in (*args.args, *args.kwonlyargs) if a.annotation is not None and norm(a.annotation) in ("Optional[bool]", "bool | None")}
        if not opt_bool:
            continue
        n += 1
        bad = False
        for nd in walk_no_nested(fi.node):
            if isinstance(nd, ast.BoolOp) and isinstance(nd.op, ast.Or):
                for v in nd.values[:-1]:
                    if isinstance(v, ast.Name) and v.id in opt_bool:
                        bad = True
                        ctx.fail(rule, f"{fi.qualname}:{v.id}", nd, f"`{short(nd, 60)}`: `{v.id}` is Optional[bool]; `or` replaces an explicit False by the default (only None means \"use the default\")", fi.module.relpath, nd.lineno)
            if isinstance(nd, ast.IfExp) and isinstance(nd.test, ast.Name) and nd.test.id in opt_bool:
                bad = True
                ctx.fail(rule, f"{fi.qualname}:{nd.test.id}", nd, f"`{short(nd, 60)}`: truthiness test on the Optional[bool] option `{nd.test.id}` conflates False and None", fi.module.relpath, nd.lineno)
        if not bad:
            ctx.ok(rule, f"{fi.qualname}:tri-state", f"{sorted(opt_bool)} defaulted on `is None` / opt_or", nontrivial=False, where=fi.loc)
    return n
