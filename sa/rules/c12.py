"""C12 - conversions compose.

Decides direction hygiene and sibling agreement of the conversion hooks across all
visitors, threading of sub-conversions, that the dynamic-conversion locality rule
is decided in one place by a guard equivalent to `not dynamic and collection and
not str`, append-only registration order and the ValueError discipline. The
commuting-square law over runtime values is not decided.
"""
import ast

from ..boolx import BoolEval, Unknown, show, valuations
from ..model import AnalysisError
from ..nodes import DESER_MOD
from ..util import flatten_boolop, dotted, norm, short, walk_no_nested

CV = "apischema.conversions.visitor"
DV = f"{CV}.DeserializationVisitor"
SV = f"{CV}.SerializationVisitor"
DESER_ATTRS = {"source", "deserialization"}
SER_ATTRS = {"target", "serialization"}


def direction_of(model, cls_q: str) -> str:
    d = model.is_subclass(cls_q, DV)
    s = model.is_subclass(cls_q, SV)
    return "deser" if d and not s else "ser" if s and not d else "generic"


def check(ctx):
    model = ctx.model
    ctx.explanations.append(
        "C12: decided - every visit_with_conv call traverses a conversion through the attribute of its visitor's direction "
        "(source / deserialization vs. target / serialization; direction-generic visitors only through _field_conversion) (R1); "
        "every _visit_conversion implementation threads sub_conversion(conv, next_conversion) (R2); next_conversion is bound to "
        "the current dynamic conversion only in ConversionsVisitor.visit under a guard whose truth table equals "
        "`not dynamic and Collection and not str`, and every visit override delegates to it (R3); deserializers are appended, "
        "serializers looked up along the MRO in order (R4); ValueError becomes ValidationError only for catch_value_error "
        "converters (R5). Not decided: deserialize(T, d) == f(deserialize(S, d)) as a relation over values."
    )
    # ---------------- R1
    ctx.rule("C12.R1", "visit_with_conv arguments use the conversion attributes of the visitor's own direction", floor=20)
    n_sites = 0
    # wrappers: methods that forward their own parameters to visit_with_conv (treated like visit_with_conv at their call sites)
    wrappers = {"visit_with_conv"}
    for fi in model.functions.values():
        if fi.cls is None:
            continue
        for c in ast.walk(fi.node):
            if isinstance(c, ast.Call) and isinstance(c.func, ast.Attribute) and c.func.attr == "visit_with_conv" and norm(c.func.value) == "self" \
                    and len(c.args) == 2 and all(isinstance(a, ast.Name) and a.id in fi.params for a in c.args) and fi.name != "visit_with_conv":
                wrappers.add(fi.name)
    for fi in model.functions.values():
        owner = model.enclosing_class(fi)
        for c in walk_no_nested(fi.node, include_lambda=True):
            if not (isinstance(c, ast.Call) and isinstance(c.func, ast.Attribute) and c.func.attr in wrappers):
                continue
            if fi.name in wrappers and fi.name != "visit_with_conv" and all(isinstance(a, ast.Name) for a in c.args):
                continue  # the forwarding call inside a wrapper
            recv = c.func.value
            cls_q = None
            if isinstance(recv, ast.Name) and recv.id == "self" and owner is not None:
                cls_q = owner.qualname
            elif norm(recv) == "self.input_builder":
                cls_q = "apischema.graphql.schema.InputSchemaBuilder"
            if cls_q is None or cls_q not in model.classes:
                continue
            n_sites += 1
            d = direction_of(model, cls_q)
            attrs = {x.attr for a in c.args for x in ast.walk(a) if isinstance(x, ast.Attribute)}
            forbidden = SER_ATTRS if d == "deser" else DESER_ATTRS if d == "ser" else (SER_ATTRS | DESER_ATTRS)
            bad = sorted(attrs & forbidden)
            # the conversion argument of `identity` / None is direction-free
            ctx.check(not bad, "C12.R1", f"{fi.qualname}:visit_with_conv", c,
                      f"{cls_q.split('.')[-1]} is a {'deserialization' if d == 'deser' else 'serialization' if d == 'ser' else 'direction-generic'} visitor but traverses `{short(c, 80)}` through {bad}: the conversion of the other direction is applied",
                      fi, c, detail=f"{d}: uses {sorted(attrs & (SER_ATTRS | DESER_ATTRS)) or 'direction-neutral arguments'}")
    ctx.require(n_sites >= 20, f"only {n_sites} visit_with_conv sites")
    # _field_conversion / _annotated_conversion mirrors
    for cq, attr in ((f"apischema.objects.visitor.DeserializationObjectVisitor", "deserialization"), (f"apischema.objects.visitor.SerializationObjectVisitor", "serialization")):
        m = model.cls(cq).methods["_field_conversion"]
        ctx.check(f"return field.{attr}" in norm(m.node), "C12.R1", m.qualname, m.node.body[0], f"{cq.split('.')[-1]}._field_conversion must return field.{attr}", m, m.node, detail=f"field.{attr}")
    for cq, attr in ((DV, "deserialization"), (SV, "serialization")):
        m = model.cls(cq).methods["_annotated_conversion"]
        ctx.check(f"return annotation.{attr}" in norm(m.node), "C12.R1", m.qualname, m.node.body[0], f"{cq.split('.')[-1]}._annotated_conversion must return annotation.{attr}", m, m.node, detail=f"annotation.{attr}")

    # ---------------- R2
    ctx.rule("C12.R2", "every _visit_conversion threads sub_conversion(conv, next_conversion) into visit_with_conv", floor=4)
    impls = model.methods_named(f"{CV}.ConversionsVisitor", "_visit_conversion")
    for m in impls:
        from ..visitors import classify_impl
        if classify_impl(m) == "abstract":
            continue
        calls = [c for c in walk_no_nested(m.node, include_lambda=True) if isinstance(c, ast.Call) and isinstance(c.func, ast.Attribute) and c.func.attr == "visit_with_conv"]
        d = direction_of(model, m.cls.qualname)
        ok = bool(calls)
        for c in calls:
            a0, a1 = (c.args + [None, None])[:2]
            want_attr = "source" if d == "deser" else "target"
            ok = ok and a0 is not None and norm(a0).endswith("." + want_attr) and a1 is not None and norm(a1).startswith("sub_conversion(") and norm(a1).endswith(", next_conversion)")
        ctx.check(ok, "C12.R2", m.qualname, calls[0] if calls else m.node.body[0],
                  f"{m.qualname.split('.')[-2]}._visit_conversion does not visit `conv.{'source' if d == 'deser' else 'target'}` with sub_conversion(conv, next_conversion): sub-conversions / the outer dynamic conversion are lost below a converted type",
                  m, m.node, detail="visit_with_conv(conv.<dir>, sub_conversion(conv, next_conversion))")
    sc = model.func(f"{CV}.sub_conversion")
    t = norm(sc.node)
    ctx.check("conversion.sub_conversion" in t and "next_conversion" in t and t.index("conversion.sub_conversion") < t.index("LazyConversion(lambda: next_conversion)"), "C12.R2", sc.qualname, sc.node.body[-1],
              "sub_conversion must try the conversion's own sub_conversion first, then the inherited dynamic conversion", sc, sc.node, detail="(own sub_conversion, next_conversion)")

    # ---------------- R3
    ctx.rule("C12.R3", "locality of dynamic conversions: one site, guard equivalent to `not dynamic and Collection and not str`; visit overrides delegate", floor=4)
    sites = []
    for fi in model.functions.values():
        for n in walk_no_nested(fi.node):
            if isinstance(n, ast.Assign) and norm(n.value) == "self._conversion" and isinstance(n.targets[0], ast.Name) and n.targets[0].id == "next_conversion":
                sites.append((fi, n))
    ctx.check(len(sites) == 1 and sites[0][0].qualname == f"{CV}.ConversionsVisitor.visit", "C12.R3", "next_conversion = self._conversion", sites[0][1] if sites else None,
              f"the dynamic conversion is propagated from {[s[0].qualname for s in sites]}; it must be decided in ConversionsVisitor.visit only", sites[0][0] if sites else None, sites[0][1] if sites else None, detail="single site")
    if sites:
        fi, n = sites[0]
        parents = {c: p for p in ast.walk(fi.node) for c in ast.iter_child_nodes(p)}
        guard = parents.get(n)
        ctx.require(isinstance(guard, ast.If) and n in guard.body, "the propagation site is not directly under an `if`")
        atoms = {"dynamic": "dynamic", "conversion is None": "no_conv", "conversion is not None": "!no_conv", "is_subclass(tp, Collection)": "coll", "is_subclass(tp, str)": "isstr"}
        def special12(e, _):
            if norm(e) == "is_convertible(tp)":
                return lambda v: True      # the site comes after `if not is_convertible(tp): return ...`
            # `<origin of tp> in <module-level table of container classes>`: true for the listed builtin / typing
            # containers only - a finite subset of the Collection classes (never str)
            if isinstance(e, ast.Compare) and len(e.ops) == 1 and isinstance(e.ops[0], (ast.In, ast.NotIn)) and isinstance(e.comparators[0], ast.Name) and e.comparators[0].id.isupper() and "tp" in norm(e.left):
                neg = isinstance(e.ops[0], ast.NotIn)
                return lambda v: (not v["plain"]) if neg else v["plain"]
            return None
        be = BoolEval(atoms, special=special12)
        # the condition under which the site is reached: the guard and what encloses / precedes it (`if dynamic: return` before it counts)
        from ..pathcond import path_condition as _pc12
        reach12 = _pc12(fi.node, n, parents)
        try:
            bad = None
            for v in valuations(["dynamic", "no_conv", "coll", "isstr", "plain"], lambda v: (not v["plain"]) or (v["coll"] and not v["isstr"])):
                want = (not v["dynamic"]) and v["coll"] and not v["isstr"]
                got = bool(be.ev(reach12, v))
                if got != want and bad is None:
                    bad = (v, got, want)
            ctx.check(bad is None, "C12.R3", f"{fi.qualname}:guard", guard.test,
                      (f"guard `{short(guard.test, 90)}` is {bad[1]} for [{show(bad[0])}] where the locality rule says {bad[2]}: a dynamic conversion {'leaks into' if bad[1] else 'no longer reaches'} "
                       f"the elements of a collection (documented: dynamic conversions reach through containers, are consumed where they apply, and `identity` only bypasses the type it is applied to)") if bad else "",
                      fi, guard, detail="guard == (not dynamic and collection and not str), over dynamic / conversion / Collection / str / listed-in-a-table-of-plain-containers")
        except Unknown as err:
            raise AnalysisError(f"C12.R3 guard: {err}")
        # the previous definition is None
        prev_none = any(isinstance(s, ast.Assign) and norm(s) == "next_conversion = None" for s in fi.node.body)
        ctx.check(prev_none, "C12.R3", f"{fi.qualname}:default", guard, "next_conversion does not default to None", fi, guard, detail="next_conversion = None")
    for m in model.methods_named(f"{CV}.ConversionsVisitor", "visit"):
        if m.qualname == f"{CV}.ConversionsVisitor.visit":
            continue
        rets_ok = True
        has_super = any(isinstance(c, ast.Call) and norm(c.func) == "super().visit" for c in walk_no_nested(m.node, include_lambda=True))
        alt = any(isinstance(c, ast.Call) and norm(c.func) == "self.visit_not_recursive" for c in walk_no_nested(m.node))
        ctx.check(has_super or alt, "C12.R3", m.qualname, m.node.body[0], f"{m.qualname} overrides visit without delegating to ConversionsVisitor.visit: conversions would not be resolved for the types it handles", m, m.node, detail="delegates to super().visit / visit_not_recursive")
    vnr = model.func("apischema.recursion.RecursiveConversionsVisitor.visit_not_recursive")
    ctx.check("super().visit(tp)" in norm(vnr.node), "C12.R3", vnr.qualname, vnr.node.body[0], "visit_not_recursive base implementation must be super().visit(tp)", vnr, vnr.node, detail="super().visit(tp)")

    # ---------------- R6 scoped conversion context
    from .common_scoped import scoped_state_rule
    ctx.rule("C12.R6", "the current dynamic conversion (self._conversion) and other traversal state are changed only inside `with context_setter(self)`", floor=2)
    scoped_state_rule(ctx, "C12.R6", lambda q: q.startswith(("apischema.conversions", "apischema.recursion", "apischema.deserialization", "apischema.serialization", "apischema.json_schema.conversions_resolver")))

    # ---------------- R4
    ctx.rule("C12.R4", "registration order: deserializers are appended; serializers are found along the MRO in order", floor=3)
    ad = model.func("apischema.conversions.converters._add_deserializer")
    ok = any(isinstance(n, ast.Assign) and norm(n.value) in ("(*_deserializers[target], conversion)",) for n in walk_no_nested(ad.node))
    ctx.check(ok, "C12.R4", ad.qualname, ad.node.body[-1], "a new deserializer is not appended after the existing ones (they are tried in registration order)", ad, ad.node, detail="(*old, conversion)")
    ds = model.func("apischema.conversions.converters.default_serialization")
    loops = [n for n in walk_no_nested(ds.node) if isinstance(n, ast.For)]
    ok = len(loops) == 1 and "__mro__" in norm(loops[0].iter) and "reversed" not in norm(loops[0].iter) and any(isinstance(r, ast.Return) for r in ast.walk(loops[0]))
    ctx.check(ok, "C12.R4", ds.qualname, ds.node.body[0], "default_serialization must return the first registered serializer along tp.__mro__ (subclasses inherit, nearest wins)", ds, ds.node, detail="for sub_cls in tp.__mro__: ... return")
    cm = model.mod("apischema.conversions.converters")
    v = model.module_value("apischema.conversions.converters", "default_deserialization")
    ctx.check(norm(v) == "_deserializers.get", "C12.R4", "default_deserialization", v, "default_deserialization must be the exact-type lookup", None, None, detail="_deserializers.get")

    subtyping_rule(ctx, "C12.R11")

    # ---------------- R12: `identity` bypasses a registered conversion
    ctx.rule("C12.R12", "a conversion is the identity bypass exactly when its converter is `identity`, its source equals its target and it carries no sub-conversion; a generic identity (source and target the same type variable) is specialised to the visited type first", floor=2)
    isid = model.func("apischema.conversions.conversions.is_identity")
    r12 = [r for r in walk_no_nested(isid.node) if isinstance(r, ast.Return) and r.value is not None]
    conj12 = {norm(x) for x in flatten_boolop(r12[0].value, ast.And)} if len(r12) == 1 else set()
    want12 = {"conversion.converter == identity", "conversion.source == conversion.target", "conversion.sub_conversion is None"}
    ctx.check(conj12 == want12, "C12.R12", f"{isid.qualname}:definition", None,
              f"is_identity tests {sorted(conj12)}: " + ("a conversion with another converter / other types is taken for the bypass and the registered conversion of the type is skipped" if want12 - conj12 else "an extra condition keeps `identity` from bypassing"),
              isid, r12[0] if r12 else isid.node, detail=" and ".join(sorted(want12)))
    hid = model.func("apischema.conversions.conversions.handle_identity_conversion")
    g12 = [n for n in walk_no_nested(hid.node) if isinstance(n, ast.If)]
    c12 = {norm(x) for x in flatten_boolop(g12[0].test, ast.And)} if g12 else set()
    ok12 = c12 == {"is_identity(conversion)", "conversion.source == conversion.target", "is_type_var(conversion.source)"} and any(isinstance(r, ast.Return) and "source=tp" in norm(r) and "target=tp" in norm(r) for r in ast.walk(g12[0]))
    ctx.check(ok12, "C12.R12", f"{hid.qualname}:generic-identity", None, "a generic identity conversion (T -> T) is no longer specialised to the visited type under `is_identity and source == target and source is a type variable`", hid, g12[0] if g12 else hid.node, detail="replace(conversion, source=tp, target=tp)")

    # ---------------- R10: generic conversions are specialised at any depth
    ctx.rule("C12.R10", "a generic conversion (source / target mentioning type variables) is specialised with the arguments of the visited type wherever the variables occur - List[List[T]] as well as List[T]: the test guarding substitute_type_vars looks at the alias's __parameters__, not at its top-level arguments only", floor=2)
    n10 = 0
    for q, side in ((f"{CV}.DeserializationVisitor._has_conversion", "source"), (f"{CV}.SerializationVisitor._has_conversion", "target")):
        hc = model.func(q)
        for n in walk_no_nested(hc.node):
            if isinstance(n, ast.If) and any(isinstance(c, ast.Call) and dotted(c.func) == "substitute_type_vars" and c.args and norm(c.args[0]) == f"conv.{side}" for b in n.body if not isinstance(b, (ast.If, ast.For, ast.While, ast.Try)) for c in ast.walk(b)):
                n10 += 1
                texts = [norm(n.test)]
                for c in ast.walk(n.test):
                    if isinstance(c, ast.Call) and isinstance(c.func, ast.Name):
                        tq = model.resolve_name(hc.module, c.func.id)
                        if tq in model.functions:
                            texts.append(norm(model.functions[tq].node))
                deep = any("__parameters__" in t for t in texts)
                shallow = any("get_args" in t and "is_type_var" in t for t in texts) and not deep
                ctx.check(deep and not shallow, "C12.R10", f"{q}:{side}", None,
                          f"`if {short(n.test, 70)}` only sees type variables that are direct arguments of conv.{side}: with `def f(l: List[List[T]]) -> W[T]`, deserialize(W[int], [['a']], conversion=f) is accepted because the source stays List[List[T]] (T unconstrained) instead of List[List[int]]",
                          hc, n, detail=f"type variables of conv.{side} found through __parameters__")
    ctx.require(n10 == 2, f"guards of substitute_type_vars in _has_conversion: {n10} found")

    # ---------------- R9: inheritance of a lazily registered serializer
    ctx.rule("C12.R9", "a serializer registered lazily is inherited by subclasses exactly as if it were registered directly: default_serialization inherits bare converters and Conversions whose `inherited` is None / True, and LazyConversion.inherited answers the same for what the lazy getter returns", floor=2)
    li = model.func("apischema.conversions.conversions.LazyConversion.inherited")
    t9 = norm(li.node)
    bare_inherited_direct = "not isinstance(conversion, (Conversion, LazyConversion))" in norm(ds.node)
    # every return of LazyConversion.inherited reached when the resolved conversion is NOT a Conversion must be None (inherited), unless nothing was resolved
    from ..pathcond import parents_of as _po, path_condition as _pc
    pm9 = _po(li.node)
    bad9 = []
    for r in walk_no_nested(li.node):
        if not isinstance(r, ast.Return):
            continue
        cond = norm(_pc(li.node, r, pm9))
        v = r.value
        in_conv_branch = "isinstance(conversion, Conversion)" in cond and "not isinstance(conversion, Conversion)" not in cond
        if in_conv_branch:
            continue
        # value for a bare converter
        vals = [v.body, v.orelse] if isinstance(v, ast.IfExp) else [v]
        for x in vals:
            tx = norm(x)
            if tx.startswith("isinstance(conversion, Conversion) and"):
                bad9.append(r)          # False for every bare converter
            elif tx in ("False",) and "conversion is not None" not in norm(v) and "conversion is None" not in cond:
                bad9.append(r)
    ctx.check(not (bare_inherited_direct and bad9), "C12.R9", f"{li.qualname}:bare-converter", None,
              "LazyConversion.inherited is False when the lazy getter returns a bare function, while default_serialization inherits a bare function registered directly: serializer(lazy=lambda: f, source=Base) is applied to Base and refused (Unsupported) for its subclasses",
              li, bad9[0] if bad9 else li.node, detail="None (inherited) for a bare converter")
    ctx.check("conversion.inherited in (None, True)" in norm(ds.node), "C12.R9", f"{ds.qualname}:inherited", None, "default_serialization no longer inherits conversions whose `inherited` is None or True", ds, ds.node, detail="conversion.inherited in (None, True)")

    # ---------------- R5
    ctx.rule("C12.R5", "ValueError -> ValidationError only for catch_value_error converters", floor=3)
    cw = model.func(f"{DESER_MOD}.ConversionWithValueErrorMethod.deserialize")
    ok = any(isinstance(n, ast.Try) and any("ValueError" in norm(h.type) and any(isinstance(s, ast.Raise) and "ValidationError" in norm(s) for s in h.body) for h in n.handlers) for n in walk_no_nested(cw.node))
    ctx.check(ok, "C12.R5", cw.qualname, cw.node.body[0], "ConversionWithValueErrorMethod must turn the converter's ValueError into ValidationError", cw, cw.node, detail="except ValueError -> ValidationError")
    cm_ = model.func(f"{DESER_MOD}.ConversionMethod.deserialize")
    ctx.check(not any(isinstance(n, ast.Try) for n in walk_no_nested(cm_.node)), "C12.R5", cm_.qualname, cm_.node.body[0], "plain ConversionMethod must not catch the converter's exceptions", cm_, cm_.node, detail="no try")
    cu = model.func(f"{DESER_MOD}.ConversionUnionMethod.deserialize")
    ok = any(isinstance(n, ast.If) and norm(n.test) == "not alternative.value_error" and isinstance(n.body[0], ast.Raise) and n.body[0].exc is None for n in walk_no_nested(cu.node))
    ctx.check(ok, "C12.R5", cu.qualname, cu.node.body[0], "ConversionUnionMethod must re-raise ValueError of converters that are not catch_value_error", cu, cu.node, detail="if not alternative.value_error: raise")
    vc = model.func("apischema.deserialization.DeserializationMethodVisitor._visit_conversion.<locals>.factory")
    t = norm(vc.node)
    ok = t.count("isinstance(conv.converter, ValueErrorCatcher)") == 2 and "conv.converter.func if isinstance(conv.converter, ValueErrorCatcher) else conv.converter" in t
    ctx.check(ok, "C12.R5", vc.qualname, vc.node.body[0], "value_error flag and unwrapped converter must both derive from isinstance(conv.converter, ValueErrorCatcher)", vc, vc.node, detail="flag and unwrapping from the same test")

    # ---------------- R7
    ctx.rule("C12.R7", "a converted type is never registered for by-type union dispatch: its node accepts whatever its source(s) accept (shared with C13.R1)", floor=1)
    from .c13 import factory_key_rule
    factory_key_rule(ctx, "C12.R7")

    # ---------------- R8: type hints that become source / target / field types keep their Annotated metadata
    ctx.rule("C12.R8", "get_type_hints is called with include_extras=True wherever its result becomes a conversion source / target, a field or a return type (Annotated metadata carries the schema constraints and validators of that type)", floor=8)
    IDENTITY_ONLY = {
        "apischema.validation.validators.validator": "only the class of the first parameter is used (owner lookup)",
        "apischema.methods.method_registerer.<locals>.decorator": "only the class of the first parameter is used (owner lookup)",
        "apischema.utils.is_async": "only whether the return type is awaitable is used",
    }
    for fi in model.functions.values():
        for c in model.calls_in(fi, include_nested=False):
            if (dotted(c.func) or "").split(".")[-1] != "get_type_hints" or fi.name == "get_type_hints":
                continue
            construct = f"{fi.qualname}:get_type_hints({norm(c.args[0]) if c.args else ''})"
            named = next((why for q, why in IDENTITY_ONLY.items() if fi.qualname == q or fi.qualname.startswith(q + ".")), None)
            if named:
                ctx.ok("C12.R8", construct, "named exception: " + named, nontrivial=False, where=fi.loc)
                continue
            kw = {k.arg: k.value for k in c.keywords}
            ok = "include_extras" in kw and isinstance(kw["include_extras"], ast.Constant) and kw["include_extras"].value is True
            ctx.check(ok, "C12.R8", construct, c, f"`{short(c, 70)}` drops Annotated metadata: a source / target / return type declared `Annotated[T, schema(...)]` loses its constraints, so the converted type no longer rejects what its source rejects and its JSON schema is not the source's", fi, c, detail="include_extras=True")


def subtyping_rule(ctx, rule):
    model = ctx.model
    # ---------------- R11: which base of the converted type binds the variables of a generic conversion
    ctx.rule(rule, "subtyping_substitution pairs the arguments of the generic conversion's source with those of the first base (in the generic MRO of the converted type) that is the same class, or a plain collection when the source is a plain collection too: a user generic subclass of a collection (class Registry(Dict[str, T])) is matched at its collection base, where the arguments line up", floor=1)
    sub_f = model.func("apischema.utils.subtyping_substitution")
    return_from_check = False
    guards11 = [n for n in ast.walk(sub_f.node) if isinstance(n, ast.If) and any(isinstance(x, ast.Break) for x in n.body)]
    ctx.require(len(guards11) == 1, "subtyping_substitution: the test selecting the matching base was not found")
    g11 = guards11[0]
    ev11 = BoolEval({"base_origin == super_origin": "same", "base_origin in ITERABLE_TYPES": "base_plain", "super_origin in ITERABLE_TYPES": "super_plain",
                     "is_subclass(base_origin, super_origin)": "sub", "issubclass(base_origin, super_origin)": "sub"})
    try:
        got11 = ev11.compile(g11.test)
        bad11 = next((v for v in valuations(["same", "base_plain", "super_plain", "sub"], lambda v: (not v["same"]) or v["sub"])
                      if bool(got11(v)) != bool(v["same"] or (v["base_plain"] and v["super_plain"]))), None)
        ctx.check(bad11 is None, rule, f"{sub_f.qualname}:matching-base", None,
                  f"`if {short(g11.test, 80)}` selects another base under [{show(bad11) if bad11 else ''}]: e.g. the user class itself when it is a subclass of the abstract source - `Registry[int]` (a Dict[str, T]) converted by `f(m: Mapping[K, V]) -> List[Tuple[K, V]]` binds K=int and leaves V unbound, the serialization schema says `[[integer, any]]` for data [['a', 1]]",
                  sub_f, g11, detail="base_origin == super_origin or (base_origin in ITERABLE_TYPES and super_origin in ITERABLE_TYPES)")
    except Unknown as err:
        ctx.undecided(rule, f"{sub_f.qualname}: {err}")


def mutants(mb):
    mb.add_text("identity-ignores-sub-conversion", "apischema/conversions/conversions.py", "        and conversion.sub_conversion is None\n", "", "C12.R12", "definition")
    mb.add_text("identity-any-types", "apischema/conversions/conversions.py", "        conversion.converter == identity\n        and conversion.source == conversion.target\n", "        conversion.converter == identity\n", "C12.R12", "definition")
    mb.add_text("substitution-matches-subclass-of-abstract-source", "apischema/utils.py", "            base_origin in ITERABLE_TYPES and super_origin in ITERABLE_TYPES\n", "            super_origin in ITERABLE_TYPES and is_subclass(base_origin, super_origin)\n", "C12.R11", "matching-base")
    mb.add_text("generic-conversion-top-level-vars", "apischema/conversions/visitor.py", "    return is_type_var(tp) or (\n        not isinstance(tp, type) and bool(getattr(tp, \"__parameters__\", ()))\n    )\n", "    from apischema.utils import get_args2\n\n    return is_type_var(tp) or any(map(is_type_var, get_args2(tp)))\n", "C12.R10", "_has_conversion")
    mb.add_text("lazy-bare-converter-not-inherited", "apischema/conversions/conversions.py", "        if isinstance(conversion, Conversion):\n            return conversion.inherited\n        # a bare converter is inherited, as when it is registered directly\n        return None if conversion is not None else False\n", "        return isinstance(conversion, Conversion) and conversion.inherited\n", "C12.R9", "bare-converter")
    CVp = "apischema/conversions/visitor.py"
    D = "apischema/deserialization/__init__.py"
    S = "apischema/serialization/__init__.py"
    M = "apischema/deserialization/methods.py"
    CO = "apischema/conversions/converters.py"
    mb.add_text("conversion-factory-keyed", D, "        return self._factory(factory, validation=not dynamic)\n", "        return dataclasses.replace(self._factory(factory, validation=not dynamic), cls=conv_factories[0].cls)\n", "C12.R7", "replace(cls=)")
    mb.add_text("converter-types-no-extras", "apischema/conversions/utils.py", "        types = get_type_hints(converter, None, namespace, include_extras=True)", "        types = get_type_hints(converter, None, namespace)", "C12.R8", "converter_types")
    mb.add_text("guard-conversion-none", CVp, "        if not dynamic and is_subclass(tp, Collection) and not is_subclass(tp, str):", "        if (\n            conversion is None\n            and is_subclass(tp, Collection)\n            and not is_subclass(tp, str)\n        ):", "C12.R3", "guard")
    mb.add_text("guard-no-str", CVp, "        if not dynamic and is_subclass(tp, Collection) and not is_subclass(tp, str):", "        if not dynamic and is_subclass(tp, Collection):", "C12.R3", "guard")
    mb.add_text("guard-plain-containers-only", CVp, "        if not dynamic and is_subclass(tp, Collection) and not is_subclass(tp, str):", "        if not dynamic and get_origin_or_type(tp) in ITERABLE_TYPES:", "C12.R3", "guard")
    mb.out[-1].new_src = mb.out[-1].new_src.replace("from apischema.utils import (\n", "from apischema.utils import (\n    ITERABLE_TYPES,\n", 1)
    mb.add_text("guard-always", CVp, "        if not dynamic and is_subclass(tp, Collection) and not is_subclass(tp, str):", "        if not dynamic:", "C12.R3", "guard")
    mb.add_text("deser-field-serialization", D, "            self.visit_with_conv(f.type, f.deserialization).merge(", "            self.visit_with_conv(f.type, f.serialization).merge(", "C12.R1", "object")
    mb.add_text("ser-field-deserialization", S, "            field_method = self.visit_with_conv(field.type, field.serialization)", "            field_method = self.visit_with_conv(field.type, field.deserialization)", "C12.R1", "object")
    mb.add_text("ser-conversion-source", S, "        conv_method = self.visit_with_conv(\n            conversion.target, sub_conversion(conversion, next_conversion)\n        )", "        conv_method = self.visit_with_conv(\n            conversion.source, sub_conversion(conversion, next_conversion)\n        )", "C12.R", "_visit_conversion")
    mb.add_text("deser-drops-next", D, "            self.visit_with_conv(conv.source, sub_conversion(conv, next_conversion))\n            for conv in conversion\n        ]\n\n        def factory", "            self.visit_with_conv(conv.source, conv.sub_conversion)\n            for conv in conversion\n        ]\n\n        def factory", "C12.R2", "_visit_conversion")
    mb.add_text("field-conversion-crossed", "apischema/objects/visitor.py", "class SerializationObjectVisitor(ObjectVisitor[Result]):\n    _field_kind_filtered = FieldKind.WRITE_ONLY\n\n    @staticmethod\n    def _field_conversion(field: ObjectField) -> Optional[AnyConversion]:\n        return field.serialization", "class SerializationObjectVisitor(ObjectVisitor[Result]):\n    _field_kind_filtered = FieldKind.WRITE_ONLY\n\n    @staticmethod\n    def _field_conversion(field: ObjectField) -> Optional[AnyConversion]:\n        return field.deserialization", "C12.R1", "_field_conversion")
    mb.add_text("deserializer-prepended", CO, "        _deserializers[target] = *_deserializers[target], conversion", "        _deserializers[target] = conversion, *_deserializers[target]", "C12.R4", "_add_deserializer")
    mb.add_text("serializer-mro-reversed", CO, '    for sub_cls in getattr(tp, "__mro__", [tp]):\n        if sub_cls in _serializers:', '    for sub_cls in reversed(getattr(tp, "__mro__", [tp])):\n        if sub_cls in _serializers:', "C12.R4", "default_serialization")
    mb.add_text("valueerror-always-caught", M, "                if not alternative.value_error:\n                    raise\n", "", "C12.R5", "ConversionUnionMethod")
    mb.add_text("conversion-not-restored", CVp, "        with context_setter(self):\n            self._conversion = resolve_any_conversion(conversion) or None\n            yield", "        self._conversion = resolve_any_conversion(conversion) or None\n        yield", "C12.R6", "_replace_conversion")
    mb.add_text("neg-guard-rewritten", CVp, "        if not dynamic and is_subclass(tp, Collection) and not is_subclass(tp, str):", "        if not (dynamic or is_subclass(tp, str)) and is_subclass(tp, Collection):", negative=True)
